"""CLI:  python -m bsa <Cxx> [--tier quick|thorough] [--replay <violation.json>] [--rules R04.1,...]"""
from __future__ import annotations

import argparse
import json
import os
import sys
import traceback


def main(argv=None):
    ap = argparse.ArgumentParser(prog="check")
    ap.add_argument("prop")
    ap.add_argument("--tier", default=os.environ.get("VERIF_TIER") or "quick", choices=["quick", "thorough"])
    ap.add_argument("--replay", default=None)
    ap.add_argument("--rules", default=None)
    ap.add_argument("--repo", default=os.environ.get("BSA_REPO", "/repo"))
    a = ap.parse_args(argv)
    prop = a.prop
    try:
        seed = int(os.environ.get("VERIF_SEED", "0") or 0)
    except ValueError:
        seed = 0
    try:
        from . import props, rules  # noqa: F401  (registers all rules)
        from .core import Run, finish
        from .te import Repo

        if prop not in props.PROPS:
            print(f"ANALYSIS-ERROR property={prop} unknown property")
            return 2
        only = None
        if a.replay:
            with open(a.replay) as f:
                v = json.load(f)
            only = {v["rule"]}
            print(f"replaying rule {v['rule']} ({v.get('key')}) recorded as: {v.get('message')}")
        if a.rules:
            only = set(a.rules.split(","))
        repo = Repo(a.repo)
        run = Run(repo, prop, a.tier, seed, only).execute()
        extra = None
        from .core import load_known, match_known

        kn = load_known()
        fresh = [v for v in run.all_violations() if not match_known(v, prop, kn)]
        if a.tier == "thorough" and not a.replay and not fresh and not run.errors():
            from . import selftest

            extra = selftest.run_for(prop, a.repo, seed)
        meta = props.PROPS[prop]
        return finish(run, meta["level"], props.ASSUMPTIONS + meta.get("assumptions", []), meta["undecided"], extra,
                      exhaustive=meta.get("exhaustive", False))
    except Exception as ex:  # never a traceback exit (would look like a violation)
        print(f"ANALYSIS-ERROR property={prop} analyser crashed: {ex!r}")
        traceback.print_exc(limit=6, file=sys.stdout)
        return 2


if __name__ == "__main__":
    sys.exit(main())
