"""T-ESC — explicit-exception escape analysis over the resolved call graph.

escapes(func) = set of (exception class name, call chain) that can leave ``func`` through explicit ``raise``
statements and ``assert`` (AssertionError), transitively through resolvable callees (self-methods through the MRO,
module functions, wired attributes), filtered by enclosing ``try`` handlers and ``contextlib.suppress``.
A handler that contains a ``raise`` statement (bare or not) is treated as not containing what it catches.
Raises listed in ``dead`` (proved unreachable by an exhaustiveness rule) are ignored.
"""
from __future__ import annotations

import ast

from .pxv import ALIASES, Hierarchy, exc_name_of
from .te import ClassRef, FuncRef, TypeRef

# attribute wiring verified by rules/wiring (class, attr) -> (module, class)
WIRING = {
    ("AshProtocol", "_ezsp_protocol"): ("bellows.uart", "Gateway"),
    ("Gateway", "_application"): ("bellows.ezsp", "EZSP"),
    ("Gateway", "_transport"): ("bellows.ash", "AshProtocol"),
    ("EZSP", "_gw"): ("bellows.uart", "Gateway"),
}


class Escapes:
    def __init__(self, repo, dead=(), opaque=(), follow_wiring=True, asserts=False):
        self.repo = repo
        self.dead = set(id(n) for n in dead)
        self.opaque = set(opaque)  # function short names not to descend into
        self.hier = Hierarchy(repo)
        self.memo = {}
        self.follow_wiring = follow_wiring
        self.asserts = asserts
        self.unresolved = []

    def of(self, func: FuncRef, stack=()):
        if func.qual in self.memo:
            return self.memo[func.qual]
        if func.qual in stack:
            return set()
        self.memo[func.qual] = set()  # recursion guard
        out = self._block(func.node.body, func, stack + (func.qual,))
        self.memo[func.qual] = out
        return out

    # -- statements
    def _block(self, stmts, func, stack):
        out = set()
        for st in stmts:
            out |= self._stmt(st, func, stack)
        return out

    def _stmt(self, st, func, stack):
        out = set()
        if isinstance(st, (ast.FunctionDef, ast.AsyncFunctionDef, ast.ClassDef)):
            return out
        if isinstance(st, ast.Raise):
            if id(st) in self.dead:
                return out
            if st.exc is None:
                out.add(("<reraise>", (func.short,)))
            else:
                out.add((self._exc_name(st.exc, func), (func.short,)))
            return out
        if isinstance(st, ast.Assert):
            if self.asserts:
                out.add(("AssertionError", (func.short,)))
            out |= self._expr(st.test, func, stack)
            return out
        if isinstance(st, ast.Try):
            body = self._block(st.body, func, stack)
            caught_all = set()
            for h in st.handlers:
                names = self._handler_names(h, func)
                hb = self._block(h.body, func, stack)
                reraises = any(n == "<reraise>" for n, _ in hb)
                passed = set()
                for n, chain in body:
                    if self._catches(names, n):
                        if reraises:
                            passed.add((n, chain))
                        caught_all.add((n, chain))
                out |= {(n, c) for n, c in hb if n != "<reraise>"} | passed
            out |= {x for x in body if x not in caught_all}
            out |= self._block(st.orelse, func, stack)
            out |= self._block(st.finalbody, func, stack)
            return out
        if isinstance(st, (ast.With, ast.AsyncWith)):
            inner = self._block(st.body, func, stack)
            for it in st.items:
                ce = it.context_expr
                if isinstance(ce, ast.Call) and ast.unparse(ce.func) in ("contextlib.suppress", "suppress"):
                    names = [ALIASES.get(ast.unparse(a).split(".")[-1], ast.unparse(a).split(".")[-1]) for a in ce.args]
                    inner = {(n, c) for n, c in inner if not self._catches(names, n)}
                else:
                    out |= self._expr(ce, func, stack)
            return out | inner
        if isinstance(st, ast.Match):
            out |= self._expr(st.subject, func, stack)
            for case in st.cases:
                if case.guard is not None:
                    out |= self._expr(case.guard, func, stack)
                out |= self._block(case.body, func, stack)
            return out
        # compound statements
        for fld in ("body", "orelse", "finalbody"):
            sub = getattr(st, fld, None)
            if isinstance(sub, list) and sub and isinstance(sub[0], ast.stmt):
                out |= self._block(sub, func, stack)
        for ch in ast.iter_child_nodes(st):
            if isinstance(ch, ast.expr):
                out |= self._expr(ch, func, stack)
        return out

    def _expr(self, e, func, stack):
        out = set()
        for n in _walk_expr(e):
            if isinstance(n, ast.Call):
                for callee in self.resolve(n, func):
                    if callee.short in self.opaque:
                        continue
                    for name, chain in self.of(callee, stack):
                        out.add((name, (func.short,) + chain))
        return out

    # -- resolution
    def resolve(self, call, func):
        f = call.func
        repo = self.repo
        if isinstance(f, ast.Name):
            env = repo.module(func.mod) or {}
            v = env.get(f.id)
            if isinstance(v, FuncRef):
                return [v]
            return []
        if isinstance(f, ast.Attribute):
            base = f.value
            # self.method / cls.method
            if isinstance(base, ast.Name) and base.id in ("self", "cls") and func.cls is not None:
                try:
                    v = func.cls.lookup(f.attr)
                    if isinstance(v, FuncRef):
                        return [v]
                except KeyError:
                    pass
                return []
            # self.<wired attr>.method
            if (self.follow_wiring and isinstance(base, ast.Attribute) and isinstance(base.value, ast.Name)
                    and base.value.id == "self" and func.cls is not None):
                for c in func.cls.mro():
                    if isinstance(c, ClassRef) and (c.name, base.attr) in WIRING:
                        mod, cn = WIRING[(c.name, base.attr)]
                        try:
                            v = repo.cls(mod, cn).lookup(f.attr)
                            if isinstance(v, FuncRef):
                                return [v]
                        except KeyError:
                            pass
            # <loop var over class list>.from_bytes : resolved by name over all classes of the module
            if isinstance(base, ast.Name):
                env = repo.module(func.mod) or {}
                v = env.get(base.id)
                if isinstance(v, ClassRef):
                    try:
                        m = v.lookup(f.attr)
                        if isinstance(m, FuncRef):
                            return [m]
                    except KeyError:
                        pass
        return []

    def _exc_name(self, e, func):
        if isinstance(e, ast.Call):
            e = e.func
        n = ast.unparse(e).split(".")[-1]
        env = self.repo.module(func.mod) or {}
        v = env.get(n)
        if isinstance(v, ClassRef):
            self.hier.learn(v)
        return ALIASES.get(n, n)

    def _handler_names(self, h, func):
        if h.type is None:
            return ["BaseException"]
        ts = h.type.elts if isinstance(h.type, ast.Tuple) else [h.type]
        out = []
        for t in ts:
            n = ast.unparse(t).split(".")[-1]
            env = self.repo.module(func.mod) or {}
            v = env.get(n)
            if isinstance(v, ClassRef):
                self.hier.learn(v)
            out.append(ALIASES.get(n, n))
        return out

    def _catches(self, names, exc):
        if exc == "<reraise>":
            return False
        return any(self.hier.is_sub(exc, n) for n in names)


def _walk_expr(e):
    stack = [e]
    while stack:
        n = stack.pop()
        yield n
        if isinstance(n, ast.Lambda):
            continue
        stack.extend(ast.iter_child_nodes(n))


def enclosing_try(func_node, target):
    """List of (Try node, part) enclosing ``target`` inside ``func_node``; part in body/handler/orelse/finalbody."""
    path = []

    def rec(node, acc):
        if node is target:
            path.extend(acc)
            return True
        if isinstance(node, ast.Try):
            for part in ("body", "orelse", "finalbody"):
                for ch in getattr(node, part):
                    if rec(ch, acc + [(node, part)]):
                        return True
            for h in node.handlers:
                for ch in h.body:
                    if rec(ch, acc + [(node, "handler")]):
                        return True
                if h.type is not None and rec(h.type, acc):
                    return True
            return False
        for ch in ast.iter_child_nodes(node):
            if rec(ch, acc):
                return True
        return False

    rec(func_node, [])
    return path


def handler_contains_all(try_node, hier=None):
    """True if some handler of ``try_node`` catches Exception (or more) and contains no raise statement."""
    for h in try_node.handlers:
        names = ["BaseException"] if h.type is None else [
            ast.unparse(t).split(".")[-1] for t in (h.type.elts if isinstance(h.type, ast.Tuple) else [h.type])]
        if any(n in ("Exception", "BaseException") for n in names):
            has_raise = any(isinstance(n, ast.Raise) for b in h.body for n in ast.walk(b))
            return not has_raise
    return False
