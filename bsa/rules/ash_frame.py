"""ASH frame layout (C03) and receive-callback robustness (C02)."""
from __future__ import annotations

import ast
import binascii

from ..core import rule
from ..errors import AnalysisError, FormNotRecognised
from ..idx import index
from ..px import OK, PX, RAISE, Outcomes
from ..pxv import Exc, Obj, Sym
from ..te import ClassRef, FuncRef, Member, TypeRef
from .ash_link import ASH, ash_cls, dispatch_classes, frame_obj, inline_ash, upward
from .util import anchor_attrs
from .util import const, fut, same_class, self_obj, text, who_may_call

# ------------------------------------------------------------------ specification (UG101), written independently
SPEC_RESERVED = {0x7E: "FLAG", 0x7D: "ESCAPE", 0x11: "XON", 0x13: "XOFF", 0x18: "SUBSTITUTE", 0x1A: "CANCEL"}
FLIP = 0x20


def spec_crc(data: bytes) -> int:
    crc = 0xFFFF
    for b in data:
        crc ^= b << 8
        for _ in range(8):
            crc = ((crc << 1) ^ 0x1021) & 0xFFFF if crc & 0x8000 else (crc << 1) & 0xFFFF
    return crc


def spec_lfsr(n):
    out, r = [], 0x42
    for _ in range(n):
        out.append(r)
        r = (r >> 1) ^ 0xB8 if r & 1 else r >> 1
    return bytes(out)


def spec_stuff(data):
    out = bytearray()
    for c in data:
        out += bytes([0x7D, c ^ FLIP]) if c in SPEC_RESERVED else bytes([c])
    return bytes(out)


def spec_with_crc(body):
    c = spec_crc(body)
    return body + bytes([c >> 8, c & 0xFF])


def spec_data(frm, retx, ack, payload):
    rnd = spec_lfsr(len(payload))
    return spec_with_crc(bytes([(frm << 4) | (retx << 3) | ack]) + bytes(a ^ b for a, b in zip(payload, rnd)))


def spec_class(cb):
    if cb & 0x80 == 0:
        return "DataFrame"
    if cb & 0xE0 == 0x80:
        return "AckFrame"
    if cb & 0xE0 == 0xA0:
        return "NakFrame"
    return {0xC0: "RstFrame", 0xC1: "RStackFrame", 0xC2: "ErrorFrame"}.get(cb)


def crc_model(px, t, a, k, fr):
    """binascii.crc_hqx is part of the trusted base; it is modelled by itself on concrete bytes."""
    d, init = a[0], a[1]
    if isinstance(d, (bytes, bytearray)) and isinstance(init, int):
        return binascii.crc_hqx(bytes(d), init)
    return Sym(f"crc_hqx({getattr(d, 'tag', d)!r}, {init!r})")


def concrete_px(ctx, **kw):
    return PX(ctx.repo, inline=lambda f, aw: not f.is_async, models=[("binascii.crc_hqx", crc_model)], max_depth=6, **kw)


def run1(ctx, px, qual, self_o, args):
    """Run a function on concrete arguments; exactly one path is expected."""
    f = ctx.repo.func(qual) if isinstance(qual, str) else qual
    paths = px.explore(f, lambda: (self_o() if callable(self_o) else self_o, dict(args)))
    if len(paths) != 1:
        raise AnalysisError(f"{f.qual}: expected a single path on concrete input, got {len(paths)}")
    need_concrete(paths[0], f.qual)
    return paths[0]


def need_concrete(p, what):
    """A finite-domain rule compares concrete results; an unevaluable result is an analysis error, never a verdict."""
    from ..px import _has_sym

    v = p.value
    if p.terminal == "return":
        vals = list(v.fields.values()) if isinstance(v, Obj) else [v]
        if any(isinstance(x, Sym) or _has_sym(x) for x in vals):
            raise AnalysisError(f"{what}: result is not evaluable on concrete input ({v!r:.120}); construct outside the modelled subset")


def as_bytes(v):
    if isinstance(v, (bytes, bytearray)):
        return bytes(v)
    return None


# =============================================================================== C03
@rule("R03.1", ["C03", "C02"], "T-TAB", floor=3)
def r03_1(ctx):
    """Reserved byte sets equal the specification: Reserved = {7E,7D,11,13,18,1A} with the specified names,
    RESERVED_BYTES = all six, RESERVED_WITHOUT_ESCAPE = all but 7D."""
    repo = ctx.repo
    ms = repo.cls(ASH, "Reserved").members()
    got = {m.value: n for n, m in ms.items()}
    ctx.require(got == SPEC_RESERVED, "Reserved", f"Reserved enum is {got}, specification says {SPEC_RESERVED}")
    rb = {int(x) for x in repo.get(ASH, "RESERVED_BYTES")}
    ctx.require(rb == set(SPEC_RESERVED), "RESERVED_BYTES", f"RESERVED_BYTES = {sorted(map(hex, rb))}")
    rw = {int(x) for x in repo.get(ASH, "RESERVED_WITHOUT_ESCAPE")}
    ctx.require(rw == set(SPEC_RESERVED) - {0x7D}, "RESERVED_WITHOUT_ESCAPE", f"RESERVED_WITHOUT_ESCAPE = {sorted(map(hex, rw))}")


INTERESTING = sorted(set(SPEC_RESERVED) | {c ^ FLIP for c in SPEC_RESERVED} | {0x00, 0xFF, 0x20, 0x7F})


@rule("R03.2", ["C03"], "T-FUN", floor=256)
def r03_2(ctx):
    """_stuff_bytes as a byte transducer: every byte c maps to [7D, c^20] if reserved else [c]; the map is a
    homomorphism on pairs of interesting bytes (no cross-byte state); no emitted byte other than 7D is reserved."""
    px = concrete_px(ctx)
    q = f"{ASH}:AshProtocol._stuff_bytes"
    ctx.fn(q)
    for c in range(256):
        p = run1(ctx, px, q, None, {"data": bytes([c])})
        got, want = as_bytes(p.value), spec_stuff(bytes([c]))
        ok = p.terminal == "return" and got == want and all(b == 0x7D or b not in SPEC_RESERVED for b in (got or b""))
        ctx.require(ok, f"stuff({c:02x})", f"_stuff_bytes([{c:02X}]) = {got.hex() if got is not None else p.value!r}, "
                    f"specification gives {want.hex()}", func=ctx.repo.func(q))
    pairs = [(a, b) for a in INTERESTING for b in INTERESTING]
    if ctx.run.tier == "thorough":
        pairs = [(a, b) for a in range(256) for b in range(256)]
    for a, b in pairs:
        p = run1(ctx, px, q, None, {"data": bytes([a, b])})
        ctx.case(1)
        if as_bytes(p.value) != spec_stuff(bytes([a, b])):
            ctx.violation(f"stuff-pair", f"_stuff_bytes([{a:02X},{b:02X}]) = {p.value!r}", func=ctx.repo.func(q))
    ctx.sample({"stuff(7e 11 41)": run1(ctx, px, q, None, {"data": bytes([0x7E, 0x11, 0x41])}).value.hex()})


@rule("R03.3", ["C03", "C02", "C04"], "T-FUN", floor=512)
def r03_3(ctx):
    """_unstuff_bytes as a two-state transducer: in the normal state 7D enters the escaped state and any other
    byte is copied; in the escaped state c yields c^20 if that is a reserved value and a ParsingError otherwise
    (so 7D 7D, 7D 5C ... are rejected); unstuff(stuff(x)) = x on all single bytes and interesting pairs."""
    px = concrete_px(ctx)
    q = f"{ASH}:AshProtocol._unstuff_bytes"
    f = ctx.repo.func(q)
    ctx.fn(q)
    for c in range(256):
        p = run1(ctx, px, q, None, {"data": bytes([c])})
        want = b"" if c == 0x7D else bytes([c])
        ctx.require(p.terminal == "return" and as_bytes(p.value) == want, f"unstuff({c:02x})",
                    f"_unstuff_bytes([{c:02X}]) -> {p.value!r}, expected {want.hex()!r}", func=f)
    for c in range(256):
        p = run1(ctx, px, q, None, {"data": bytes([0x7D, c])})
        if (c ^ FLIP) in SPEC_RESERVED:
            ok = p.terminal == "return" and as_bytes(p.value) == bytes([c ^ FLIP])
        else:
            ok = p.raised("ParsingError")
        ctx.require(ok, f"unstuff(7d {c:02x})", f"_unstuff_bytes([7D,{c:02X}]) -> {p.terminal} {p.value!r}; the escaped value "
                    f"{c ^ FLIP:02X} is {'reserved' if (c ^ FLIP) in SPEC_RESERVED else 'not reserved (must be rejected)'}", func=f)
    # escape state does not leak: 7D x y and x 7D y
    for a in INTERESTING:
        for b in INTERESTING:
            for seq in (bytes([0x7D, a ^ FLIP if a in SPEC_RESERVED else 0x5E, b]), bytes([a, b])):
                ctx.case(1)
                p = run1(ctx, px, q, None, {"data": seq})
                want = _spec_unstuff(seq)
                got = as_bytes(p.value) if p.terminal == "return" else "ParsingError" if p.raised("ParsingError") else repr(p.value)
                if got != want:
                    ctx.violation("unstuff-seq", f"_unstuff_bytes({seq.hex()}) -> {got!r}, specification gives {want!r}", func=f)
    sq = f"{ASH}:AshProtocol._stuff_bytes"
    singles = [bytes([c]) for c in range(256)] + [bytes([a, b]) for a in INTERESTING for b in INTERESTING]
    for x in singles:
        ctx.case(1)
        s = run1(ctx, px, sq, None, {"data": x}).value
        p = run1(ctx, px, q, None, {"data": bytes(s)})
        if not (p.terminal == "return" and as_bytes(p.value) == x):
            ctx.violation("roundtrip", f"unstuff(stuff({x.hex()})) = {p.value!r}", func=f)


def _spec_unstuff(seq):
    out, esc = bytearray(), False
    for c in seq:
        if esc:
            if (c ^ FLIP) not in SPEC_RESERVED:
                return "ParsingError"
            out.append(c ^ FLIP)
            esc = False
        elif c == 0x7D:
            esc = True
        else:
            out.append(c)
    return bytes(out)


@rule("R03.4", ["C03", "C02", "C04"], "T-FUN", floor=256)
def r03_4(ctx):
    """Frame-type classification: for each of the 256 control bytes parse_frame hands the bytes to the
    from_bytes of exactly the specified class (0xxxxxxx DATA, 100xxxxx ACK, 101xxxxx NAK, C0 RST, C1 RSTACK,
    C2 ERROR) and raises ParsingError for every other value."""
    repo = ctx.repo
    f = repo.func(f"{ASH}:parse_frame")
    ctx.fn(f)
    px = PX(repo, inline=lambda fr, aw: False)
    for cb in range(256):
        paths = px.explore(f, lambda: (None, {"data": bytes([cb, 0x00, 0x00])}))
        want = spec_class(cb)
        for p in paths:
            calls = [e.callee for e in p.events if e.kind == "call" and e.what.endswith(".from_bytes")]
            if want is None:
                ok = p.raised("ParsingError") and not calls
            else:
                ok = p.terminal == "return" and calls == [f"{want}.from_bytes"] and p.events[-1].args[:1] == (bytes([cb, 0, 0]),)
            ctx.require(ok, f"classify({cb:02x})", f"control byte {cb:02X}: parse_frame -> {calls or p.value!r}, specification: "
                        f"{want or 'ParsingError'}", func=f)


def _cls_method(ctx, cname, mname):
    c = ctx.repo.cls(ASH, cname)
    try:
        v = c.lookup(mname)
    except KeyError:
        raise AnalysisError(f"anchor vanished: {cname}.{mname}")
    if not isinstance(v, FuncRef):
        raise AnalysisError(f"{cname}.{mname} does not resolve to a function: {v!r}")
    return c, v


def encode(ctx, px, cname, fields):
    c, m = _cls_method(ctx, cname, "to_bytes")
    o = Obj(c, dict(fields), tag="self")
    paths = px.explore(m, lambda: (Obj(c, dict(fields), tag="self"), {}))
    if len(paths) != 1:
        raise AnalysisError(f"{cname}.to_bytes: {len(paths)} paths on concrete fields")
    need_concrete(paths[0], f"{cname}.to_bytes")
    return paths[0]


def decode(ctx, px, data):
    f = ctx.repo.func(f"{ASH}:parse_frame")
    paths = px.explore(f, lambda: (None, {"data": data}))
    if len(paths) != 1:
        raise AnalysisError(f"parse_frame: {len(paths)} paths on concrete bytes")
    need_concrete(paths[0], "parse_frame")
    return paths[0]


PAYLOADS_QUICK = [b"", b"\x00", b"\x7e", b"\x42", bytes(SPEC_RESERVED) * 2, bytes(range(3)), bytes(127), bytes(range(128)),
                  bytes(range(129)), bytes([0x11] * 200)]


@rule("R03.5", ["C03", "C01", "C04", "C02"], "T-FUN", floor=400)
def r03_5(ctx):
    """Control-byte packing and its inverse, per class, against an independently written encoder: DATA for all
    8x2x8 field values and payload lengths up to 200 (randomised with the LFSR sequence, CRC-CCITT seed FFFF
    big-endian appended); ACK/NAK for all 2x2x8; RST; RSTACK/ERROR for every reset code with version 2; parsing
    returns exactly the encoded fields, rejects wrong lengths and versions."""
    px = concrete_px(ctx)
    for cn in dispatch_classes(ctx):
        ctx.fn(f"{ASH}:{cn}.to_bytes")
    payloads = PAYLOADS_QUICK if ctx.run.tier != "thorough" else [bytes((i * 7 + L) & 0xFF for i in range(L)) for L in range(201)] + PAYLOADS_QUICK
    # DATA
    n = 0
    for frm in range(8):
        for retx in (0, 1):
            for ack in range(8):
                pls = payloads if (frm, retx, ack) in ((2, 1, 7), (0, 0, 0), (7, 1, 7)) else [b"", b"\x7d\x00"]
                for pl in pls:
                    p = encode(ctx, px, "DataFrame", {"frm_num": frm, "re_tx": retx, "ack_num": ack, "ezsp_frame": pl})
                    want = spec_data(frm, retx, ack, pl)
                    key = f"DATA({frm},{retx},{ack},len={len(pl)})"
                    if not ctx.require(p.terminal == "return" and as_bytes(p.value) == want, key,
                                       f"{key}.to_bytes() = {p.value!r}, specification gives {want.hex()}",
                                       func=ctx.repo.func(f"{ASH}:DataFrame.to_bytes")):
                        continue
                    d = decode(ctx, px, want)
                    o = d.value
                    ok = (d.terminal == "return" and isinstance(o, Obj) and o.cls_name == "DataFrame"
                          and (o.fields.get("frm_num"), int(o.fields.get("re_tx")), o.fields.get("ack_num")) == (frm, retx, ack)
                          and as_bytes(o.fields.get("ezsp_frame")) == pl)
                    ctx.require(ok, "parse:" + key, f"parse_frame({want.hex()}) = {o!r}, expected {key}",
                                func=ctx.repo.func(f"{ASH}:DataFrame.from_bytes"))
                    n += 1
    # ACK / NAK
    for cn, base in (("AckFrame", 0x80), ("NakFrame", 0xA0)):
        for res in (0, 1):
            for nrdy in (0, 1):
                for ack in range(8):
                    want = spec_with_crc(bytes([base | res << 4 | nrdy << 3 | ack]))
                    p = encode(ctx, px, cn, {"res": res, "ncp_ready": nrdy, "ack_num": ack})
                    key = f"{cn}({res},{nrdy},{ack})"
                    ctx.require(p.terminal == "return" and as_bytes(p.value) == want, key,
                                f"{key}.to_bytes() = {p.value!r}, specification gives {want.hex()}",
                                func=_cls_method(ctx, cn, "to_bytes")[1])
                    d = decode(ctx, px, want)
                    o = d.value
                    ok = (d.terminal == "return" and isinstance(o, Obj) and o.cls_name == cn and
                          (int(o.fields.get("res")), int(o.fields.get("ncp_ready")), o.fields.get("ack_num")) == (res, nrdy, ack))
                    ctx.require(ok, "parse:" + key, f"parse_frame({want.hex()}) = {o!r}", func=_cls_method(ctx, cn, "from_bytes")[1])
    # RST
    want = spec_with_crc(b"\xC0")
    p = encode(ctx, px, "RstFrame", {})
    ctx.require(as_bytes(p.value) == want, "RST", f"RstFrame().to_bytes() = {p.value!r}, specification {want.hex()}")
    d = decode(ctx, px, want)
    ctx.require(d.terminal == "return" and isinstance(d.value, Obj) and d.value.cls_name == "RstFrame", "parse:RST", f"parse RST -> {d.value!r}")
    d = decode(ctx, px, spec_with_crc(b"\xC0\x00"))
    ctx.require(d.raised("ParsingError"), "parse:RST+data", f"RST with a data field is accepted: {d.value!r}")
    # RSTACK / ERROR
    for cn, cb in (("RStackFrame", 0xC1), ("ErrorFrame", 0xC2)):
        for code in range(256):
            want = spec_with_crc(bytes([cb, 0x02, code]))
            d = decode(ctx, px, want)
            o = d.value
            ok = (d.terminal == "return" and isinstance(o, Obj) and o.cls_name == cn and o.fields.get("version") == 2
                  and int(getattr(o.fields.get("reset_code"), "value", -1)) == code)
            ctx.require(ok, f"parse:{cn}({code})", f"parse_frame({want.hex()}) = {d.terminal} {o!r}", func=_cls_method(ctx, cn, "from_bytes")[1])
            if code in (0x00, 0x02, 0x0B, 0x51, 0xFF):
                p = encode(ctx, px, cn, {"version": 2, "reset_code": o.fields.get("reset_code") if ok else code})
                ctx.require(as_bytes(p.value) == want, f"{cn}({code})", f"{cn}.to_bytes() = {p.value!r}, specification {want.hex()}")
        for body in (bytes([cb, 0x02]), bytes([cb, 0x02, 0x0B, 0x00]), bytes([cb, 0x01, 0x0B]), bytes([cb, 0x03, 0x0B]), bytes([cb])):
            d = decode(ctx, px, spec_with_crc(body))
            ctx.require(d.raised("ParsingError"), f"parse:{cn}:bad:{body.hex()}", f"malformed {cn} body {body.hex()} -> {d.terminal} {d.value!r}")
    ctx.sample({"DATA(2,1,7,'')": spec_data(2, 1, 7, b"").hex(), "cases": n})


@rule("R03.6", ["C03", "C02", "C04"], "T-GATE", floor=8)
def r03_6(ctx):
    """CRC, evaluated on concrete frames against an independently written bit-serial CRC-CCITT: append_crc(x) = x ++ BE16(crc(x),
    seed 0xFFFF); _unwrap returns (data[0], data[1:-2]) for frames with a correct CRC (bytes and bytearray alike), raises
    ParsingError for lengths 0..2 and for *every* single-bit and (short frames) double-bit corruption of a valid frame - in the
    control byte, the data field or either CRC byte; every from_bytes of the dispatch list obtains its fields through _unwrap."""
    repo = ctx.repo
    cpx = concrete_px(ctx)
    # append_crc against the independently written CRC (bit-serial CRC-CCITT, seed 0xFFFF, big-endian)
    f = repo.func(f"{ASH}:AshFrame.append_crc")
    ctx.fn(f)
    for x in (b"", b"\x00", b"\xc0", b"\x7e\x7d\x11\x13\x18\x1a", bytes(range(200)), b"\xff" * 131):
        p = run1(ctx, cpx, f, None, {"data": x})
        got = as_bytes(p.value) if p.terminal == "return" else None
        ctx.require(got == spec_with_crc(x), "append_crc", f"append_crc({x.hex()[:24]}{'...' if len(x) > 12 else ''}) = {got.hex()[-12:] if got else p.value!r}; must be the data followed "
                    f"by the big-endian CRC-CCITT (seed 0xFFFF) {spec_with_crc(x)[-2:].hex()}", func=f, trace=p.trace())
    # _unwrap: evaluated on concrete frames (whatever way the comparison is written)
    f = repo.func(f"{ASH}:AshFrame._unwrap")
    ctx.fn(f)
    af = lambda: repo.cls(ASH, "AshFrame")
    for d in (b"", b"\x80", b"\x80\x70"):
        p = run1(ctx, cpx, f, af, {"data": d})
        ctx.require(p.raised("ParsingError"), f"unwrap-short({len(d)})", f"_unwrap of {len(d)} bytes -> {p.terminal} {p.value!r}", func=f)
    bodies = (b"\x83", b"\xc1\x02\x0b", b"\x25\x42\x21\xa8\x56", bytes(range(40, 70))) + ((b"\x53\x00\x7e\x7d\x11\xff\x01",) if ctx.run.tier == "thorough" else ())
    n_flip = 0
    for body in bodies:
        good = spec_with_crc(body)
        for carrier in (bytes, bytearray):
            p = run1(ctx, cpx, f, af, {"data": carrier(good)})
            v = p.value if p.terminal == "return" else None
            ok = isinstance(v, tuple) and len(v) == 2 and v[0] == body[0] and as_bytes(v[1]) == body[1:]
            ctx.require(ok, "unwrap-return", f"_unwrap({good.hex()}) {p.terminal}s {p.value!r}; a frame with a correct CRC must yield (control byte {body[0]:#04x}, "
                        f"data field {body[1:].hex() or 'empty'})", func=f, trace=p.trace())
        # every single-bit error, and (for the short bodies) every double-bit error, is detected: CRC-CCITT guarantees both
        nbits = len(good) * 8
        flips = [(i,) for i in range(nbits)] + ([(i, j) for i in range(nbits) for j in range(i + 1, nbits)] if len(good) <= (9 if ctx.run.tier == "thorough" else 5) else [])
        for fl in flips:
            bad_frame = bytearray(good)
            for bit in fl:
                bad_frame[bit // 8] ^= 1 << (bit % 8)
            p = run1(ctx, cpx, f, af, {"data": bytes(bad_frame)})
            n_flip += 1
            if not p.raised("ParsingError"):
                ctx.violation("unwrap-gate", f"_unwrap accepts {bytes(bad_frame).hex()}, which differs from the valid frame {good.hex()} in bit(s) {list(fl)}: {p.terminal} {p.value!r} "
                              "(the whole 2-byte CRC of data[:-2] must equal data[-2:])", func=f, trace=p.trace())
        ctx.ok(1, ("bit-errors", len(good)))
    ctx.case(n_flip)
    # every from_bytes goes through _unwrap before building its instance
    for cn in dispatch_classes(ctx):
        c, m = _cls_method(ctx, cn, "from_bytes")
        px = PX(repo, inline=same_class(stop=("_unwrap",)))
        for p in px.explore(m, lambda: (c, {"data": Sym("D")})):
            i = p.index(lambda e: e.kind == "call" and e.what.endswith("._unwrap"))
            j = p.index(lambda e: e.kind == "new")
            ok = i >= 0 and p.events[i].args[:1] == (Sym("D"),) and (j < 0 or i < j)
            if p.terminal == "return":
                ctx.require(ok, f"from_bytes:{cn}", f"{cn}.from_bytes builds a frame without first validating it through _unwrap",
                            func=m, trace=p.trace())


@rule("R03.7", ["C03", "C01", "C04", "C02"], "T-FUN", floor=4)
def r03_7(ctx):
    """Randomisation: PSEUDO_RANDOM_DATA_SEQUENCE is the LFSR sequence seed 0x42 / tap 0xB8 of length >= 256 (>=
    the asserted payload bound); _randomize XORs position-wise from index 0 and is an involution."""
    px = concrete_px(ctx)
    seq = px.module_value(ASH, "PSEUDO_RANDOM_DATA_SEQUENCE")
    b = as_bytes(seq)
    ctx.require(b is not None and len(b) >= 256 and b == spec_lfsr(len(b)), "sequence",
                f"PSEUDO_RANDOM_DATA_SEQUENCE = {seq!r:.80} does not equal the specified LFSR sequence of length >= 256")
    q = f"{ASH}:generate_random_sequence"
    for n in (0, 1, 5, 256):
        p = run1(ctx, px, q, None, {"length": n})
        ctx.require(as_bytes(p.value) == spec_lfsr(n), f"lfsr({n})", f"generate_random_sequence({n}) = {p.value!r:.60}")
    c, m = _cls_method(ctx, "DataFrame", "_randomize")
    for data in (b"", b"\x00" * 256, bytes(range(200)), b"\xff" * 129):
        p = run1(ctx, px, m, None, {"data": data})
        want = bytes(a ^ b for a, b in zip(data, spec_lfsr(len(data))))
        ctx.require(p.terminal == "return" and as_bytes(p.value) == want, f"randomize(len={len(data)})",
                    f"_randomize of {len(data)} bytes differs from position-wise XOR with the sequence", func=m)


def transport_model():
    return [("*.is_closing", lambda px, t, a, k, fr: False)]


@rule("R03.8", ["C03", "C11", "C01", "C04"], "T-FUN", floor=100)
def r03_8(ctx):
    """_write_frame emits bytes(prefix) ++ STUFF(frame.to_bytes()) ++ FLAG: stuffing covers control byte, payload
    and CRC (checked for every ACK/NAK, every DATA header with reserved-rich payloads); send_reset emits
    CANCEL + stuffed RST + FLAG."""
    anchor_attrs(ctx, "AshProtocol", "_transport")
    repo = ctx.repo
    cls = ash_cls(ctx)
    px = PX(repo, inline=lambda f, aw: not f.is_async, models=[("binascii.crc_hqx", crc_model)] + transport_model(), max_depth=6)
    f = repo.func(f"{ASH}:AshProtocol._write_frame")
    ctx.fn(f)

    def written(p):
        w = [e for e in p.events if e.kind == "call" and e.what.endswith("_transport.write")]
        return [as_bytes(e.args[0]) for e in w]

    def check(cn, fields, raw, prefix=()):
        c = repo.cls(ASH, cn)
        kw = {"frame": Obj(c, dict(fields), tag="frame")}
        paths = px.explore(f, lambda: (self_obj(cls, {"_transport": Obj(TypeRef("Transport"), {}, tag="self._transport")}),
                                       {"frame": Obj(c, dict(fields), tag="frame"), **({"prefix": prefix} if prefix else {})}))
        for p in paths:
            want = bytes(int(x) for x in prefix) + spec_stuff(raw) + b"\x7e"
            got = written(p)
            ctx.require(p.terminal == "return" and got == [want], f"write:{cn}:{raw.hex()[:12]}",
                        f"_write_frame({cn} {raw.hex()}) writes {[g.hex() if g else g for g in got]}, must write {want.hex()}",
                        func=f, trace=p.trace(20))

    for cn, base in (("AckFrame", 0x80), ("NakFrame", 0xA0)):
        for res in (0, 1):
            for nrdy in (0, 1):
                for ack in range(8):
                    check(cn, {"res": res, "ncp_ready": nrdy, "ack_num": ack}, spec_with_crc(bytes([base | res << 4 | nrdy << 3 | ack])))
    for frm in range(8):
        for retx in (0, 1):
            for ack in range(8):
                for pl in (b"", bytes(SPEC_RESERVED)):
                    check("DataFrame", {"frm_num": frm, "re_tx": retx, "ack_num": ack, "ezsp_frame": pl}, spec_data(frm, retx, ack, pl))
    # payloads whose randomised form hits each reserved value at position 0
    for r in SPEC_RESERVED:
        check("DataFrame", {"frm_num": 1, "re_tx": 0, "ack_num": 1, "ezsp_frame": bytes([r ^ 0x42])}, spec_data(1, 0, 1, bytes([r ^ 0x42])))
    can = repo.cls(ASH, "Reserved").members()["CANCEL"]
    check("RstFrame", {}, spec_with_crc(b"\xC0"), prefix=(can,))
    # histories on ONE protocol object: every write is a function of its own frame only - frames that differ in a single
    # field (nRdy, reserved bit, class) written one after the other, and a write that follows a write the transport refused
    seq = [("AckFrame", {"res": 0, "ncp_ready": 0, "ack_num": 3}, 0x83), ("AckFrame", {"res": 0, "ncp_ready": 1, "ack_num": 3}, 0x8B),
           ("NakFrame", {"res": 0, "ncp_ready": 0, "ack_num": 3}, 0xA3), ("AckFrame", {"res": 1, "ncp_ready": 0, "ack_num": 3}, 0x93),
           ("AckFrame", {"res": 0, "ncp_ready": 0, "ack_num": 3}, 0x83), ("NakFrame", {"res": 0, "ncp_ready": 0, "ack_num": 0}, 0xA0)]
    for fail_at in (None, 1):
        state = {"n": 0}

        def tw(px_, t, a, k, fr):
            state["n"] += 1
            return Outcomes(RAISE("OSError")) if fail_at is not None and state["n"] == fail_at + 1 else Outcomes(OK(None))

        pxs = PX(repo, inline=lambda g, aw: not g.is_async, max_depth=6,
                 models=[("binascii.crc_hqx", crc_model), ("self._transport.write", tw), ("*.is_closing", lambda px_, t, a, k, fr: False)])

        def entry():
            state["n"] = 0
            me = self_obj(cls, {"_transport": Obj(TypeRef("Transport"), {}, tag="self._transport")})
            pxs.top_frame = None
            for cn, fields, cb in seq:
                try:
                    pxs.call_function(f, me, [Obj(repo.cls(ASH, cn), dict(fields), tag="frame")], {}, None)
                except Exc as ex:
                    if ex.cls_name != "OSError":
                        raise
            return None

        for p in pxs._run(entry):
            got = [as_bytes(e.args[0]) if e.args else None for e in p.events if e.kind == "call" and e.what.endswith("_transport.write")]
            want = [spec_stuff(spec_with_crc(bytes([cb]))) + b"\x7e" for _, _, cb in seq]
            ctx.require(p.terminal == "return" and got == want, f"write-sequence:{'refused-write' if fail_at is not None else 'plain'}",
                        f"a sequence of {len(seq)} ACK/NAK writes on one protocol object{' (the transport refuses write #2)' if fail_at is not None else ''} puts "
                        f"{[g.hex() if g else g for g in got]} on the wire, must be {[w.hex() for w in want]} (each write depends on its own frame only)",
                        func=f, trace=p.trace(30))
    sr = repo.func(f"{ASH}:AshProtocol.send_reset")
    ctx.fn(sr)
    for p in px.explore(sr, lambda: (self_obj(cls, {"_transport": Obj(TypeRef("Transport"), {}, tag="self._transport")}), {})):
        want = b"\x1a" + spec_stuff(spec_with_crc(b"\xC0")) + b"\x7e"
        ctx.require(written(p) == [want], "send_reset", f"send_reset writes {[g.hex() if g else g for g in written(p)]}, must write {want.hex()}",
                    func=sr, trace=p.trace(20))
    ctx.sample({"send_reset": (b"\x1a" + spec_stuff(spec_with_crc(b"\xC0")) + b"\x7e").hex()})


# =============================================================================== C02
RECV = f"{ASH}:AshProtocol.data_received"


def _dead_else_raises(ctx):
    """T-EXH by exploration: `raise` statements written directly in frame_received / data_received that no path reaches
    when the function is explored over its whole input domain - frame_received over exactly the classes of parse_frame's
    dispatch list, data_received over {each member of RESERVED_WITHOUT_ESCAPE, no reserved byte} x {discarding, not} with
    every parse outcome - are dead (the `else: raise` of an exhaustive dispatch).  Returns those Raise nodes."""
    repo = ctx.repo
    cls = ash_cls(ctx)
    dead = []
    # frame_received
    fr = repo.func(f"{ASH}:AshProtocol.frame_received")
    px = PX(repo, inline=lambda g, aw: False)
    reached = set()
    for cn in dispatch_classes(ctx):
        for p in px.explore(fr, lambda: (self_obj(cls, {}), {"frame": frame_obj(ctx, cn)})):
            reached |= {e.line for e in p.events if e.kind == "raise" and e.func == fr.short}
    from .util import walk_no_nested

    dead += [n for n in walk_no_nested(fr.node) if isinstance(n, ast.Raise) and n.lineno not in reached]
    # data_received and the same-class helpers it is split into: explored concretely over streams that contain every
    # reserved byte, in both modes - the dispatch on the reserved byte has no other input, so a raise none of them reaches
    # (the `else: raise` of the exhaustive dispatch) is dead, whatever form the scanner has
    dr = repo.func(RECV)
    reached, funcs = set(), {dr.qual: dr}
    pxc = PX(repo, inline=lambda g, aw: not g.is_async, max_depth=8, max_paths=8,
             models=[("binascii.crc_hqx", crc_model), ("self.frame_received", Outcomes(OK(None))), ("self._write_frame", Outcomes(OK(None)))])
    for name, stream in _streams(ctx).items():
        for disc in (False, True):
            for p in pxc.explore(dr, lambda: (self_obj(cls, {"_buffer": bytearray(), "_discarding_until_next_flag": disc, "_rx_seq": 3}), {"data": bytes(stream)})):
                reached |= {(e.func, e.line) for e in p.events if e.kind == "raise"}
    for q in pxc.visited:
        funcs.setdefault(q, None)
    for q in list(funcs):
        try:
            g = funcs[q] or repo.func(q)
        except Exception:
            continue
        if g.cls is None or g.cls.name != "AshProtocol" or g.name in ("frame_received", "_write_frame"):
            continue
        dead += [n for n in walk_no_nested(g.node) if isinstance(n, ast.Raise) and (g.short, n.lineno) not in reached]
    return dead


@rule("R02.1", ["C02"], "T-ESC", floor=3)
def r02_1(ctx):
    """Nothing escapes AshProtocol.data_received: (a) the parsing calls (_unstuff_bytes, parse_frame) lie in a try
    whose handler catches Exception, does not re-raise, and whose own body cannot raise; (b) the explicit-raise
    escape set of data_received over the resolved call graph (through frame_received, its handlers, the gateway and
    the EZSP layer), with exhaustive-dispatch `else: raise` branches proved dead, is empty."""
    from ..esc import Escapes, enclosing_try, handler_contains_all

    repo = ctx.repo
    f = repo.func(RECV)
    ctx.fn(f)
    # (a) the parsing calls, in data_received or in the same-class helpers it is split into
    reach, work = {}, [f]
    while work:
        g = work.pop()
        if g.qual in reach:
            continue
        reach[g.qual] = g
        for n in ast.walk(g.node):
            if isinstance(n, ast.Call) and isinstance(n.func, ast.Attribute) and text(n.func.value) == "self" and n.func.attr not in ("frame_received", "_write_frame"):
                try:
                    h = f.cls.method(n.func.attr)
                except KeyError:
                    continue
                work.append(h)
    sites = [(g, n) for g in reach.values() for n in ast.walk(g.node) if isinstance(n, ast.Call) and text(n.func) in ("self._unstuff_bytes", "parse_frame")
             and g.name not in ("_unstuff_bytes",)]
    ctx.anchor(len(sites) >= 2, "data_received (or its helpers) calls _unstuff_bytes and parse_frame")
    esc = Escapes(repo, dead=_dead_else_raises(ctx))

    def protected(g, node, depth=0):
        """The call is inside a try (in its own function) whose handler catches Exception without re-raising, or every call
        of its function from the receive path is."""
        encl_ = [(t, part) for t, part in enclosing_try(g.node, node) if part == "body"]
        if any(handler_contains_all(t) for t, _ in encl_):
            return True, encl_
        if g.qual == f.qual or depth > 4:
            return False, encl_
        callers = [(h, n) for h in reach.values() for n in ast.walk(h.node)
                   if isinstance(n, ast.Call) and isinstance(n.func, ast.Attribute) and text(n.func.value) == "self" and n.func.attr == g.name]
        if not callers:
            return False, encl_
        res = [protected(h, n, depth + 1) for h, n in callers]
        return all(r[0] for r in res), [e for r in res for e in r[1]]

    for g, s_ in sites:
        ctx.call_sites += 1
        ok, encl = protected(g, s_)
        ctx.require(ok, f"parse-site:{text(s_.func)}", f"{text(s_.func)}(...) at line {s_.lineno} of {g.short} is not inside a try whose handler "
                    "catches Exception without re-raising: arbitrary bytes can raise out of the receive callback", func=g, node=s_)
        for t, _ in encl:
            for h in t.handlers:
                hb = esc._block(h.body, g, (g.qual,))
                for name, chain in sorted(hb):
                    ctx.violation(f"handler-escape:{name}", f"the parse-failure handler itself can raise {name} via {' > '.join(chain)}",
                                  func=g, node=h)
    # (b)
    out = esc.of(f)
    ctx.ok(1, "escape-set-computed")
    seen = set()
    for name, chain in sorted(out):
        # keyed by the entry point, the function that raises and its immediate caller (helpers extracted in between do not
        # make it a different finding)
        names_ = [c.split('.')[-1] for c in chain]
        # a raise that was moved into a helper extracted since (``_check_transport_open`` out of ``_write_frame``) is still the finding
        # of the pinned function it was extracted from
        while len(names_) > 2 and names_[-1] not in _pinned_function_names() and any(n_ in _pinned_function_names() for n_ in names_[1:-1]):
            names_.pop()
        if len(names_) > 3:
            # the "immediate caller" is the nearest function on the way that the pinned tree already had: a helper extracted since
            # between a handler and the raising function is not a new place for the finding
            via = next((n_ for n_ in reversed(names_[1:-1]) if n_ in _pinned_function_names()), names_[-2])
            names_ = [names_[0], "..", via, names_[-1]]
        key = f"escape:{name}:{'>'.join(names_)}"
        if key in seen:
            continue
        seen.add(key)
        ctx.violation(key, f"{name} can escape the receive callback via {' > '.join(chain)}", func=f, construct=key)
    ctx.sample({"escape_set": sorted({(n, ">".join(c)) for n, c in out}), "functions_followed": sorted(esc.memo)})
    for q in esc.memo:
        ctx.fn(q)


_PINNED_NAMES = []


def _pinned_function_names():
    """Names of the functions and methods the pinned tree defines (frozen facts, used only to key findings)."""
    if not _PINNED_NAMES:
        import json
        import os

        with open(os.path.join(os.path.dirname(os.path.dirname(__file__)), "pinned_shapes.json")) as fh:
            shapes = json.load(fh)
        names = set()
        for v in shapes.values():
            names |= set(v.get("methods", {}))
        _PINNED_NAMES.append(names)
    return _PINNED_NAMES[0]


def _scan_models(ctx):
    R = ctx.repo.cls(ASH, "Reserved").members()
    rwe = [m for m in R.values() if m.value in {int(x) for x in ctx.repo.get(ASH, "RESERVED_WITHOUT_ESCAPE")}]

    def part(px, t, a, k, fr):
        found = OK((Sym("P.before"), b"\x7e", Sym("P.after")))
        missing = OK((Sym("B"), b"", b""))
        known = px.memo.get("(b'~' in B)")
        if known is True:
            return Outcomes(found)
        if known is False:
            return Outcomes(missing)
        return Outcomes(found, missing)

    def scan_next(px, t, a, k, fr):
        # the scanner's search for the first reserved byte: one outcome per reserved value, or nothing found - which is
        # StopIteration for next(it) and the default for next(it, default)
        nothing = OK(a[1]) if len(a) > 1 else RAISE("StopIteration")
        return Outcomes(*[OK((Sym("i"), m)) for m in rwe], nothing)

    return [("next", scan_next),
            ("*.partition", part),
            ("*.index", lambda px, t, a, k, fr: Outcomes(OK(Sym("flagpos")), RAISE("ValueError"))),
            ("*.find", lambda px, t, a, k, fr: Outcomes(OK(Sym("flagpos")), OK(-1))),
            ("self._unstuff_bytes", Outcomes(OK(Sym("unstuffed")), RAISE("ParsingError"))),
            ("parse_frame", Outcomes(OK(Sym("frame")), RAISE("ParsingError"), RAISE("IndexError"), RAISE("AssertionError"))),
            ("self.frame_received", Outcomes(OK(None), RAISE("UpperLayerError"))),
            ("self._write_frame", Outcomes(OK(None), RAISE("NcpFailure")))], rwe


@rule("R02.2", ["C02", "C04"], "T-FUN", floor=20, fallback=("R02.5", "R02.6"))
def r02_2(ctx):
    """One scanner iteration, per first reserved byte, over an abstract buffer B = A ++ r ++ rest (i = len(A)):
    FLAG -> frame A is unstuffed then parsed then delivered, rest kept, empty A ignored; any unstuff/parse failure
    -> exactly one CANCEL-prefixed NAK carrying the expected number, nothing delivered, nothing raised (even when
    the write fails); CANCEL -> rest kept, A dropped, no frame; SUBSTITUTE -> same and discard-until-flag set;
    XON/XOFF -> only that byte removed; no reserved byte -> buffer untouched. In discarding mode: no FLAG ->
    buffer cleared, mode kept, nothing scanned; FLAG -> mode cleared and only the part after the first FLAG kept.
    Upward delivery happens only with the frame returned by parse_frame on the unstuffed bytes."""
    anchor_attrs(ctx, "AshProtocol", "_buffer", "_discarding_until_next_flag", "_rx_seq")
    repo = ctx.repo
    f = repo.func(RECV)
    ctx.fn(f)
    cls = ash_cls(ctx)
    models, rwe = _scan_models(ctx)
    MAX = const(ctx, ASH, "MAX_BUFFER_SIZE", int)
    names = {m.value: n for n, m in repo.cls(ASH, "Reserved").members().items()}
    for disc in (False, True):
        px = PX(repo, models=models, inline=inline_ash(stop=("frame_received", "_write_frame", "_unstuff_bytes")), while_bound=1, refine_membership=True,
                loop_iters=(0, 1, 2),
                facts={f"({MAX} < len(B))": False, "(len(B) < %d)" % (MAX + 1): True})

        def setup():
            return self_obj(cls, {"_buffer": Sym("B"), "_discarding_until_next_flag": disc, "_rx_seq": Sym("rx")}), {"data": Sym("data")}

        paths = px.explore(f, setup)
        paths = paths + px.truncated_paths  # a path cut at the second loop test has completed its first iteration
        ctx.paths += len(paths)
        ctx.anchor(len(paths) >= 8, f"data_received explored only {len(paths)} one-iteration paths")
        seen_bytes = set()
        for p in paths:
            st = p.store["self"]
            buf, flag = st.get("_buffer"), st.get("_discarding_until_next_flag")
            nx = [e for e in p.events if e.kind == "call" and e.what == "next"]
            relevant = ("next", "self._unstuff_bytes", "parse_frame", "self.frame_received", "self._write_frame")
            calls = [e for e in p.events if e.kind == "call" and (e.what in relevant or e.what.endswith((".pop", ".clear", ".partition", ".index", ".find")))]
            unst = [e for e in calls if e.what == "self._unstuff_bytes"]
            prs = [e for e in calls if e.what == "parse_frame"]
            dlv = [e for e in calls if e.what == "self.frame_received"]
            wr = [e for e in calls if e.what == "self._write_frame"]
            pops = [e for e in calls if e.what.endswith(".pop")]
            clears = [e for e in calls if e.what.endswith(".clear")]
            assumed = dict(p.assumes)
            bad = None
            cur = "B"
            scen = f"discarding={disc}"
            upper_raised = any(str(e.extra) == "raises UpperLayerError" for e in dlv)
            if upper_raised:
                # the upper layer failed while a correctly parsed frame was being delivered: whatever happens to that exception, the
                # frame was valid, so no parse-failure NAK may follow (one DATA frame, one answer)
                scen = f"discarding={disc},upper-layer-raises"
                if wr:
                    ctx.violation("scan:upper-layer-raises", f"{scen}: a CANCEL+NAK is written for a frame that parsed correctly because its delivery raised: "
                                  "the frame then gets two answers", func=f, trace=p.trace(30))
                else:
                    ctx.ok(1, scen)
                continue
            if p.terminal == "raise":
                bad = f"raises {p.value!r} out of the receive callback"
            elif assumed.get("B") is False:
                if calls or buf != Sym("B") or flag != disc:
                    bad = "empty buffer is not a no-op"
                scen += ",empty"
            else:
                if disc:
                    found = assumed.get("(b'~' in B)")
                    parts = [e for e in calls if e.what.endswith(".partition")]
                    if parts and isinstance(parts[0].extra, tuple) and len(parts[0].extra) == 3:
                        found = bool(parts[0].extra[1])
                    if found is None:
                        raise FormNotRecognised("discard branch does not test for a FLAG in the buffer in a recognised form")
                    if not found:
                        scen += ",no-flag"
                        cleared = bool(clears and clears[0].callee == "B.clear") or (isinstance(buf, (bytes, bytearray)) and len(buf) == 0)
                        if nx or unst or dlv or wr:
                            bad = "discarding without a FLAG still scans/parses"
                        elif not cleared:
                            bad = f"discarding without a FLAG leaves the buffer as {buf!r} (must be emptied)"
                        elif flag is not True:
                            bad = "discard-until-flag mode is cleared although no FLAG has arrived"
                        if bad:
                            ctx.violation(f"scan:{scen}", f"{scen}: {bad}", func=f, trace=p.trace(30))
                        else:
                            ctx.ok(1, scen)
                        continue
                    cur = "P.after"
                    scen += ",flag-found"
                # which reserved byte did the scanner select on this path, and under which index symbol?
                idx = "i"
                if nx:
                    o = nx[0].extra
                    if not (isinstance(o, tuple) and len(o) == 2) and not (isinstance(o, str) and o.startswith("raises")):
                        o = "raises StopIteration"  # next(it, default) returned the default: nothing found
                else:
                    picks = [(t, v) for t, v in p.assumes if t.startswith("member:")]
                    chosen = [(t, v) for t, v in picks if v is not None]
                    if not picks and not any(e.kind == "iterate" for e in p.events):
                        raise FormNotRecognised("scanner does not select the first reserved byte in a recognised form (next(...) over the buffer, or a loop over it)")
                    if chosen:
                        # the scanner must act on the FIRST byte that turned out to be reserved
                        bt = chosen[0][0].split(":")[1]
                        idx = bt[:-2] + ".0" if bt.endswith(".1") else bt
                        o = (Sym(idx), chosen[0][1])
                    else:
                        o = "raises StopIteration"
                if isinstance(o, str) and o.startswith("raises"):
                    scen += ",no-reserved"
                    if unst or dlv or wr or pops or buf != Sym(cur) or (flag is not False):
                        bad = f"no reserved byte: buffer {buf!r}, flag {flag!r}, calls {[e.what for e in calls[1:]]}"
                else:
                    r = names[o[1].value]
                    seen_bytes.add(o[1].value)
                    scen += f",{r}"
                    rest = Sym(f"{cur}[({idx} + 1):None]")
                    if r == "FLAG":
                        empty = assumed.get(f"{cur}[None:{idx}]") is False
                        if buf != rest:
                            bad = _edit_verdict(buf, cur, rest, idx)
                        elif flag is not False:
                            bad = f"discard flag is {flag!r} after a FLAG"
                        elif empty:
                            scen += ",empty-frame"
                            if unst or prs or dlv or wr:
                                bad = "empty frame (consecutive FLAGs) is not ignored"
                        elif len(unst) != 1 or unst[0].args[:1] != (Sym(f"{cur}[None:{idx}]"),):
                            bad = f"frame bytes handed to unstuffing are {[e.args for e in unst]!r}, must be the bytes before the FLAG"
                        else:
                            failed = str(unst[0].extra).startswith("raises") or (prs and str(prs[0].extra).startswith("raises"))
                            scen += ",parse-fails" if failed else ",parse-ok"
                            if not failed:
                                if len(prs) != 1 or prs[0].args[:1] != (Sym("unstuffed"),):
                                    bad = f"parse_frame is given {[e.args for e in prs]!r}, not the unstuffed bytes"
                                elif len(dlv) != 1 or dlv[0].args[:1] != (Sym("frame"),):
                                    bad = f"delivery is {[e.brief() for e in dlv]}, must be exactly frame_received(parsed frame)"
                                elif wr:
                                    bad = "a NAK is written for a frame that parsed"
                            else:
                                if dlv:
                                    bad = "a frame that failed to unstuff/parse is delivered upward"
                                elif len(wr) != 1:
                                    bad = f"{len(wr)} NAKs written for an unparsable frame (must be exactly 1)"
                                else:
                                    nk = wr[0].args[0] if wr[0].args else None
                                    pre = wr[0].kwargs.get("prefix")
                                    if not (isinstance(nk, Obj) and nk.cls_name == "NakFrame" and nk.fields.get("ack_num") == Sym("rx")):
                                        bad = f"answer to an unparsable frame is {nk!r}, must be a NAK with the expected number"
                                    elif not (isinstance(pre, tuple) and [int(x) for x in pre] == [0x1A]):
                                        bad = f"NAK for an unparsable frame has prefix {pre!r}, must be (CANCEL,)"
                    elif r in ("CANCEL", "SUBSTITUTE"):
                        if buf != rest:
                            bad = _edit_verdict(buf, cur, rest, idx)
                        elif unst or dlv or wr:
                            bad = f"{r} triggers parsing/delivery/writes"
                        elif flag is not (r == "SUBSTITUTE"):
                            bad = f"discard-until-flag is {flag!r} after {r}"
                    else:  # XON / XOFF
                        dels = [e for e in p.events if e.kind == "write" and e.what.endswith(".__delitem__")]
                        popped = (len(pops) == 1 and not dels and pops[0].callee == f"{cur}.pop" and pops[0].args[:1] == (Sym(idx),)) or \
                                 (len(dels) == 1 and not pops and dels[0].callee == f"{cur}.__delitem__" and dels[0].args[:1] == (Sym(idx),))
                        sliced = buf == Sym(f"({cur}[None:{idx}] + {cur}[({idx} + 1):None])")
                        if not ((popped and buf == Sym(cur)) or sliced):
                            bad = f"{r}: buffer edit is {buf!r} / {[e.brief() for e in pops + dels]}, must remove only that byte"
                        elif unst or dlv or wr or flag is not False:
                            bad = f"{r} has side effects beyond removing the byte"
            if bad and bad.startswith("UNRECOGNISED"):
                raise FormNotRecognised(f"{scen}: buffer edit {buf!r} is not in a recognised form")
            if bad:
                ctx.violation(f"scan:{scen.replace(f'discarding={disc},', '')}", f"{scen}: {bad}", func=f, trace=p.trace(30), construct=scen)
            else:
                ctx.ok(1, scen)
        ctx.require(seen_bytes == {m.value for m in rwe}, f"all-reserved-bytes-explored:{disc}",
                    f"scanner paths cover reserved bytes {sorted(seen_bytes)} only")
    ctx.sample({"reserved_bytes": sorted(names[m.value] for m in rwe)})


def _edit_verdict(buf, cur, rest, idx="i"):
    import re

    t = getattr(buf, "tag", repr(buf))
    i = re.escape(idx)
    other = r"enumerate\([^)]*\)\[\d+\]\.0"
    if re.search(other, t) and idx not in t:
        return f"buffer edit {t} is based on a later byte although an earlier byte of the buffer was a reserved byte (first reserved byte at {idx})"
    if re.fullmatch(re.escape(cur) + r"\[(None|" + i + r"|\(" + i + r" [+-] \d+\)):(None|" + i + r"|\(" + i + r" [+-] \d+\))\]", t) or t == cur:
        return f"buffer after the reserved byte is {t}, must be {rest.tag} (everything after that byte)"
    return "UNRECOGNISED"


@rule("R02.4", ["C02", "C11"], "T-BND", floor=12)
def r02_4(ctx):
    """Memory bound: MAX_BUFFER_SIZE is a positive constant; for flag-free garbage of any length arriving on a
    buffer of any admissible length the buffer afterwards holds exactly the last min(total, MAX) bytes (evaluated
    on a grid around the bound), and the buffer is (re)bound only inside data_received and the initialiser."""
    anchor_attrs(ctx, "AshProtocol", "_buffer")
    repo = ctx.repo
    MAX = const(ctx, ASH, "MAX_BUFFER_SIZE", int)
    ctx.require(0 < MAX <= 1 << 20, "MAX_BUFFER_SIZE", f"MAX_BUFFER_SIZE = {MAX}")
    f = repo.func(RECV)
    cls = ash_cls(ctx)
    px = PX(repo, inline=inline_ash(stop=("frame_received", "_write_frame")), max_paths=50)
    for have in (0, 1, MAX - 1, MAX):
        for n in (0, 1, 2, MAX - 1, MAX, MAX + 1, 3 * MAX + 7):
          for kind in ("letters", "escapes"):
            # ordinary bytes, and runs of the escape byte (the one reserved value that does not end the scan)
            if kind == "escapes" and not (have in (0, MAX) and n in (1, MAX + 1, 3 * MAX + 7)):
                continue
            old = bytes([0x41 + (i % 7) for i in range(have)]) if kind == "letters" else b"\x7d" * have
            new = bytes([0x61 + (i % 5) for i in range(n)]) if kind == "letters" else b"\x7d" * n
            paths = px.explore(f, lambda: (self_obj(cls, {"_buffer": bytearray(old), "_discarding_until_next_flag": False}), {"data": new}))
            ctx.case(1)
            if len(paths) != 1:
                raise AnalysisError(f"data_received on concrete garbage: {len(paths)} paths")
            p = paths[0]
            buf = p.store["self"].get("_buffer")
            if not isinstance(buf, (bytes, bytearray)):
                raise AnalysisError(f"buffer after garbage is not concrete: {buf!r:.80}")
            want = (old + new)[-MAX:] if len(old + new) > MAX else old + new
            ctx.require(p.terminal == "return" and bytes(buf) == want, f"bound({have}+{n})" + ("" if kind == "letters" else ":escape-bytes"),
                        f"{have} buffered + {n} garbage bytes -> buffer of {len(buf)} bytes (bound {MAX}); must hold the last "
                        f"{len(want)} bytes", func=f)
    # while discarding (a SUBSTITUTE was seen) flag-free garbage is dropped altogether and the mode stays on
    for n in (1, MAX + 1):
        new = bytes([0x61 + (i % 5) for i in range(n)])
        paths = px.explore(f, lambda: (self_obj(cls, {"_buffer": bytearray(b"xy"), "_discarding_until_next_flag": True}), {"data": new}))
        ctx.case(1)
        if len(paths) != 1:
            raise AnalysisError(f"data_received on concrete garbage while discarding: {len(paths)} paths")
        p = paths[0]
        buf = p.store["self"].get("_buffer")
        ctx.require(p.terminal == "return" and isinstance(buf, (bytes, bytearray)) and len(buf) == 0 and p.store["self"].get("_discarding_until_next_flag") is True,
                    f"discarding-bound({n})", f"{n} garbage bytes while discarding -> buffer {buf!r:.40}, mode {p.store['self'].get('_discarding_until_next_flag')!r}; "
                    "the bytes must be dropped and the mode kept", func=f)
    # one read that takes every reserved-byte branch (so that the helpers the callback is split into are all visited)
    every = b"ab\x11cd\x13ef\x1agh\x18ij\x7ekl\x7e"
    pxv = PX(repo, inline=inline_ash(stop=("frame_received", "_write_frame")), max_paths=50,
             models=[("self._unstuff_bytes", Outcomes(OK(b"\x00"))), ("parse_frame", Outcomes(OK(Sym("frame"))))])
    pxv.explore(f, lambda: (self_obj(cls, {"_buffer": bytearray(), "_discarding_until_next_flag": False, "_rx_seq": 0}), {"data": every}))
    from .ash_link import confined_writers

    confined_writers(ctx, "_buffer", px.visited | pxv.visited, {"AshProtocol.__init__"}, "R02.4 (the receive callback and the helpers it is split into)")


# ---- reference receiver (UG101 section 4), written independently of the code under analysis
def ref_parse(body):
    """Unstuffed frame bytes -> (class name, fields) if the frame is valid per the specification, else None."""
    if len(body) < 3:
        return None
    if spec_crc(body[:-2]) != int.from_bytes(body[-2:], "big"):
        return None
    cb, data = body[0], body[1:-2]
    cn = spec_class(cb)
    if cn is None:
        return None
    if cn == "DataFrame":
        if len(data) > 256:
            return None
        rnd = spec_lfsr(len(data))
        return cn, {"frm_num": (cb >> 4) & 7, "re_tx": (cb >> 3) & 1, "ack_num": cb & 7, "ezsp_frame": bytes(a ^ b for a, b in zip(data, rnd))}
    if cn in ("AckFrame", "NakFrame"):
        return (cn, {"res": (cb >> 4) & 1, "ncp_ready": (cb >> 3) & 1, "ack_num": cb & 7}) if not data else None
    if cn == "RstFrame":
        return (cn, {}) if not data else None
    if len(data) != 2 or data[0] != 2:
        return None
    return cn, {"version": 2, "reset_code": data[1]}


def ref_receive(stream):
    """Specification receiver over a byte stream: list of ('frame', class, fields) | ('nak',) in order."""
    out, buf, discard = [], bytearray(), False
    for b in stream:
        if b == 0x7E:
            if not discard and buf:
                body, esc, bad = bytearray(), False, False
                for c in buf:
                    if esc:
                        if (c ^ FLIP) not in SPEC_RESERVED:
                            bad = True
                            break
                        body.append(c ^ FLIP)
                        esc = False
                    elif c == 0x7D:
                        esc = True
                    else:
                        body.append(c)
                r = None if bad else ref_parse(bytes(body))
                out.append(("frame",) + r if r else ("nak",))
            buf, discard = bytearray(), False
        elif b == 0x18:
            buf, discard = bytearray(), True
        elif b == 0x1A:
            if not discard:
                buf = bytearray()
        elif b in (0x11, 0x13):
            pass
        elif not discard:
            buf.append(b)
    return out


def _streams(ctx):
    st = lambda body: spec_stuff(spec_with_crc(body))
    F = b"\x7e"
    data = st(bytes([0x25]) + bytes(a ^ b for a, b in zip(b"\x7e\x11hello\x7d\x1a", spec_lfsr(10))))  # DATA frm=2 reTx=0 ack=5, reserved-rich payload
    ack, rstack, error = st(bytes([0x83])), st(bytes([0xC1, 0x02, 0x0B])), st(bytes([0xC2, 0x02, 0x51]))
    bad_crc = spec_stuff(bytes([0x84, 0x12, 0x34]))
    bad_esc = bytes([0x83, 0x7D, 0x41, 0x00, 0x00])
    unknown = st(bytes([0xC5, 0x02, 0x0B]))
    xon = bytearray(data)
    for pos in (0, 3, len(xon)):
        xon.insert(pos, 0x11)
    xon.insert(5, 0x13)
    MAX = const(ctx, ASH, "MAX_BUFFER_SIZE", int)
    garbage = bytes(0x41 + (i % 23) for i in range(MAX + 300))
    nseq = len(spec_lfsr(0)) + 300  # a DATA field longer than any randomisation sequence the receiver can hold (256 on the pinned tree)
    oversize = st(bytes([0x25]) + bytes((7 * i) & 0xFF for i in range(nseq)))
    lf = spec_lfsr(200)
    long_reserved = st(bytes([0x25]) + bytes([0x7E, 0x7D, 0x11, 0x13, 0x18, 0x1A][i % 6] for i in range(200)))  # (the data field as it is on the wire)
    return {
        "oversize-data": oversize + F + ack + F,
        "frame-substitute-frames": data + F + b"ab\x18cd" + F + ack + F + rstack + F,
        "escape-then-cancel": b"\x83\x7d\x1a" + ack + F,
        "escape-then-flag": b"\x83\x7d" + F + ack + F,
        "escape-then-xon": data.replace(b"\x7d", b"\x7d\x11") + F + ack + F,
        "lone-escape-frame": b"\x7d" + F + ack + F,
        "junk-glued-to-rstack": b"ABC" + rstack + F + ack + F,
        "two-frames": F + data + F + ack + F,
        "cancel-then-frames": b"junk\x1a" + rstack + F + data + F,
        "substitute-mid-frame": data[:5] + b"\x18" + data[5:] + F + ack + F,
        "rejects-then-good": bad_crc + F + bad_esc + F + b"\x83\x00" + F + unknown + F + ack + F,
        "xon-xoff-inside": bytes(xon) + F,
        "empty-frames": F + F + F + ack + F + F,
        "cancel-inside-discard": b"\x18ab\x1acd" + F + ack + F,
        "error-then-rstack": error + F + rstack + F,
        "trailing-escape": ack[:-1] + b"\x7d" + F + ack + F,
        "overflow-then-frames": garbage + F + rstack + F + data + F,
        # a SUBSTITUTE whose closing FLAG comes in a later read, the bytes up to that FLAG forming a well-formed frame of their own
        # (they are to be ignored), the stream ending with that FLAG; then the same with more frames behind
        "substitute-then-wellformed": data + F + b"\x18" + ack + F,
        "substitute-then-wellformed-then-frames": b"\x18" + rstack + F + ack + F + data + F,
        # the longest frame the peer may send, every byte of it a reserved value on the wire (all of them escaped)
        "longest-frame-all-escaped": long_reserved + F + ack + F,
    }


def _frame_fields(o):
    out = {}
    for k, v in o.fields.items():
        if isinstance(k, str):
            if isinstance(v, (bytes, bytearray)):
                out[k] = bytes(v)
            elif isinstance(getattr(v, "value", v), int):
                out[k] = int(getattr(v, "value", v))
            else:
                raise AnalysisError(f"delivered frame field {k} is not evaluable on concrete input: {v!r:.80}")
    return out


RESET_STREAMS = ("frame-substitute-frames", "junk-glued-to-rstack", "cancel-then-frames", "error-then-rstack", "overflow-then-frames",
                 "substitute-then-wellformed-then-frames")


@rule("R02.5", ["C02", "C04", "C01", "C11", "C09", "C03"], "T-FUN", floor=60)
def r02_5(ctx):
    """Streams and chunkings against a reference receiver written from the specification: curated byte streams covering
    every reserved-byte situation (back-to-back frames, CANCEL before a frame, SUBSTITUTE inside a frame, bad CRC, invalid
    escape, short frame, unassigned control byte, XON/XOFF inside a frame, empty frames, CANCEL inside a discarded region,
    ERROR and RSTACK, a trailing escape, more than MAX_BUFFER_SIZE bytes of garbage followed by good frames) are pushed
    through data_received on one receiver object, whole and split into two reads at every position (quick tier: a spread
    of positions; thorough tier: every position and three-way splits of the short streams); the frames handed to
    frame_received (class and every field) and the NAKs written must be exactly the reference receiver's, whatever the
    chunking, and nothing may raise."""
    anchor_attrs(ctx, "AshProtocol", "_buffer", "_discarding_until_next_flag", "_rx_seq")
    repo = ctx.repo
    f = repo.func(RECV)
    ctx.fn(f)
    cls = ash_cls(ctx)
    thorough = ctx.run.tier == "thorough"
    fault = {"mode": None, "calls": 0}

    def upper(px_, t, a, k, fr):
        fault["calls"] += 1
        if fault["mode"] == "upper" and fault["calls"] == 1:
            return Outcomes(RAISE("UpperLayerError"))
        return Outcomes(OK(None))

    # the NAK goes through the real _write_frame down to the transport (debug logging on and off)
    px = PX(repo, inline=lambda g, aw: not g.is_async, max_depth=8, max_paths=4,
            models=[("binascii.crc_hqx", crc_model), ("self.frame_received", upper),
                    ("self._transport.is_closing", lambda px_, t, a, k, fr: fault["mode"] == "write"),
                    ("self._transport.write", Outcomes(OK(None))),
                    ("*.isEnabledFor", lambda px_, t, a, k, fr: fault["mode"] == "debug"),
                    ("*.done", lambda px_, t, a, k, fr: False), ("*.cancelled", lambda px_, t, a, k, fr: False)])
    px.inline_root = f
    streams = _streams(ctx)
    runs = [(name, stream, None) for name, stream in streams.items()]
    # fault variants: the upper layer raises while the first frame is handed up (whatever happens to that exception, the
    # bytes consumed so far stay consumed: the next read must not decode them again); every NAK write fails (dead transport)
    runs += [("two-frames", streams["two-frames"], "upper"), ("error-then-rstack", streams["error-then-rstack"], "upper"),
             ("rejects-then-good", streams["rejects-then-good"], "write"), ("rejects-then-good", streams["rejects-then-good"], "debug")]
    nak_wire = b"\x1a" + spec_stuff(spec_with_crc(bytes([0xA0 | 3]))) + b"\x7e"  # CANCEL + NAK(ackNum 3) + FLAG
    for name, stream, mode in runs:
        want = ref_receive(stream)
        if mode == "write":
            want = [w for w in want if w != ("nak",)]  # dead transport: nothing can be written, frames are still decoded
        n = len(stream)
        if mode:
            name = f"{name}/{'debug-logging' if mode == 'debug' else mode + '-fails'}"
        if name.startswith("oversize"):
            cuts = [(), (n // 2,)]
        elif n > 200:  # the overflow stream: split inside the garbage, at the bound, and around the frames that follow
            MAX = const(ctx, ASH, "MAX_BUFFER_SIZE", int)
            cuts = [(), (1,), (MAX - 1,), (MAX,), (MAX + 1,), (n - 30,), (n - 12,), (n - 1,), (600, MAX + 200), (MAX, n - 20)]
        elif thorough:
            cuts = [()] + [(i,) for i in range(1, n)] + ([(i, j) for i in range(1, n) for j in range(i + 1, n)] if n <= 24 else
                                                         [(i, j) for i in range(1, n, 3) for j in range(i + 1, n, 4)])
        else:
            step = max(1, n // 9)
            cuts = [()] + [(i,) for i in sorted(set(list(range(1, n, step)) + [n - 1, n - 2, 2]))] + [(n // 3, 2 * n // 3)]
            # and right behind every reserved byte (where the scanner's state changes), alone and together with the end of the frame
            # that follows: a read that ends with a SUBSTITUTE, a read that is exactly one flag-terminated run of bytes, ...
            special = [i for i, b_ in enumerate(stream) if b_ in (0x7E, 0x7D, 0x11, 0x13, 0x18, 0x1A)]
            if len(special) <= 40:
                for i in special:
                    if 0 < i + 1 < n and (i + 1,) not in cuts:
                        cuts.append((i + 1,))
                    if stream[i] in (0x18, 0x1A):
                        j = stream.find(b"\x7e", i + 1)
                        if 0 <= j and i + 1 < j + 1 <= n:
                            cuts.append((i + 1, j + 1))
        for cut in cuts:
            bounds = [0] + [c for c in cut if 0 < c < n] + [n]
            chunks = [stream[a:b] for a, b in zip(bounds, bounds[1:])]

            def entry():
                me = self_obj(cls, {"_buffer": bytearray(), "_discarding_until_next_flag": False, "_rx_seq": 3, "_transport": Obj(TypeRef("Transport"), {}, tag="self._transport"),
                                    "_pending_data_frames": {i: fut(f"pending{i}") for i in range(8)}})
                px.top_frame = None
                fault["mode"], fault["calls"] = mode, 0
                for ch in chunks + ([b""] if mode == "upper" else []):
                    try:
                        px.call_function(f, me, [bytes(ch)], {}, None)
                    except Exc as ex:
                        if not (mode == "upper" and ex.cls_name == "UpperLayerError"):
                            raise
                return None

            paths = px._run(entry)
            ctx.case(1)
            if len(paths) != 1:
                raise AnalysisError(f"data_received on the concrete stream '{name}' split at {cut}: {len(paths)} paths")
            p = paths[0]
            got = []
            for e in p.events:
                if e.kind == "call" and e.what == "self.frame_received" and e.args and isinstance(e.args[0], Obj):
                    got.append(("frame", e.args[0].cls_name, _frame_fields(e.args[0])))
                elif e.kind == "call" and e.what == "self.frame_received":
                    raise AnalysisError(f"stream '{name}': delivered frame is not evaluable: {e.args!r:.80}")
                elif e.kind == "call" and e.what == "self._transport.write":
                    w = e.args[0] if e.args else None
                    got.append(("nak",) if isinstance(w, (bytes, bytearray)) and bytes(w) == nak_wire else
                               ("write", bytes(w).hex() if isinstance(w, (bytes, bytearray)) else repr(w)[:60]))
            key = f"stream:{name}"
            # the reset handshake (C09, C11) is affected only through streams that carry an RSTACK
            scope = None if name in RESET_STREAMS else ("C02", "C04", "C01", "C03")
            settled = [e for e in p.events if e.kind == "call" and e.callee and e.callee.startswith("pending") and
                       e.callee.split(".")[-1] in ("set_result", "set_exception", "cancel")]
            if settled:
                ctx.violation(key + ":ack", f"stream '{name}' split at {list(cut)}: the byte scanner itself settles a pending send ({settled[0].brief()}); acknowledgement "
                              "information may be taken only from frames that passed validation (frame_received)", func=f, trace=p.trace(30), construct=name, props=scope)
            elif p.terminal != "return":
                ctx.violation(key, f"stream '{name}' split at {list(cut)}: {p.value!r} escapes the receive callback", func=f, trace=p.trace(30), construct=name, props=scope)
            elif got != want:
                i = next((k for k, (a, b) in enumerate(zip(got, want)) if a != b), min(len(got), len(want)))
                ctx.violation(key, f"stream '{name}' split into reads at {list(cut)}: event #{i} is {got[i] if i < len(got) else 'missing'!r:.160}, the reference "
                              f"receiver gives {want[i] if i < len(want) else 'nothing more'!r:.160} ({len(got)} events vs {len(want)})", func=f,
                              trace=p.trace(30), construct=name, props=scope)
            else:
                ctx.ok(1, (name, cut))
    ctx.sample({"streams": {k: v.hex() if len(v) < 80 else f"{len(v)} bytes" for k, v in _streams(ctx).items()}})


@rule("R02.6", ["C02", "C04", "C01", "C11", "C03"], "T-FUN", floor=30)
def r02_6(ctx):
    """The whole receive pipeline against a reference receiver *with state*: byte streams that mix in-sequence, repeated
    and out-of-sequence DATA frames, RSTACK, ERROR, ACK frames and unparsable frames are pushed through data_received ->
    frame_received -> the frame handlers of one protocol object (expected number 2 at the start), whole and split into two
    reads at every position (quick tier: a spread); the sequence of upward calls (payloads, reset codes) and the sequence of
    frames written back (ACK / NAK with their numbers, CANCEL-prefixed NAK for unparsable frames) must be exactly those of
    a receiver written from the specification - in particular a frame that follows an RSTACK in the same read is still
    decoded, numbering restarts at zero, and a repeated frame is acknowledged but not delivered again."""
    anchor_attrs(ctx, "AshProtocol", "_buffer", "_rx_seq", "_ezsp_protocol", "_transport")
    repo = ctx.repo
    f = repo.func(RECV)
    ctx.fn(f)
    cls = ash_cls(ctx)
    ns = repo.cls(ASH, "NcpState").members()
    st = lambda body: spec_stuff(spec_with_crc(body))
    F = b"\x7e"
    pay = [bytes([0x10 + i, 0x7E, i]) for i in range(6)]
    D = lambda frm, retx, ack, p: st(spec_data(frm, retx, ack, p)[:-2])
    rstack, error, ackf = st(bytes([0xC1, 0x02, 0x0B])), st(bytes([0xC2, 0x02, 0x51])), st(bytes([0x85]))
    streams = {
        "data-rstack-data": D(2, 0, 5, pay[0]) + F + rstack + F + D(0, 0, 0, pay[1]) + F + D(0, 1, 0, pay[1]) + F + D(3, 0, 0, pay[2]) + F + D(1, 0, 0, pay[3]) + F,
        "acks-and-garbage-between": ackf + F + D(2, 0, 1, pay[0]) + F + b"\x83\x12\x34" + F + D(3, 0, 1, pay[1]) + F + ackf + F + D(3, 1, 1, pay[1]) + F,
        "error-rstack-data": error + F + b"\x1a" + rstack + F + D(0, 0, 0, pay[4]) + F + D(1, 0, 0, pay[5]) + F,
        "wraparound": b"".join(D((2 + i) % 8, 0, 0, bytes([i])) + F for i in range(9)),
        # answers written while the expected number is 0: NAK(0) is A0 54 1A - its CRC contains the CANCEL value and must go out stuffed
        "rejects-at-zero": rstack + F + b"\x83\x12\x34" + F + D(3, 0, 0, pay[0]) + F + D(0, 0, 0, pay[1]) + F,
    }

    def reference(stream):
        rx, ups, writes = 2, [], []
        ack = lambda n: st(bytes([0x80 | n])) + F
        nak = lambda n: st(bytes([0xA0 | n])) + F
        for ev in ref_receive(stream):
            if ev == ("nak",):
                writes.append(b"\x1a" + nak(rx))
                continue
            _, cn, fl = ev
            if cn == "DataFrame":
                if fl["frm_num"] == rx:
                    rx = (rx + 1) % 8
                    writes.append(ack(rx))
                    ups.append(("data_received", fl["ezsp_frame"]))
                elif fl["re_tx"]:
                    writes.append(ack(rx))
                else:
                    writes.append(nak(rx))
            elif cn == "RStackFrame":
                rx = 0
                ups.append(("reset_received", fl["reset_code"]))
            elif cn == "ErrorFrame":
                ups.append(("reset_received", fl["reset_code"]))
        return ups, writes

    NOT_LAYOUT = ("C02", "C04", "C01", "C11")  # only the bytes written back are a matter of the wire layout (C03)
    px = PX(repo, inline=lambda g, aw: not g.is_async, max_depth=10, max_paths=4,
            models=[("binascii.crc_hqx", crc_model), ("self._transport.is_closing", lambda px_, t, a, k, fr: False),
                    ("self._transport.write", Outcomes(OK(None))), ("*.isEnabledFor", lambda px_, t, a, k, fr: False),
                    ("self._ezsp_protocol.data_received", Outcomes(OK(None))), ("self._ezsp_protocol.reset_received", Outcomes(OK(None)))])
    thorough = ctx.run.tier == "thorough"
    for name, stream in streams.items():
        want_up, want_wr = reference(stream)
        n = len(stream)
        cuts = [()] + ([(i,) for i in range(1, n)] if thorough else [(i,) for i in sorted(set(list(range(1, n, max(1, n // 8))) + [n - 1]))])
        for cut in cuts:
            bounds = [0] + list(cut) + [n]
            chunks = [stream[a:b] for a, b in zip(bounds, bounds[1:])]

            def entry():
                me = self_obj(cls, {"_buffer": bytearray(), "_discarding_until_next_flag": False, "_rx_seq": 2, "_tx_seq": 5, "_pending_data_frames": {},
                                    "_ncp_state": ns["CONNECTED"], "_ncp_reset_code": None, "_t_rx_ack": 1.6,
                                    "_transport": Obj(TypeRef("Transport"), {}, tag="self._transport"),
                                    "_ezsp_protocol": Obj(TypeRef("Gateway"), {}, tag="self._ezsp_protocol")})
                px.top_frame = None
                for ch in chunks:
                    px.call_function(f, me, [bytes(ch)], {}, None)
                return None

            paths = px._run(entry)
            ctx.case(1)
            if len(paths) != 1:
                raise AnalysisError(f"receive pipeline on the concrete stream '{name}' split at {cut}: {len(paths)} paths")
            p = paths[0]
            ups, wrs = [], []
            for e in p.events:
                if e.kind != "call":
                    continue
                if e.what in ("self._ezsp_protocol.data_received", "self._ezsp_protocol.reset_received"):
                    a0 = e.args[0] if e.args else None
                    val = bytes(a0) if isinstance(a0, (bytes, bytearray)) else (int(getattr(a0, "value", a0)) if isinstance(getattr(a0, "value", a0), int) else repr(a0)[:40])
                    ups.append((e.what.rsplit(".", 1)[1], val))
                elif e.what == "self._transport.write":
                    a0 = e.args[0] if e.args else None
                    wrs.append(bytes(a0) if isinstance(a0, (bytes, bytearray)) else repr(a0)[:40])
            key = f"pipeline:{name}"
            if p.terminal != "return":
                ctx.violation(key, f"stream '{name}' split at {list(cut)}: {p.value!r} escapes the receive callback", func=f, trace=p.trace(40), construct=name, props=NOT_LAYOUT)
            elif ups != want_up:
                i = next((k for k, (a, b) in enumerate(zip(ups, want_up)) if a != b), min(len(ups), len(want_up)))
                ctx.violation(key + ":upward", f"stream '{name}' split into reads at {list(cut)}: upward call #{i} is {ups[i] if i < len(ups) else 'missing'!r:.80}, the "
                              f"reference receiver gives {want_up[i] if i < len(want_up) else 'nothing more'!r:.80} ({len(ups)} calls vs {len(want_up)})", func=f,
                              trace=p.trace(40), construct=name, props=NOT_LAYOUT)
            elif wrs != want_wr:
                i = next((k for k, (a, b) in enumerate(zip(wrs, want_wr)) if a != b), min(len(wrs), len(want_wr)))
                ctx.violation(key + ":answers", f"stream '{name}' split into reads at {list(cut)}: frame #{i} written back is "
                              f"{wrs[i].hex() if i < len(wrs) and isinstance(wrs[i], bytes) else 'missing'}, the reference receiver writes "
                              f"{want_wr[i].hex() if i < len(want_wr) else 'nothing more'} ({len(wrs)} writes vs {len(want_wr)})", func=f, trace=p.trace(40), construct=name)
            else:
                ctx.ok(1, (name, cut))


@rule("R03.9", ["C03", "C10", "C11", "C04", "C02", "C05"], "T-FUN", floor=512)
def r03_9(ctx):
    """Every reset / error code is accepted: for each of the 256 code values, defined in the reset-code enum or not,
    a well-formed RSTACK and a well-formed ERROR frame parse into a frame carrying exactly that code (an NCP may
    report codes this library has no name for; dropping such a frame as noise would hide the failure)."""
    px = concrete_px(ctx)
    for cn, cb in (("RStackFrame", 0xC1), ("ErrorFrame", 0xC2)):
        m = _cls_method(ctx, cn, "from_bytes")[1]
        ctx.fn(m)
        for code in range(256):
            d = decode(ctx, px, spec_with_crc(bytes([cb, 0x02, code])))
            o = d.value
            ok = (d.terminal == "return" and isinstance(o, Obj) and o.cls_name == cn and int(getattr(o.fields.get("reset_code"), "value", -1)) == code)
            ctx.require(ok, f"code:{cn}:{'defined' if ok or code in (0, 1, 2, 3, 6, 9, 11, 0x51) else 'undefined'}", f"{cn} with code 0x{code:02X} -> {d.terminal} {o!r:.80}; "
                        "every code value must be accepted and reported", func=m)
