"""ASH frame layout (C03) and receive-callback robustness (C02)."""
from __future__ import annotations

import ast
import binascii

from ..core import rule
from ..errors import AnalysisError
from ..idx import index
from ..px import OK, PX, RAISE, Outcomes
from ..pxv import Obj, Sym
from ..te import ClassRef, FuncRef, Member, TypeRef
from .ash_link import ASH, ash_cls, dispatch_classes, frame_obj, inline_ash, upward
from .util import const, fut, self_obj, text, who_may_call

# ------------------------------------------------------------------ specification (UG101), written independently
SPEC_RESERVED = {0x7E: "FLAG", 0x7D: "ESCAPE", 0x11: "XON", 0x13: "XOFF", 0x18: "SUBSTITUTE", 0x1A: "CANCEL"}
FLIP = 0x20


def spec_crc(data: bytes) -> int:
    crc = 0xFFFF
    for b in data:
        crc ^= b << 8
        for _ in range(8):
            crc = ((crc << 1) ^ 0x1021) & 0xFFFF if crc & 0x8000 else (crc << 1) & 0xFFFF
    return crc


def spec_lfsr(n):
    out, r = [], 0x42
    for _ in range(n):
        out.append(r)
        r = (r >> 1) ^ 0xB8 if r & 1 else r >> 1
    return bytes(out)


def spec_stuff(data):
    out = bytearray()
    for c in data:
        out += bytes([0x7D, c ^ FLIP]) if c in SPEC_RESERVED else bytes([c])
    return bytes(out)


def spec_with_crc(body):
    c = spec_crc(body)
    return body + bytes([c >> 8, c & 0xFF])


def spec_data(frm, retx, ack, payload):
    rnd = spec_lfsr(len(payload))
    return spec_with_crc(bytes([(frm << 4) | (retx << 3) | ack]) + bytes(a ^ b for a, b in zip(payload, rnd)))


def spec_class(cb):
    if cb & 0x80 == 0:
        return "DataFrame"
    if cb & 0xE0 == 0x80:
        return "AckFrame"
    if cb & 0xE0 == 0xA0:
        return "NakFrame"
    return {0xC0: "RstFrame", 0xC1: "RStackFrame", 0xC2: "ErrorFrame"}.get(cb)


def crc_model(px, t, a, k, fr):
    """binascii.crc_hqx is part of the trusted base; it is modelled by itself on concrete bytes."""
    d, init = a[0], a[1]
    if isinstance(d, (bytes, bytearray)) and isinstance(init, int):
        return binascii.crc_hqx(bytes(d), init)
    return Sym(f"crc_hqx({getattr(d, 'tag', d)!r}, {init!r})")


def concrete_px(ctx, **kw):
    return PX(ctx.repo, inline=lambda f, aw: not f.is_async, models=[("binascii.crc_hqx", crc_model)], max_depth=6, **kw)


def run1(ctx, px, qual, self_o, args):
    """Run a function on concrete arguments; exactly one path is expected."""
    f = ctx.repo.func(qual) if isinstance(qual, str) else qual
    paths = px.explore(f, lambda: (self_o() if callable(self_o) else self_o, dict(args)))
    if len(paths) != 1:
        raise AnalysisError(f"{f.qual}: expected a single path on concrete input, got {len(paths)}")
    need_concrete(paths[0], f.qual)
    return paths[0]


def need_concrete(p, what):
    """A finite-domain rule compares concrete results; an unevaluable result is an analysis error, never a verdict."""
    from ..px import _has_sym

    v = p.value
    if p.terminal == "return":
        vals = list(v.fields.values()) if isinstance(v, Obj) else [v]
        if any(isinstance(x, Sym) or _has_sym(x) for x in vals):
            raise AnalysisError(f"{what}: result is not evaluable on concrete input ({v!r:.120}); construct outside the modelled subset")


def as_bytes(v):
    if isinstance(v, (bytes, bytearray)):
        return bytes(v)
    return None


# =============================================================================== C03
@rule("R03.1", ["C03", "C02"], "T-TAB", floor=3)
def r03_1(ctx):
    """Reserved byte sets equal the specification: Reserved = {7E,7D,11,13,18,1A} with the specified names,
    RESERVED_BYTES = all six, RESERVED_WITHOUT_ESCAPE = all but 7D."""
    repo = ctx.repo
    ms = repo.cls(ASH, "Reserved").members()
    got = {m.value: n for n, m in ms.items()}
    ctx.require(got == SPEC_RESERVED, "Reserved", f"Reserved enum is {got}, specification says {SPEC_RESERVED}")
    rb = {int(x) for x in repo.get(ASH, "RESERVED_BYTES")}
    ctx.require(rb == set(SPEC_RESERVED), "RESERVED_BYTES", f"RESERVED_BYTES = {sorted(map(hex, rb))}")
    rw = {int(x) for x in repo.get(ASH, "RESERVED_WITHOUT_ESCAPE")}
    ctx.require(rw == set(SPEC_RESERVED) - {0x7D}, "RESERVED_WITHOUT_ESCAPE", f"RESERVED_WITHOUT_ESCAPE = {sorted(map(hex, rw))}")


INTERESTING = sorted(set(SPEC_RESERVED) | {c ^ FLIP for c in SPEC_RESERVED} | {0x00, 0xFF, 0x20, 0x7F})


@rule("R03.2", ["C03"], "T-FUN", floor=256)
def r03_2(ctx):
    """_stuff_bytes as a byte transducer: every byte c maps to [7D, c^20] if reserved else [c]; the map is a
    homomorphism on pairs of interesting bytes (no cross-byte state); no emitted byte other than 7D is reserved."""
    px = concrete_px(ctx)
    q = f"{ASH}:AshProtocol._stuff_bytes"
    ctx.fn(q)
    for c in range(256):
        p = run1(ctx, px, q, None, {"data": bytes([c])})
        got, want = as_bytes(p.value), spec_stuff(bytes([c]))
        ok = p.terminal == "return" and got == want and all(b == 0x7D or b not in SPEC_RESERVED for b in (got or b""))
        ctx.require(ok, f"stuff({c:02x})", f"_stuff_bytes([{c:02X}]) = {got.hex() if got is not None else p.value!r}, "
                    f"specification gives {want.hex()}", func=ctx.repo.func(q))
    pairs = [(a, b) for a in INTERESTING for b in INTERESTING]
    if ctx.run.tier == "thorough":
        pairs = [(a, b) for a in range(256) for b in range(256)]
    for a, b in pairs:
        p = run1(ctx, px, q, None, {"data": bytes([a, b])})
        ctx.case(1)
        if as_bytes(p.value) != spec_stuff(bytes([a, b])):
            ctx.violation(f"stuff-pair", f"_stuff_bytes([{a:02X},{b:02X}]) = {p.value!r}", func=ctx.repo.func(q))
    ctx.sample({"stuff(7e 11 41)": run1(ctx, px, q, None, {"data": bytes([0x7E, 0x11, 0x41])}).value.hex()})


@rule("R03.3", ["C03", "C02"], "T-FUN", floor=512)
def r03_3(ctx):
    """_unstuff_bytes as a two-state transducer: in the normal state 7D enters the escaped state and any other
    byte is copied; in the escaped state c yields c^20 if that is a reserved value and a ParsingError otherwise
    (so 7D 7D, 7D 5C ... are rejected); unstuff(stuff(x)) = x on all single bytes and interesting pairs."""
    px = concrete_px(ctx)
    q = f"{ASH}:AshProtocol._unstuff_bytes"
    f = ctx.repo.func(q)
    ctx.fn(q)
    for c in range(256):
        p = run1(ctx, px, q, None, {"data": bytes([c])})
        want = b"" if c == 0x7D else bytes([c])
        ctx.require(p.terminal == "return" and as_bytes(p.value) == want, f"unstuff({c:02x})",
                    f"_unstuff_bytes([{c:02X}]) -> {p.value!r}, expected {want.hex()!r}", func=f)
    for c in range(256):
        p = run1(ctx, px, q, None, {"data": bytes([0x7D, c])})
        if (c ^ FLIP) in SPEC_RESERVED:
            ok = p.terminal == "return" and as_bytes(p.value) == bytes([c ^ FLIP])
        else:
            ok = p.raised("ParsingError")
        ctx.require(ok, f"unstuff(7d {c:02x})", f"_unstuff_bytes([7D,{c:02X}]) -> {p.terminal} {p.value!r}; the escaped value "
                    f"{c ^ FLIP:02X} is {'reserved' if (c ^ FLIP) in SPEC_RESERVED else 'not reserved (must be rejected)'}", func=f)
    # escape state does not leak: 7D x y and x 7D y
    for a in INTERESTING:
        for b in INTERESTING:
            for seq in (bytes([0x7D, a ^ FLIP if a in SPEC_RESERVED else 0x5E, b]), bytes([a, b])):
                ctx.case(1)
                p = run1(ctx, px, q, None, {"data": seq})
                want = _spec_unstuff(seq)
                got = as_bytes(p.value) if p.terminal == "return" else "ParsingError" if p.raised("ParsingError") else repr(p.value)
                if got != want:
                    ctx.violation("unstuff-seq", f"_unstuff_bytes({seq.hex()}) -> {got!r}, specification gives {want!r}", func=f)
    sq = f"{ASH}:AshProtocol._stuff_bytes"
    singles = [bytes([c]) for c in range(256)] + [bytes([a, b]) for a in INTERESTING for b in INTERESTING]
    for x in singles:
        ctx.case(1)
        s = run1(ctx, px, sq, None, {"data": x}).value
        p = run1(ctx, px, q, None, {"data": bytes(s)})
        if not (p.terminal == "return" and as_bytes(p.value) == x):
            ctx.violation("roundtrip", f"unstuff(stuff({x.hex()})) = {p.value!r}", func=f)


def _spec_unstuff(seq):
    out, esc = bytearray(), False
    for c in seq:
        if esc:
            if (c ^ FLIP) not in SPEC_RESERVED:
                return "ParsingError"
            out.append(c ^ FLIP)
            esc = False
        elif c == 0x7D:
            esc = True
        else:
            out.append(c)
    return bytes(out)


@rule("R03.4", ["C03", "C02"], "T-FUN", floor=256)
def r03_4(ctx):
    """Frame-type classification: for each of the 256 control bytes parse_frame hands the bytes to the
    from_bytes of exactly the specified class (0xxxxxxx DATA, 100xxxxx ACK, 101xxxxx NAK, C0 RST, C1 RSTACK,
    C2 ERROR) and raises ParsingError for every other value."""
    repo = ctx.repo
    f = repo.func(f"{ASH}:parse_frame")
    ctx.fn(f)
    px = PX(repo, inline=lambda fr, aw: False)
    for cb in range(256):
        paths = px.explore(f, lambda: (None, {"data": bytes([cb, 0x00, 0x00])}))
        want = spec_class(cb)
        for p in paths:
            calls = [e.callee for e in p.events if e.kind == "call" and e.what.endswith(".from_bytes")]
            if want is None:
                ok = p.raised("ParsingError") and not calls
            else:
                ok = p.terminal == "return" and calls == [f"{want}.from_bytes"] and p.events[-1].args[:1] == (bytes([cb, 0, 0]),)
            ctx.require(ok, f"classify({cb:02x})", f"control byte {cb:02X}: parse_frame -> {calls or p.value!r}, specification: "
                        f"{want or 'ParsingError'}", func=f)


def _cls_method(ctx, cname, mname):
    c = ctx.repo.cls(ASH, cname)
    try:
        v = c.lookup(mname)
    except KeyError:
        raise AnalysisError(f"anchor vanished: {cname}.{mname}")
    if not isinstance(v, FuncRef):
        raise AnalysisError(f"{cname}.{mname} does not resolve to a function: {v!r}")
    return c, v


def encode(ctx, px, cname, fields):
    c, m = _cls_method(ctx, cname, "to_bytes")
    o = Obj(c, dict(fields), tag="self")
    paths = px.explore(m, lambda: (Obj(c, dict(fields), tag="self"), {}))
    if len(paths) != 1:
        raise AnalysisError(f"{cname}.to_bytes: {len(paths)} paths on concrete fields")
    need_concrete(paths[0], f"{cname}.to_bytes")
    return paths[0]


def decode(ctx, px, data):
    f = ctx.repo.func(f"{ASH}:parse_frame")
    paths = px.explore(f, lambda: (None, {"data": data}))
    if len(paths) != 1:
        raise AnalysisError(f"parse_frame: {len(paths)} paths on concrete bytes")
    need_concrete(paths[0], "parse_frame")
    return paths[0]


PAYLOADS_QUICK = [b"", b"\x00", b"\x7e", b"\x42", bytes(SPEC_RESERVED) * 2, bytes(range(3)), bytes(127), bytes(range(128)),
                  bytes(range(129)), bytes([0x11] * 200)]


@rule("R03.5", ["C03"], "T-FUN", floor=400)
def r03_5(ctx):
    """Control-byte packing and its inverse, per class, against an independently written encoder: DATA for all
    8x2x8 field values and payload lengths up to 200 (randomised with the LFSR sequence, CRC-CCITT seed FFFF
    big-endian appended); ACK/NAK for all 2x2x8; RST; RSTACK/ERROR for every reset code with version 2; parsing
    returns exactly the encoded fields, rejects wrong lengths and versions."""
    px = concrete_px(ctx)
    for cn in dispatch_classes(ctx):
        ctx.fn(f"{ASH}:{cn}.to_bytes")
    payloads = PAYLOADS_QUICK if ctx.run.tier != "thorough" else [bytes((i * 7 + L) & 0xFF for i in range(L)) for L in range(201)] + PAYLOADS_QUICK
    # DATA
    n = 0
    for frm in range(8):
        for retx in (0, 1):
            for ack in range(8):
                pls = payloads if (frm, retx, ack) in ((2, 1, 7), (0, 0, 0), (7, 1, 7)) else [b"", b"\x7d\x00"]
                for pl in pls:
                    p = encode(ctx, px, "DataFrame", {"frm_num": frm, "re_tx": retx, "ack_num": ack, "ezsp_frame": pl})
                    want = spec_data(frm, retx, ack, pl)
                    key = f"DATA({frm},{retx},{ack},len={len(pl)})"
                    if not ctx.require(p.terminal == "return" and as_bytes(p.value) == want, key,
                                       f"{key}.to_bytes() = {p.value!r}, specification gives {want.hex()}",
                                       func=ctx.repo.func(f"{ASH}:DataFrame.to_bytes")):
                        continue
                    d = decode(ctx, px, want)
                    o = d.value
                    ok = (d.terminal == "return" and isinstance(o, Obj) and o.cls_name == "DataFrame"
                          and (o.fields.get("frm_num"), int(o.fields.get("re_tx")), o.fields.get("ack_num")) == (frm, retx, ack)
                          and as_bytes(o.fields.get("ezsp_frame")) == pl)
                    ctx.require(ok, "parse:" + key, f"parse_frame({want.hex()}) = {o!r}, expected {key}",
                                func=ctx.repo.func(f"{ASH}:DataFrame.from_bytes"))
                    n += 1
    # ACK / NAK
    for cn, base in (("AckFrame", 0x80), ("NakFrame", 0xA0)):
        for res in (0, 1):
            for nrdy in (0, 1):
                for ack in range(8):
                    want = spec_with_crc(bytes([base | res << 4 | nrdy << 3 | ack]))
                    p = encode(ctx, px, cn, {"res": res, "ncp_ready": nrdy, "ack_num": ack})
                    key = f"{cn}({res},{nrdy},{ack})"
                    ctx.require(p.terminal == "return" and as_bytes(p.value) == want, key,
                                f"{key}.to_bytes() = {p.value!r}, specification gives {want.hex()}",
                                func=_cls_method(ctx, cn, "to_bytes")[1])
                    d = decode(ctx, px, want)
                    o = d.value
                    ok = (d.terminal == "return" and isinstance(o, Obj) and o.cls_name == cn and
                          (int(o.fields.get("res")), int(o.fields.get("ncp_ready")), o.fields.get("ack_num")) == (res, nrdy, ack))
                    ctx.require(ok, "parse:" + key, f"parse_frame({want.hex()}) = {o!r}", func=_cls_method(ctx, cn, "from_bytes")[1])
    # RST
    want = spec_with_crc(b"\xC0")
    p = encode(ctx, px, "RstFrame", {})
    ctx.require(as_bytes(p.value) == want, "RST", f"RstFrame().to_bytes() = {p.value!r}, specification {want.hex()}")
    d = decode(ctx, px, want)
    ctx.require(d.terminal == "return" and isinstance(d.value, Obj) and d.value.cls_name == "RstFrame", "parse:RST", f"parse RST -> {d.value!r}")
    d = decode(ctx, px, spec_with_crc(b"\xC0\x00"))
    ctx.require(d.raised("ParsingError"), "parse:RST+data", f"RST with a data field is accepted: {d.value!r}")
    # RSTACK / ERROR
    for cn, cb in (("RStackFrame", 0xC1), ("ErrorFrame", 0xC2)):
        for code in range(256):
            want = spec_with_crc(bytes([cb, 0x02, code]))
            d = decode(ctx, px, want)
            o = d.value
            ok = (d.terminal == "return" and isinstance(o, Obj) and o.cls_name == cn and o.fields.get("version") == 2
                  and int(getattr(o.fields.get("reset_code"), "value", -1)) == code)
            ctx.require(ok, f"parse:{cn}({code})", f"parse_frame({want.hex()}) = {d.terminal} {o!r}", func=_cls_method(ctx, cn, "from_bytes")[1])
            if code in (0x00, 0x02, 0x0B, 0x51, 0xFF):
                p = encode(ctx, px, cn, {"version": 2, "reset_code": o.fields.get("reset_code") if ok else code})
                ctx.require(as_bytes(p.value) == want, f"{cn}({code})", f"{cn}.to_bytes() = {p.value!r}, specification {want.hex()}")
        for body in (bytes([cb, 0x02]), bytes([cb, 0x02, 0x0B, 0x00]), bytes([cb, 0x01, 0x0B]), bytes([cb, 0x03, 0x0B]), bytes([cb])):
            d = decode(ctx, px, spec_with_crc(body))
            ctx.require(d.raised("ParsingError"), f"parse:{cn}:bad:{body.hex()}", f"malformed {cn} body {body.hex()} -> {d.terminal} {d.value!r}")
    ctx.sample({"DATA(2,1,7,'')": spec_data(2, 1, 7, b"").hex(), "cases": n})


@rule("R03.6", ["C03", "C02"], "T-GATE", floor=8)
def r03_6(ctx):
    """CRC: append_crc(x) = x ++ BE16(crc_hqx(x, 0xFFFF)); _unwrap returns (data[0], data[1:-2]) only on the path
    where the 2-byte big-endian crc_hqx(data[:-2], 0xFFFF) was compared equal to data[-2:] as a whole (or both of
    its bytes were), raises ParsingError otherwise and for lengths 0..2; every from_bytes of the dispatch list
    obtains its fields through _unwrap."""
    repo = ctx.repo
    # append_crc on symbolic data
    f = repo.func(f"{ASH}:AshFrame.append_crc")
    ctx.fn(f)
    px = PX(repo, inline=lambda fr, aw: False)
    for p in px.explore(f, lambda: (None, {"data": Sym("D")})):
        crc = [e for e in p.events if e.kind == "call" and e.what.endswith("crc_hqx")]
        tb = [e for e in p.events if e.kind == "call" and e.what.endswith(".to_bytes")]
        ok = (p.terminal == "return" and len(crc) == 1 and crc[0].args == (Sym("D"), 0xFFFF) and len(tb) == 1
              and tb[0].args == (2, "big") and tb[0].callee == f"{crc[0].extra.tag}.to_bytes"
              and isinstance(p.value, Sym) and p.value.tag == f"(D + {tb[0].extra.tag})")
        ctx.require(ok, "append_crc", f"append_crc(D) = {p.value!r} via {[e.brief() for e in crc + tb]}; must be "
                    "D + crc_hqx(D, 0xFFFF).to_bytes(2, 'big')", func=f, trace=p.trace())
    # _unwrap
    f = repo.func(f"{ASH}:AshFrame._unwrap")
    ctx.fn(f)
    cpx = concrete_px(ctx)
    for d in (b"", b"\x80", b"\x80\x70"):
        p = run1(ctx, cpx, f, lambda: repo.cls(ASH, "AshFrame"), {"data": d})
        ctx.require(p.raised("ParsingError"), f"unwrap-short({len(d)})", f"_unwrap of {len(d)} bytes -> {p.terminal} {p.value!r}", func=f)
    px = PX(repo, inline=lambda fr, aw: False, facts={"(3 < len(D))": True, "(len(D) < 3)": False})
    paths = px.explore(f, lambda: (repo.cls(ASH, "AshFrame"), {"data": Sym("D")}))
    ctx.anchor(any(p.terminal == "return" for p in paths), "_unwrap has a returning path")
    for p in paths:
        crc = [e for e in p.events if e.kind == "call" and e.what.endswith("crc_hqx")]
        if p.terminal == "return":
            eq_true = [t for t, v in p.assumes if v and "==" in t] + [t for t, v in p.assumes if (not v) and " == " not in t and "!=" in t]
            eq_false = [t for t, v in p.assumes if not v and "==" in t]
            ok = len(crc) == 1 and crc[0].args == (Sym("D[None:-2]"), 0xFFFF)
            tags = [t for t, v in p.assumes if v]
            whole = any("D[-2:None]" in t and ".to_bytes#" in t and "==" in t for t in tags)
            halves = (any("D[-2]" in t and "==" in t for t in tags) and any("D[-1]" in t and "==" in t for t in tags))
            tb = [e for e in p.events if e.kind == "call" and e.what.endswith(".to_bytes")]
            ok = ok and (whole or halves) and (not tb or tb[0].args == (2, "big"))
            ok = ok and p.value == (Sym("D[0]"), Sym("D[1:-2]"))
            ctx.require(ok, "unwrap-return", f"_unwrap returns {p.value!r} after assuming {p.assumes}; it must return "
                        "(data[0], data[1:-2]) only when the whole 2-byte CRC of data[:-2] (seed 0xFFFF, big-endian) equals data[-2:]",
                        func=f, trace=p.trace())
        else:
            ctx.require(p.raised("ParsingError"), "unwrap-raise", f"_unwrap raises {p.value!r}", func=f)
    # every from_bytes goes through _unwrap before building its instance
    for cn in dispatch_classes(ctx):
        c, m = _cls_method(ctx, cn, "from_bytes")
        px = PX(repo, inline=lambda fr, aw: False)
        for p in px.explore(m, lambda: (c, {"data": Sym("D")})):
            i = p.index(lambda e: e.kind == "call" and e.what.endswith("._unwrap"))
            j = p.index(lambda e: e.kind == "new")
            ok = i >= 0 and p.events[i].args[:1] == (Sym("D"),) and (j < 0 or i < j)
            if p.terminal == "return":
                ctx.require(ok, f"from_bytes:{cn}", f"{cn}.from_bytes builds a frame without first validating it through _unwrap",
                            func=m, trace=p.trace())


@rule("R03.7", ["C03"], "T-FUN", floor=4)
def r03_7(ctx):
    """Randomisation: PSEUDO_RANDOM_DATA_SEQUENCE is the LFSR sequence seed 0x42 / tap 0xB8 of length >= 256 (>=
    the asserted payload bound); _randomize XORs position-wise from index 0 and is an involution."""
    px = concrete_px(ctx)
    seq = px.module_value(ASH, "PSEUDO_RANDOM_DATA_SEQUENCE")
    b = as_bytes(seq)
    ctx.require(b is not None and len(b) >= 256 and b == spec_lfsr(len(b)), "sequence",
                f"PSEUDO_RANDOM_DATA_SEQUENCE = {seq!r:.80} does not equal the specified LFSR sequence of length >= 256")
    q = f"{ASH}:generate_random_sequence"
    for n in (0, 1, 5, 256):
        p = run1(ctx, px, q, None, {"length": n})
        ctx.require(as_bytes(p.value) == spec_lfsr(n), f"lfsr({n})", f"generate_random_sequence({n}) = {p.value!r:.60}")
    c, m = _cls_method(ctx, "DataFrame", "_randomize")
    for data in (b"", b"\x00" * 256, bytes(range(200)), b"\xff" * 129):
        p = run1(ctx, px, m, None, {"data": data})
        want = bytes(a ^ b for a, b in zip(data, spec_lfsr(len(data))))
        ctx.require(p.terminal == "return" and as_bytes(p.value) == want, f"randomize(len={len(data)})",
                    f"_randomize of {len(data)} bytes differs from position-wise XOR with the sequence", func=m)


def transport_model():
    return [("*.is_closing", lambda px, t, a, k, fr: False)]


@rule("R03.8", ["C03", "C11"], "T-FUN", floor=100)
def r03_8(ctx):
    """_write_frame emits bytes(prefix) ++ STUFF(frame.to_bytes()) ++ FLAG: stuffing covers control byte, payload
    and CRC (checked for every ACK/NAK, every DATA header with reserved-rich payloads); send_reset emits
    CANCEL + stuffed RST + FLAG."""
    repo = ctx.repo
    cls = ash_cls(ctx)
    px = PX(repo, inline=lambda f, aw: not f.is_async, models=[("binascii.crc_hqx", crc_model)] + transport_model(), max_depth=6)
    f = repo.func(f"{ASH}:AshProtocol._write_frame")
    ctx.fn(f)

    def written(p):
        w = [e for e in p.events if e.kind == "call" and e.what.endswith("_transport.write")]
        return [as_bytes(e.args[0]) for e in w]

    def check(cn, fields, raw, prefix=()):
        c = repo.cls(ASH, cn)
        kw = {"frame": Obj(c, dict(fields), tag="frame")}
        paths = px.explore(f, lambda: (self_obj(cls, {"_transport": Obj(TypeRef("Transport"), {}, tag="transport")}),
                                       {"frame": Obj(c, dict(fields), tag="frame"), **({"prefix": prefix} if prefix else {})}))
        for p in paths:
            want = bytes(int(x) for x in prefix) + spec_stuff(raw) + b"\x7e"
            got = written(p)
            ctx.require(p.terminal == "return" and got == [want], f"write:{cn}:{raw.hex()[:12]}",
                        f"_write_frame({cn} {raw.hex()}) writes {[g.hex() if g else g for g in got]}, must write {want.hex()}",
                        func=f, trace=p.trace(20))

    for cn, base in (("AckFrame", 0x80), ("NakFrame", 0xA0)):
        for res in (0, 1):
            for nrdy in (0, 1):
                for ack in range(8):
                    check(cn, {"res": res, "ncp_ready": nrdy, "ack_num": ack}, spec_with_crc(bytes([base | res << 4 | nrdy << 3 | ack])))
    for frm in range(8):
        for retx in (0, 1):
            for ack in range(8):
                for pl in (b"", bytes(SPEC_RESERVED)):
                    check("DataFrame", {"frm_num": frm, "re_tx": retx, "ack_num": ack, "ezsp_frame": pl}, spec_data(frm, retx, ack, pl))
    # payloads whose randomised form hits each reserved value at position 0
    for r in SPEC_RESERVED:
        check("DataFrame", {"frm_num": 1, "re_tx": 0, "ack_num": 1, "ezsp_frame": bytes([r ^ 0x42])}, spec_data(1, 0, 1, bytes([r ^ 0x42])))
    can = repo.cls(ASH, "Reserved").members()["CANCEL"]
    check("RstFrame", {}, spec_with_crc(b"\xC0"), prefix=(can,))
    sr = repo.func(f"{ASH}:AshProtocol.send_reset")
    ctx.fn(sr)
    for p in px.explore(sr, lambda: (self_obj(cls, {"_transport": Obj(TypeRef("Transport"), {}, tag="transport")}), {})):
        want = b"\x1a" + spec_stuff(spec_with_crc(b"\xC0")) + b"\x7e"
        ctx.require(written(p) == [want], "send_reset", f"send_reset writes {[g.hex() if g else g for g in written(p)]}, must write {want.hex()}",
                    func=sr, trace=p.trace(20))
    ctx.sample({"send_reset": (b"\x1a" + spec_stuff(spec_with_crc(b"\xC0")) + b"\x7e").hex()})
