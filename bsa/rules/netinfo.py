"""C14: network settings survive a write / read round trip."""
from __future__ import annotations

import re

from ..core import rule
from ..errors import AnalysisError
from ..px import OK, PX, RAISE, Outcomes
from ..pxv import Obj, Sym
from ..te import ClassRef, FuncRef, Member, TypeRef
from .util import same_class, self_obj

APP = "bellows.zigbee.application"
UTIL = "bellows.zigbee.util"
NAMED = "bellows.types.named"
from ..su import VERSIONS  # noqa: E402  (shared list, filled from EZSP._BY_VERSION)
PAIRS = {("pan_id", "panId"), ("extended_pan_id", "extendedPanId"), ("channel", "radioChannel"), ("channel_mask", "channels"),
         ("nwk_update_id", "nwkUpdateId"), ("nwk_manager_id", "nwkManagerId")}


def wrap(name):
    return (name, lambda px, t, a, k, fr: Sym(f"{name.split('.')[-1]}({getattr(a[0], 'tag', a[0])})") if a else Sym(name))


def core(v, prefix):
    """innermost '<prefix>.<field>' of a wrapped symbol tag, e.g. EmberPanId(ni.pan_id) -> pan_id."""
    t = getattr(v, "tag", None)
    if t is None:
        return None
    m = re.search(re.escape(prefix) + r"\.(\w+)", t)
    return m.group(1) if m else None


def core_exact(v, prefix):
    """like core(), but only when the value is the field itself, possibly inside type conversions (``uint8_t(ni.channel)``):
    a value computed from the field (``ni.nwk_update_id + 1``) is not the field."""
    t = getattr(v, "tag", None)
    if t is None:
        return None
    m = re.fullmatch(r"(?:[\w.]+\()*" + re.escape(prefix) + r"\.(\w+)\)*", t)
    return m.group(1) if m else None


def app_cls(ctx):
    return ctx.repo.cls(APP, "ControllerApplication")


def explore_write(ctx, version=8, hashed="aa", stack_specific=None, children=None, nwk_addresses=None):
    repo = ctx.repo
    f = repo.func(f"{APP}:ControllerApplication.write_network_info")
    models = [wrap("t.KeyData"), wrap("t.EUI64"), wrap("t.Channels"), ("util.zha_security", lambda px, t, a, k, fr: Sym("isc")),
              ("os.urandom", lambda px, t, a, k, fr: b"\x01" * 16)]
    px = PX(repo, models=models, inline=same_class(stop=("reset_network_info", "_reset", "_ensure_network_running")), max_paths=5000)

    def setup():
        import copy

        ni = Obj(TypeRef("NetworkInfo"), {"stack_specific": copy.deepcopy(stack_specific) if stack_specific is not None else ({"ezsp": {"hashed_tclk": hashed}} if hashed else {}),
                                          "network_key": Obj(TypeRef("Key"), {}, tag="ni.network_key"),
                                          "tc_link_key": Obj(TypeRef("Key"), {}, tag="ni.tc_link_key"),
                                          "children": list(children) if children is not None else [Sym("child1")],
                                          "nwk_addresses": dict(nwk_addresses) if nwk_addresses is not None else {Sym("child1"): Sym("nwk1")},
                                          "key_table": Sym("ni.key_table")}, tag="ni")
        ez = Obj(TypeRef("EZSP"), {"ezsp_version": version}, tag="self._ezsp")
        return self_obj(app_cls(ctx), {"_ezsp": ez}), {"network_info": ni, "node_info": Obj(TypeRef("NodeInfo"), {}, tag="node")}

    return f, px.explore(f, setup)


@rule("R14.2", ["C14"], "T-FLOW", floor=14)
def r14_2(ctx):
    """Restore and read-back use the same field pairs: write_network_info feeds the NCP's network parameters
    panId / extendedPanId / radioChannel / channels / nwkUpdateId / nwkManagerId from the network info's pan_id /
    extended_pan_id / channel / channel_mask / nwk_update_id / nwk_manager_id, and load_network_info fills exactly
    those network-info fields from exactly those parameters; the fields exist in EmberNetworkParameters; the
    frame counters restored are the network key's and the trust-centre link key's transmit counters."""
    repo = ctx.repo
    params_fields = {f[0] for f in repo.cls("bellows.types.struct", "EmberNetworkParameters").struct_fields()}
    f, paths = explore_write(ctx)
    ctx.fn(f)
    done = [p for p in paths if p.terminal == "return"]
    ctx.anchor(done, "write_network_info has a completing path")
    for p in done:
        ctx.paths += 1
        fm = [e for e in p.events if e.kind == "await" and e.what.endswith("formNetwork")]
        ctx.anchor(len(fm) == 1, "write_network_info forms the network once")
        prm = fm[0].kwargs.get("parameters", fm[0].args[0] if fm[0].args else None)
        if not isinstance(prm, Obj):
            raise AnalysisError("formNetwork parameters are not an EmberNetworkParameters built in write_network_info")
        got = {(core_exact(v, "ni"), k) for k, v in prm.fields.items() if isinstance(k, str) and core(v, "ni")}
        ctx.require(got == PAIRS, "write:pairs", f"write_network_info feeds the network parameters with {sorted(got, key=str)}; the restore must set {sorted(PAIRS)} (each from the field itself, not a value computed from it)", func=f)
        for k in prm.fields:
            if isinstance(k, str):
                ctx.require(k in params_fields, f"write:field:{k}", f"EmberNetworkParameters has no field {k}", func=f)
        nfc = [e for e in p.events if e.kind == "await" and e.what.endswith("write_nwk_frame_counter")]
        afc = [e for e in p.events if e.kind == "await" and e.what.endswith("write_aps_frame_counter")]
        ok = (len(nfc) == 1 and getattr(nfc[0].args[0], "tag", "") == "ni.network_key.tx_counter" and len(afc) == 1
              and getattr(afc[0].args[0], "tag", "") == "ni.tc_link_key.tx_counter")
        ctx.require(ok, "write:counters", f"frame counters restored from {[e.args for e in nfc + afc]!r}; must be the network key's and the TC link key's "
                    "tx_counter", func=f)
    # read back
    g = repo.func(f"{APP}:ControllerApplication.load_network_info")
    ctx.fn(g)
    for p in explore_load(ctx, bitmask=0x0084):
        if p.terminal != "return":
            continue
        ctx.paths += 1
        ni = [e for e in p.events if e.kind == "call" and e.what.endswith("NetworkInfo")]
        ctx.anchor(len(ni) == 1, "load_network_info builds one NetworkInfo")
        inner = {e.extra: e for e in p.events if e.kind == "call" and isinstance(e.extra, Sym)}
        got = set()
        for k, v in ni[0].kwargs.items():
            src = inner.get(v) if isinstance(v, Sym) else None
            arg = src.args[0] if src is not None and src.args else v
            c = core(arg, "nwk_params")
            if c:
                got.add((k, core_exact(arg, "nwk_params")))
        ctx.require(got == PAIRS, "load:pairs", f"load_network_info fills the network info from {sorted(got, key=str)}; the read-back must use {sorted(PAIRS)} (each field itself, not a value computed from it)", func=g)
        ctx.require(getattr(ni[0].kwargs.get("network_key"), "tag", "").startswith("ezsp.get_network_key") and
                    getattr(ni[0].kwargs.get("tc_link_key"), "tag", "") == "tclk", "load:keys",
                    f"keys read back as {ni[0].kwargs.get('network_key')!r} / {ni[0].kwargs.get('tc_link_key')!r}", func=g)


def explore_load(ctx, bitmask, load_devices=False, extra_models=()):
    repo = ctx.repo
    g = repo.func(f"{APP}:ControllerApplication.load_network_info")
    es = repo.cls(NAMED, "EmberStatus").members()
    csb = repo.cls(NAMED, "EmberCurrentSecurityBitmask")
    nt = repo.cls(NAMED, "EmberNodeType").members()["COORDINATOR"]
    state = Obj(TypeRef("State"), {"bitmask": Member(csb, f"bitmask_{bitmask:#06x}", bitmask)}, tag="state")
    tclk = lambda: Obj(TypeRef("Key"), {"key": Obj(TypeRef("KeyData"), {}, tag="tclk.key")}, tag="tclk")
    models = [("ezsp.getNetworkParameters", Outcomes(OK((es["SUCCESS"], nt, Sym("nwk_params"))))),
              ("ezsp.getNodeId", Outcomes(OK((Sym("nwk"),)))), ("ezsp.getEui64", Outcomes(OK((Sym("ieee"),)))),
              ("self._get_board_info", Outcomes(OK((None, None, None)))),
              ("ezsp.getConfigurationValue", Outcomes(OK((es["SUCCESS"], 5)))),
              ("ezsp.get_tc_link_key", lambda px, t, a, k, fr: Outcomes(OK(tclk()))),
              ("ezsp.getCurrentSecurityState", Outcomes(OK((es["SUCCESS"], state)))),
              ("self._ensure_network_running", Outcomes(OK(False))),
              ("zigpy.types.KeyData", lambda px, t, a, k, fr: Obj(TypeRef("KeyData"), {"v": a[0]}, tag="wellknown"))] + list(extra_models)
    px = PX(repo, models=models, inline=same_class(), max_paths=2000,
            facts={"(self.state.node_info.logical_type == zigpy.zdo.types.LogicalType.Coordinator)": True})
    return px.explore(g, lambda: (self_obj(app_cls(ctx), {"_ezsp": Obj(TypeRef("EZSP"), {"ezsp_version": 8}, tag="ezsp")}), {"load_devices": load_devices}))


@rule("R14.7", ["C14"], "T-FUN", floor=4)
def r14_7(ctx):
    """Hashed trust-centre link key on read-back: for the security-state bitmasks {0x0004, 0x0080, 0x0084, 0x008C,
    0}, load_network_info records the stack-specific hashed key and substitutes the well-known key exactly when
    *all* bits of TRUST_CENTER_USES_HASHED_LINK_KEY (a multi-bit flag) are set; the stack-specific key name is the
    one zha_security reads on restore."""
    repo = ctx.repo
    g = repo.func(f"{APP}:ControllerApplication.load_network_info")
    flag = repo.cls(NAMED, "EmberCurrentSecurityBitmask").members()["TRUST_CENTER_USES_HASHED_LINK_KEY"].value
    for bm in (0x0000, 0x0004, 0x0080, 0x0084, 0x008C, 0xFF7B):
        for p in explore_load(ctx, bm):
            if p.terminal != "return":
                continue
            ctx.paths += 1
            ni = [e for e in p.events if e.kind == "call" and e.what.endswith("NetworkInfo")]
            ss = ni[0].kwargs.get("stack_specific") if ni else None
            hashed = isinstance(ss, dict) and "ezsp" in ss and "hashed_tclk" in ss["ezsp"]
            want = (bm & flag) == flag
            ctx.require(hashed == want, f"hashed-flag:{bm:#06x}", f"security bitmask {bm:#06x} (hashed-link-key flag is {flag:#06x}): hashed key "
                        f"{'recorded' if hashed else 'not recorded'} in stack_specific ({ss!r:.60}); it must be recorded exactly when all bits of the flag are set",
                        func=g)
            if hashed and want:
                hv = ss["ezsp"]["hashed_tclk"]
                # follow the value back through the calls that produced it (``<key>.serialize().hex()``) to the object it was read from
                origin, cur, seen_ = None, hv, 0
                while isinstance(cur, Sym) and seen_ < 6:
                    seen_ += 1
                    src = next((e for e in p.events if e.kind == "call" and e.extra == cur), None)
                    if src is None:
                        break
                    origin = str(src.callee or src.what)
                    recv = origin.rsplit(".", 1)[0]
                    nxt = next((e.extra for e in p.events if e.kind == "call" and isinstance(e.extra, Sym) and e.extra.tag == recv), None)
                    if nxt is None:
                        break
                    cur = nxt
                ctx.require(origin is not None and origin.startswith("tclk.key"), f"hashed-source:{bm:#06x}",
                            f"bitmask {bm:#06x}: the hashed link key recorded in stack_specific is {hv!r:.80} (computed from {origin}); it must be the key the NCP reports as its "
                            "trust-centre link key", func=g)
            tk = ni[0].kwargs.get("tc_link_key") if ni else None
            if isinstance(tk, Obj):
                sub = getattr(tk.fields.get("key"), "tag", "") == "wellknown"
                ctx.require(sub == want, f"hashed-subst:{bm:#06x}", f"bitmask {bm:#06x}: TC link key {'replaced by' if sub else 'not replaced by'} the well-known key", func=g)


@rule("R14.3", ["C14"], "T-FUN", floor=4)
def r14_3(ctx):
    """Security state sent to the NCP (zha_security), over {trust-centre address known, unknown} x {hashed,
    plain}: the network key and its sequence number come from the *network key* with their flags always set;
    HAVE_TRUST_CENTER_EUI64 is set iff the partner address is supplied (else the zero address is used);
    TRUST_CENTER_USES_HASHED_LINK_KEY is set iff the hashed form is used, and then the pre-configured key is the
    hash kept in stack-specific data, otherwise the trust-centre link key itself."""
    repo = ctx.repo
    f = repo.func(f"{UTIL}:zha_security")
    ctx.fn(f)
    bm = repo.cls(NAMED, "EmberInitialSecurityBitmask").members()
    models = [wrap("t.KeyData"), wrap("t.EUI64"), ("t.EUI64.convert", lambda px, t, a, k, fr: Sym(f"eui64:{a[0]}")),
              ("t.KeyData.deserialize", lambda px, t, a, k, fr: (Sym(f"hashed({getattr(a[0], 'tag', a[0])})"), b"")),
              ("bytes.fromhex", lambda px, t, a, k, fr: Sym(f"hex:{a[0]}")), ("zigpy_t.KeyData", lambda px, t, a, k, fr: Sym("wellknown"))]
    for known in (True, False):
        for hashed in (True, False):
            px = PX(repo, models=models, inline=same_class(),
                    # the partner address is an object that compares equal to the UNKNOWN constant (or not) but is never the very same
                    # object (addresses read from a backup are fresh objects)
                    facts={"(ni.tclk.partner == zigpy_t.EUI64.UNKNOWN)": not known, "(EUI64.UNKNOWN == ni.tclk.partner)": not known,
                           "(UNKNOWN == ni.tclk.partner)": not known, "(UNKNOWN is ni.tclk.partner)": False, "(ni.tclk.key == wellknown)": True})

            def setup():
                ni = Obj(TypeRef("NetworkInfo"), {"network_key": Obj(TypeRef("Key"), {"key": Sym("ni.nk.key"), "seq": Sym("ni.nk.seq"), "tx_counter": Sym("x")}, tag="nk"),
                                                  "tc_link_key": Obj(TypeRef("Key"), {"key": Sym("ni.tclk.key"), "seq": Sym("ni.tclk.seq"), "partner_ieee": Sym("ni.tclk.partner")},
                                                                     tag="tclk"),
                                                  "stack_specific": {"ezsp": {"hashed_tclk": "abcd"}}}, tag="ni")
                return None, {"network_info": ni, "use_hashed_tclk": hashed}

            paths = px.explore(f, setup)
            for p in paths:
                key = f"partner={'known' if known else 'unknown'},hashed={hashed}"
                unk = [v for t, v in p.assumes if "UNKNOWN" in t and " is " not in t]
                if unk and unk[0] != (not known):
                    continue
                ctx.paths += 1
                isc = p.value
                if p.terminal != "return" or not isinstance(isc, Obj):
                    ctx.violation(f"zha_security:{key}", f"{key}: {p.terminal} {p.value!r}", func=f)
                    continue
                fl = isc.fields.get("bitmask")
                val = fl.value if isinstance(fl, Member) else None
                has = lambda n: val is not None and (val & bm[n].value) == bm[n].value
                bad = None
                if val is None:
                    raise AnalysisError(f"zha_security bitmask not evaluable: {fl!r}")
                if getattr(isc.fields.get("networkKey"), "tag", "") != "KeyData(ni.nk.key)":
                    bad = f"networkKey is {isc.fields.get('networkKey')!r}, must be the network key"
                elif "ni.nk.seq" not in getattr(isc.fields.get("networkKeySequenceNumber"), "tag", ""):
                    bad = f"networkKeySequenceNumber is {isc.fields.get('networkKeySequenceNumber')!r}, must be the network key's sequence number"
                elif not (has("HAVE_NETWORK_KEY") and has("HAVE_PRECONFIGURED_KEY")):
                    bad = "HAVE_NETWORK_KEY / HAVE_PRECONFIGURED_KEY not set although both keys are supplied"
                elif has("HAVE_TRUST_CENTER_EUI64") != known:
                    bad = f"HAVE_TRUST_CENTER_EUI64 is {'set' if has('HAVE_TRUST_CENTER_EUI64') else 'clear'} with a {'known' if known else 'unknown'} partner address"
                elif known and getattr(isc.fields.get("preconfiguredTrustCenterEui64"), "tag", "") != "EUI64(ni.tclk.partner)":
                    bad = f"trust-centre address is {isc.fields.get('preconfiguredTrustCenterEui64')!r}"
                elif not known and "00:00:00:00:00:00:00:00" not in getattr(isc.fields.get("preconfiguredTrustCenterEui64"), "tag", ""):
                    bad = f"unknown partner: address field is {isc.fields.get('preconfiguredTrustCenterEui64')!r}, must be the zero address"
                elif has("TRUST_CENTER_USES_HASHED_LINK_KEY") != hashed:
                    bad = f"TRUST_CENTER_USES_HASHED_LINK_KEY is {'set' if has('TRUST_CENTER_USES_HASHED_LINK_KEY') else 'clear'} with hashed={hashed}"
                elif hashed and "hex:abcd" not in getattr(isc.fields.get("preconfiguredKey"), "tag", ""):
                    bad = f"hashed: pre-configured key is {isc.fields.get('preconfiguredKey')!r}, must be the stored hash"
                elif not hashed and getattr(isc.fields.get("preconfiguredKey"), "tag", "") != "KeyData(ni.tclk.key)":
                    bad = f"plain: pre-configured key is {isc.fields.get('preconfiguredKey')!r}, must be the TC link key"
                # writer / reader agreement on the wire: the NCP reports the flags it was given back in its *current* security bitmask,
                # where load_network_info tests TRUST_CENTER_USES_HASHED_LINK_KEY of EmberCurrentSecurityBitmask (a multi-bit value that
                # includes the global-link-key bit).  The bits sent must make that test come out as 'hashed' exactly when hashed.
                if not bad:
                    cur = repo.cls(NAMED, "EmberCurrentSecurityBitmask").members().get("TRUST_CENTER_USES_HASHED_LINK_KEY")
                    ctx.anchor(cur is not None, "EmberCurrentSecurityBitmask.TRUST_CENTER_USES_HASHED_LINK_KEY")
                    reads_hashed = (val & cur.value) == cur.value
                    if reads_hashed != hashed:
                        bad = (f"the bitmask sent is 0x{val:04X}; read back through the current-security-state flag 0x{cur.value:04X} it means "
                               f"hashed={reads_hashed}, but the key supplied is {'the hash' if hashed else 'the plain link key'}")
                ctx.require(not bad, f"zha_security:{key}", f"{key}: {bad}", func=f, trace=p.trace(8))


KEY_FIELDS = ("seq", "tx_counter", "rx_counter", "partner_ieee")


@rule("R14.4", ["C14"], "T-FLOW", floor=8)
def r14_4(ctx):
    """Key-struct conversions agree: ezsp_key_to_zigpy_key and zigpy_key_to_ezsp_key use the same (zigpy field,
    presence flag, struct field) triples for sequence number, outgoing and incoming frame counter and partner
    address, and always carry the key itself."""
    repo = ctx.repo
    bm = repo.cls(NAMED, "EmberKeyStructBitmask")
    flags = {m.value: m.name for m in bm.canonical_members() if m.value}
    to_e = repo.func(f"{UTIL}:zigpy_key_to_ezsp_key")
    to_z = repo.func(f"{UTIL}:ezsp_key_to_zigpy_key")
    ctx.fn(to_e)
    ctx.fn(to_z)
    models = [wrap("t.KeyData"), wrap("t.EUI64"), wrap("zigpy_t.KeyData"), ("zigpy.state.Key", lambda px, t, a, k, fr: Obj(TypeRef("zigpy.state.Key"), dict(k), tag="zkey"))]
    triples_e, triples_z = set(), set()
    for fld in KEY_FIELDS:
        px = PX(repo, models=models, inline=same_class())

        def setup():
            zk = Obj(TypeRef("Key"), {"key": Sym("zk.key"), **{n: (Sym(f"zk.{n}") if n == fld else None) for n in KEY_FIELDS}}, tag="zk")
            return None, {"zigpy_key": zk}

        for p in px.explore(to_e, setup):
            if any(t == f"(None is zk.{fld})" and v for t, v in p.assumes):
                continue
            k = p.value
            if p.terminal != "return" or not isinstance(k, Obj) or not isinstance(k.fields.get("bitmask"), Member):
                raise AnalysisError(f"zigpy_key_to_ezsp_key({fld}) not evaluable: {p.value!r}")
            ctx.require("zk.key" in getattr(k.fields.get("key"), "tag", ""), f"to_ezsp:key:{fld}", "the key itself is not carried over", func=to_e)
            set_flags = [n for v, n in flags.items() if k.fields["bitmask"].value & v]
            set_fields = [n for n, v in k.fields.items() if isinstance(n, str) and f"zk.{fld}" in getattr(v, "tag", "")]
            if len(set_flags) == 1 and len(set_fields) == 1:
                triples_e.add((fld, set_flags[0], set_fields[0]))
                ctx.ok(1)
            else:
                ctx.violation(f"to_ezsp:{fld}", f"zigpy key with only `{fld}` set produces flags {set_flags} and struct fields {set_fields}", func=to_e)
    for v, fname in flags.items():
        px = PX(repo, models=models, inline=same_class())

        def setup():
            ek = Obj(repo.cls("bellows.types.struct", "EmberKeyStruct"), {"bitmask": Member(bm, fname, v), "key": Sym("ek.key")}, tag="ek")
            return None, {"key": ek}

        for p in px.explore(to_z, setup):
            z = p.value
            if p.terminal != "return" or not isinstance(z, Obj):
                raise AnalysisError(f"ezsp_key_to_zigpy_key({fname}) not evaluable: {p.value!r}")
            for n, val in z.fields.items():
                c = core(val, "ek")
                if isinstance(n, str) and c and n != "key":
                    triples_z.add((n, fname, c))
    relevant = {t for t in triples_z if t[0] in KEY_FIELDS}
    ctx.require(len(triples_e) == 4 and triples_e == relevant, "triples", f"zigpy->ezsp uses {sorted(triples_e)}, ezsp->zigpy uses {sorted(relevant)}; both conversions must "
                "use the same (field, flag, struct field) triples", func=to_z)
    ctx.sample({"triples": sorted(triples_e)})


ORDER = ["reset_network_info", "getEui64", "write_nwk_frame_counter", "write_aps_frame_counter", "setInitialSecurityState", "write_link_keys", "write_child_data",
         "formNetwork", "_ensure_network_running"]


@rule("R14.5", ["C14"], "T-ORD", floor=2)
def r14_5(ctx):
    """Restore order on every completing path of write_network_info: factory reset -> read the (post-reset) EUI64
    -> frame counters -> security state -> link keys -> children -> form -> bring-up; the security state is built
    from the network info with the hashed form exactly for versions above 4; children are written with their
    network addresses."""
    for version in (VERSIONS[0], 8, VERSIONS[-1]):
        f, paths = explore_write(ctx, version)
        for p in paths:
            if p.terminal != "return":
                continue
            ctx.paths += 1
            seq = [e.what.split(".")[-1] for e in p.events if e.kind == "await" and e.what.split(".")[-1] in ORDER]
            pos = [seq.index(n) if n in seq else -1 for n in ORDER]
            ok = all(x >= 0 for x in pos) and pos == sorted(pos) and seq.count("getEui64") >= 1 and seq.index("getEui64") > seq.index("reset_network_info")
            ctx.require(ok, "restore-order", f"v{version}: restore sequence is {seq}; required order {ORDER} (the EUI64 must be read after the factory reset, "
                        "which can change it)", func=f, trace=p.trace(20))
            zs = [e for e in p.events if e.kind == "call" and e.what == "util.zha_security"]
            ctx.require(len(zs) == 1 and zs[0].kwargs.get("use_hashed_tclk") == (version > 4) and getattr(zs[0].kwargs.get("network_info"), "tag", "") == "ni",
                        f"security-state-args:v{version}", f"v{version}: zha_security called with {zs[0].kwargs if zs else None!r:.100}", func=f)
            for hs in (None, "", "aa"):
                pass
            wc = [e for e in p.events if e.kind == "await" and e.what.endswith("write_child_data")]
            ctx.require(wc and wc[0].args[:1] == ({Sym("child1"): Sym("nwk1")},), f"children:v{version}", f"children written as {wc[0].args if wc else None!r}", func=f)
    # exactly the children whose network address is known are written: no child, a child without an address, an address of a non-child
    for label, ch, na, want in (("no-children", [], {"ee:02": 0x2222}, {}),
                                ("child-without-address", ["ee:01", "ee:03"], {"ee:01": 0x1111, "ee:02": 0x2222}, {"ee:01": 0x1111}),
                                ("two-children", ["ee:01", "ee:02"], {"ee:02": 0x2222, "ee:01": 0x1111}, {"ee:01": 0x1111, "ee:02": 0x2222})):
        f, paths = explore_write(ctx, 8, children=ch, nwk_addresses=na)
        done = [p for p in paths if p.terminal == "return"]
        ctx.anchor(done, f"write_network_info completes ({label})")
        for p in done:
            ctx.paths += 1
            wc = [e for e in p.events if e.kind == "await" and e.what.endswith("write_child_data")]
            got = wc[0].args[0] if wc and wc[0].args else (wc[0].kwargs.get("children") if wc else None)
            ctx.require(isinstance(got, dict) and got == want, f"children-selected:{label}",
                        f"backup with children {ch} and network addresses {na}: write_child_data receives {got!r}; exactly the children with a known "
                        f"network address are restored ({want})", func=f, trace=p.trace(12))


@rule("R14.8", ["C14"], "T-FLOW", floor=4)
def r14_8(ctx):
    """The hashed trust-centre link key reaches the security state whatever the backup looked like: for backups
    whose stack-specific data has no 'ezsp' section, an empty one, or a stored hash, on versions that hash (5+), the
    network info handed to zha_security carries stack_specific['ezsp']['hashed_tclk'] (generated when absent, the
    stored one otherwise), so building the security state cannot fail after the NCP has already been wiped."""
    for version in (5, 14):
        for label, ss in (("no-ezsp-section", {}), ("empty-ezsp-section", {"ezsp": {}}), ("stored-hash", {"ezsp": {"hashed_tclk": "aa"}})):
            f, paths = explore_write(ctx, version, hashed=None, stack_specific=ss)
            done = [p for p in paths if p.terminal == "return"]
            ctx.anchor(done, f"write_network_info completes (v{version}, {label})")
            for p in done:
                ctx.paths += 1
                zs = [e for e in p.events if e.kind == "call" and e.what == "util.zha_security"]
                ni = zs[0].kwargs.get("network_info") if zs else None
                cur = ni.fields.get("stack_specific") if isinstance(ni, Obj) else None
                h = cur.get("ezsp", {}).get("hashed_tclk") if isinstance(cur, dict) and isinstance(cur.get("ezsp", {}), dict) else None
                ok = bool(h) and (label != "stored-hash" or h == "aa")
                ctx.require(ok, f"hashed-tclk-supplied:{label}", f"v{version}, backup with {label}: zha_security receives stack_specific {cur!r:.80}; "
                            "stack_specific['ezsp']['hashed_tclk'] must be present (zha_security reads it)", func=f, trace=p.trace(12))


@rule("R14.6", ["C14"], "T-FLOW", floor=20)
def r14_6(ctx):
    """Per-version accessors: every abstract accessor resolves to a concrete method in all 11 handler classes;
    where frame counters can be written (v5+) the network counter goes to the value ID named *NWK_FRAME_COUNTER and
    the APS counter to *APS_FRAME_COUNTER; the v13/v14 key readers feed tx_counter / seq from the network key
    info's frame counter / sequence number and the key from the exported key."""
    repo = ctx.repo
    names = ["get_network_key", "get_tc_link_key", "read_link_keys", "write_link_keys", "read_child_data", "write_child_data", "write_nwk_frame_counter",
             "write_aps_frame_counter", "initialize_network", "factory_reset", "read_address_table", "add_transient_link_key"]
    for v in VERSIONS:
        c = repo.cls(f"bellows.ezsp.v{v}", f"EZSPv{v}")
        for n in names:
            try:
                m = c.method(n)
                ok = m.cls is not None and m.cls.name != "ProtocolHandler"
            except KeyError:
                ok = False
            ctx.require(ok, f"accessor:v{v}:{n}", f"v{v}: accessor {n} does not resolve to a concrete method")
        for meth, want in (("write_nwk_frame_counter", "NWK_FRAME_COUNTER"), ("write_aps_frame_counter", "APS_FRAME_COUNTER")):
            m = c.method(meth)
            px = PX(repo, models=[("self.networkState", Outcomes(OK((repo.cls(NAMED, "EmberNetworkStatus").members()["NO_NETWORK"],)))),
                                  ("self.setValue", Outcomes(OK((repo.cls(NAMED, "EmberStatus").members()["SUCCESS"],))))],
                    inline=same_class())
            # 0 is a valid counter (a fresh network's backup): the NCP keeps the previous network's counter unless it is written
            for counter in (0x01020304, 0, 0xFFFFFFFF):
              for p in px.explore(m, lambda: (self_obj(c, {}), {"frame_counter": counter})):
                sv = [e for e in p.events if e.kind == "await" and e.what == "self.setValue"]
                if v == 4:
                    ctx.require(not sv and p.terminal == "return", f"{meth}:v4", "v4 cannot store frame counters but issues a write", func=m)
                else:
                    vid = sv[0].kwargs.get("valueId") if sv else None
                    val = sv[0].kwargs.get("value") if sv else None
                    ok = (len(sv) == 1 and isinstance(vid, Member) and vid.name.endswith(want) and isinstance(val, (bytes, bytearray))
                          and bytes(val) == counter.to_bytes(4, "little") and p.terminal == "return")
                    ctx.require(ok, f"{meth}:v{v}:{'zero' if counter == 0 else 'value'}", f"v{v} {meth}({counter:#x}): setValue({vid!r}, {val!r}); must set *{want} to the 32-bit "
                                "little-endian counter, whatever its value", func=m)
        # a rejected counter write must not pass silently: the writer raises, or it reports the status and every caller looks at it
        if v != 4:
            for meth in ("write_nwk_frame_counter", "write_aps_frame_counter"):
                m = c.method(meth)
                for fam, rej in (("EmberStatus", "ERR_FATAL"), ("EzspStatus", "ERROR_INVALID_VALUE")):
                    fam_m = repo.cls(NAMED, fam).members()
                    if rej not in fam_m:
                        continue
                    pxr = PX(repo, models=[("self.networkState", Outcomes(OK((repo.cls(NAMED, "EmberNetworkStatus").members()["NO_NETWORK"],)))),
                                           ("self.setValue", Outcomes(OK((fam_m[rej],))))], inline=same_class())
                    for p in pxr.explore(m, lambda: (self_obj(c, {}), {"frame_counter": 0x01020304})):
                        if p.terminal == "raise":
                            ctx.ok(1, (meth, v, "rejected-raises"))
                            continue
                        discarded = []
                        for g in repo.all_functions():
                            if g.mod.startswith("bellows.cli"):
                                continue
                            import ast as _ast

                            for st in _ast.walk(g.node):
                                if isinstance(st, _ast.Expr) and isinstance(st.value, _ast.Await) and isinstance(st.value.value, _ast.Call) \
                                        and isinstance(st.value.value.func, _ast.Attribute) and st.value.value.func.attr == meth:
                                    discarded.append(g.short)
                        reported = isinstance(p.value, Member) and p.value.value != 0
                        ctx.require(reported and not discarded, f"{meth}:v{v}:rejected", f"v{v} {meth}: the NCP rejects the write ({fam}.{rej}) and the writer returns "
                                    f"{p.value!r}{' which ' + ', '.join(sorted(set(discarded))) + ' discards' if discarded else ''}: the restore goes on as if the counter had been "
                                    "stored (the network then starts with frame counter 0)", func=m, trace=p.trace(10))
        if v >= 13:
            m = c.method("get_network_key")
            sl = repo.cls(NAMED, "sl_Status").members()["OK"]
            info = Obj(TypeRef("KeyInfo"), {"network_key_set": True, "network_key_frame_counter": Sym("info.fc"), "network_key_sequence_number": Sym("info.seq")}, tag="info")
            exp = Outcomes(OK((Sym("exported_key"), sl))) if v == 13 else Outcomes(OK((sl, Sym("exported_key"), Sym("ctx"))))
            px = PX(repo, models=[("self.exportKey", exp), ("self.getNetworkKeyInfo", Outcomes(OK((sl, info)))),
                                  ("zigpy.state.Key", lambda px_, t, a, k, fr: Obj(TypeRef("zigpy.state.Key"), dict(k), tag="zkey"))],
                    inline=same_class())
            for p in px.explore(m, lambda: (self_obj(c, {}), {})):
                z = p.value
                ok = (p.terminal == "return" and isinstance(z, Obj) and z.fields.get("key") == Sym("exported_key") and z.fields.get("tx_counter") == Sym("info.fc")
                      and z.fields.get("seq") == Sym("info.seq"))
                ctx.require(ok, f"get_network_key:v{v}", f"v{v} get_network_key returns {z!r:.120}; key/tx_counter/seq must come from the exported key and the key "
                            "info's frame counter / sequence number", func=m)
            # which key is exported: the current network key / the trust-centre link key (slot 0, not derived), and the TC key read returns it
            for meth, want_type in (("get_network_key", "NETWORK"), ("get_tc_link_key", "TC_LINK")):
                m = c.method(meth)
                for p in px.explore(m, lambda: (self_obj(c, {}), {})):
                    ex = [e for e in p.events if e.kind == "await" and e.what == "self.exportKey"]
                    if p.terminal != "return" or len(ex) != 1:
                        ctx.require(False, f"{meth}:export:v{v}", f"v{v} {meth}: {p.terminal} after {len(ex)} exportKey request(s); one export and a key returned", func=m)
                        continue
                    cx = ex[0].kwargs.get("context", ex[0].args[0] if ex[0].args else None)
                    if not isinstance(cx, Obj) or "core_key_type" not in cx.fields:
                        raise AnalysisError(f"v{v} {meth}: the export context is {cx!r:.80}, not a structure this rule can read")
                    kt, ki, dt = cx.fields.get("core_key_type"), cx.fields.get("key_index", 0), cx.fields.get("derived_type")
                    ok = isinstance(kt, Member) and kt.name == want_type and ki == 0 and (dt is None or (isinstance(dt, Member) and dt.value == 0))
                    ctx.require(ok, f"{meth}:export-context:v{v}", f"v{v} {meth} exports key type {kt!r}, index {ki!r}, derivation {dt!r}; the restored "
                                f"{'network key is the current one' if want_type == 'NETWORK' else 'trust-centre link key'} ({want_type}, index 0, not derived)", func=m)
                    if meth == "get_tc_link_key":
                        z = p.value
                        ctx.require(isinstance(z, Obj) and z.fields.get("key") == Sym("exported_key"), f"get_tc_link_key:v{v}",
                                    f"v{v} get_tc_link_key returns {z!r:.100}; the key must be the exported one", func=m)


@rule("R14.9", ["C14"], "T-FUN", floor=11)
def r14_9(ctx):
    """Link-key table read-back with a gap: in every version, for a key table of three slots of which the middle one is
    empty (the NCP refused that entry on restore, or it was erased), read_link_keys yields exactly the keys of the first
    and the third slot, in that order, each with the data of its own slot; an empty slot is skipped, it does not end the
    read (keys are written by index, so a refused entry leaves a gap in front of the entries that follow)."""
    repo = ctx.repo
    es = repo.cls(NAMED, "EmberStatus").members()
    ez = repo.cls(NAMED, "EzspStatus").members()
    sl = repo.cls(NAMED, "sl_Status").members()
    for v in VERSIONS:
        c = repo.cls(f"bellows.ezsp.v{v}", f"EZSPv{v}")
        m = c.method("read_link_keys")
        ctx.fn(m)
        cmds = repo.get(f"bellows.ezsp.v{v}.commands", "COMMANDS")
        cfg_rx = cmds["getConfigurationValue"][2]
        cfg_ok = sl["OK"] if getattr(list(cfg_rx.values())[0], "name", "") == "sl_Status" else ez["SUCCESS"]

        def answer(px_, t, a, k, fr, cmds=cmds, v=v):
            rx = cmds[t.rsplit(".", 1)[-1]][2]
            i = k.get("index", a[0] if a else None)
            i = int(i) if isinstance(i, int) else None
            if i not in (0, 1, 2):
                raise AnalysisError(f"read_link_keys asks for slot {i!r}")
            empty = i == 1
            st_t = getattr(rx.get("status"), "name", "")
            status = (sl["NOT_FOUND"] if empty else sl["OK"]) if st_t == "sl_Status" else (es["TABLE_ENTRY_ERASED"] if empty else es["SUCCESS"])
            vals = {"status": status, "eui64": Sym(f"eui{i}"), "plaintext_key": Sym(f"key{i}"), "keyStruct": Sym(f"keystruct{i}"),
                    "key_data": Obj(TypeRef("KeyData"), {"outgoing_frame_counter": Sym(f"tx{i}"), "incoming_frame_counter": Sym(f"rx{i}")}, tag=f"kd{i}"),
                    "context": Obj(TypeRef("Context"), {"eui64": Sym(f"eui{i}")}, tag=f"ctx{i}")}
            missing = [n for n in rx if n not in vals]
            if missing:
                raise AnalysisError(f"v{v} key read response has fields {missing} this rule has no value for")
            return tuple(vals[n] for n in rx)

        px = PX(repo, inline=same_class(),
                models=[("self.getConfigurationValue", Outcomes(OK((cfg_ok, 3)))), ("self.exportLinkKeyByIndex", answer), ("self.getKeyTableEntry", answer),
                        ("ezsp_key_to_zigpy_key", lambda px_, t, a, k, fr: Sym(f"zigpy({getattr(a[0], 'tag', a[0])})")),
                        ("util.ezsp_key_to_zigpy_key", lambda px_, t, a, k, fr: Sym(f"zigpy({getattr(a[0], 'tag', a[0])})"))])
        for p in px.explore(m, lambda: (self_obj(c, {}), {})):
            ctx.paths += 1
            ys = [e for e in p.events if e.kind == "yield"]
            got = []
            for e in ys:
                val = e.args[0] if e.args else None
                src = next((x for x in p.events if x.kind in ("call", "new") and x.extra is not None and x.extra == val), None)
                desc = repr(val) + repr(src.kwargs if src is not None else "")
                got.append(next((i for i in (0, 1, 2) if f"key{i}" in desc or f"keystruct{i}" in desc), None))
            ctx.require(p.terminal == "return" and got == [0, 2], f"gap:v{v}", f"v{v} read_link_keys over slots [key, empty, key] yields the keys of slots {got} "
                        f"({p.terminal} {p.value if p.terminal == 'raise' else ''}); must be [0, 2]: an empty slot is skipped, not the end of the table", func=m,
                        trace=p.trace(16))


@rule("R14.10", ["C14"], "T-FLOW", floor=11)
def r14_10(ctx):
    """Every link key of the backup reaches the NCP, in every version, through the application *and* the version's handler
    as one program: write_network_info is evaluated with a key table of two keys (each with a partner address) and the
    very object it hands to write_link_keys - a list, a filtered copy, a generator - is consumed by that version's
    write_link_keys; the NCP must receive exactly one key-table write per key, in order, each carrying that key's partner
    address and key data (an iterable that the handler walks twice, or a filter that drops keys with a partner, loses keys
    silently: the restore still reports success)."""
    repo = ctx.repo
    f = repo.func(f"{APP}:ControllerApplication.write_network_info")
    ctx.fn(f)
    es = repo.cls(NAMED, "EmberStatus").members()
    sl = repo.cls(NAMED, "sl_Status").members()
    for version in VERSIONS:
      own = getattr(repo.cls(f"bellows.ezsp.v{version}", f"EZSPv{version}").method("write_link_keys").cls, "name", "") == f"EZSPv{version}"
      for nkeys in ((2, 20) if own else (2,)):
            hcls = repo.cls(f"bellows.ezsp.v{version}", f"EZSPv{version}")
            wl = hcls.method("write_link_keys")
            ok_status = sl["OK"] if version >= 14 else es["SUCCESS"]
            got = []

            def import_model(px, t, a, k, fr):
                got.append((t.split(".")[-1], dict(k), list(a)))
                return (ok_status,)

            def write_link_keys_model(px, t, a, k, fr):
                handler = self_obj(hcls, {}, tag="handler")
                return px.call_function(wl, handler, list(a), dict(k), fr)

            models = [wrap("t.KeyData"), wrap("t.EUI64"), wrap("t.Channels"), ("util.zha_security", lambda px, t, a, k, fr: Sym("isc")),
                      ("os.urandom", lambda px, t, a, k, fr: b"\x01" * 16), ("*.write_link_keys", write_link_keys_model),
                      ("self.importLinkKey", import_model), ("self.addOrUpdateKeyTableEntry", import_model), ("self.setKeyTableEntry", import_model)]
            px = PX(repo, models=models, inline=same_class(stop=("reset_network_info", "_reset", "_ensure_network_running")), max_paths=5000)

            def setup():
                got.clear()
                keys = [Obj(TypeRef("Key"), {"key": Sym(f"keydata{i}"), "partner_ieee": Obj(TypeRef("EUI64"), {}, tag=f"partner{i}"), "tx_counter": 0, "rx_counter": 0,
                                             "seq": 0}, tag=f"key{i}") for i in range(1, nkeys + 1)]
                ni = Obj(TypeRef("NetworkInfo"), {"stack_specific": {"ezsp": {"hashed_tclk": "aa"}}, "network_key": Obj(TypeRef("Key"), {}, tag="ni.network_key"),
                                                  "tc_link_key": Obj(TypeRef("Key"), {}, tag="ni.tc_link_key"), "children": [], "nwk_addresses": {},
                                                  "key_table": keys}, tag="ni")
                ez = Obj(TypeRef("EZSP"), {"ezsp_version": version}, tag="self._ezsp")
                return self_obj(app_cls(ctx), {"_ezsp": ez}), {"network_info": ni, "node_info": Obj(TypeRef("NodeInfo"), {}, tag="node")}

            done = 0
            for p in px.explore(f, setup):
                if p.terminal != "return":
                    continue
                done += 1
                ctx.paths += 1
                # the events of this path (got is shared between paths: rebuild from the trace)
                cmds = [e for e in p.events if e.kind == "await" and e.what.split(".")[-1] in ("importLinkKey", "addOrUpdateKeyTableEntry", "setKeyTableEntry")]
                seen = []
                for e in cmds:
                    vals = list(e.args) + list(e.kwargs.values())
                    partner = next((getattr(v, "tag", None) for v in vals if str(getattr(v, "tag", "")).startswith("partner")), None)
                    key = next((getattr(v, "tag", None) for v in vals if str(getattr(v, "tag", "")).startswith("keydata")), None)
                    seen.append((partner, key))
                flags = [e.kwargs.get("linkKey") for e in cmds if "linkKey" in e.kwargs]
                ctx.require(all(v is True for v in flags), f"link-key-flag:v{version}", f"v{version}: the key-table writes carry linkKey={flags}; a link key is written as a "
                            "link key (True), not as a master key", func=wl, trace=p.trace(20))
                idxs = [e.kwargs.get("index") for e in cmds if "index" in e.kwargs]
                ctx.require(idxs in ([], list(range(nkeys))), f"link-key-index:v{version}", f"v{version}: {nkeys} link keys are written at table indices {idxs}; the table is "
                            "filled from index 0 (a shifted start wastes a slot and pushes the last key out of a full table)", func=wl, trace=p.trace(30))
                want = [(f"partner{i}", f"keydata{i}") for i in range(1, nkeys + 1)]
                ctx.require(seen == want, f"link-keys:v{version}", f"v{version}: a backup with {nkeys} link keys {want[:3]}.. leads to the key-table writes {seen[:24]} "
                            f"({[e.what.split('.')[-1] for e in cmds]}); every key must be written once, in order, with its own partner and key data",
                            func=wl, trace=p.trace(30))
            ctx.anchor(done >= 1, f"write_network_info completes (v{version})")


@rule("R14.11", ["C14"], "T-FUN", floor=12)
def r14_11(ctx):
    """The child table on read-back: in every version read_child_data, over an NCP child table whose slots 0 and 2 are
    occupied and all others empty, yields exactly those two children in order, each as (network address, EUI64, type) of its
    own slot (slot 0 is read; an empty slot is skipped and does not end the scan); and load_network_info records every
    child it is given in `children` and maps its EUI64 to its network address in `nwk_addresses` (also for address-table
    entries) - the direction write_network_info reads the mapping in."""
    repo = ctx.repo
    es = repo.cls(NAMED, "EmberStatus").members()
    sl = repo.cls(NAMED, "sl_Status").members()
    for v in VERSIONS:
        c = repo.cls(f"bellows.ezsp.v{v}", f"EZSPv{v}")
        m = c.method("read_child_data")
        ctx.fn(m)
        cmds = repo.get(f"bellows.ezsp.v{v}.commands", "COMMANDS")
        asked = []

        def answer(px_, t, a, k, fr, cmds=cmds, v=v, asked=asked):
            rx = cmds["getChildData"][2]
            i = k.get("index", a[0] if a else None)
            if not isinstance(i, int):
                raise AnalysisError(f"v{v} read_child_data asks for slot {i!r}")
            asked.append(int(i))
            used = int(i) in (0, 2)
            st_t = getattr(rx.get("status"), "name", "")
            status = (sl["OK"] if used else sl["NOT_JOINED"]) if st_t == "sl_Status" else (es["SUCCESS"] if used else es["NOT_JOINED"])
            child = Obj(TypeRef("EmberChildData"), {"id": Sym(f"nwk{i}"), "eui64": Sym(f"eui{i}"), "type": Sym(f"type{i}")}, tag=f"child{i}")
            vals = {"status": status, "nodeId": Sym(f"nwk{i}"), "childId": Sym(f"nwk{i}"), "eui64": Sym(f"eui{i}"), "childEui64": Sym(f"eui{i}"),
                    "nodeType": Sym(f"type{i}"), "childType": Sym(f"type{i}"), "childData": child, "child_data": child}
            missing = [n for n in rx if n not in vals]
            if missing:
                raise AnalysisError(f"v{v} getChildData response has fields {missing} this rule has no value for")
            return tuple(vals[n] for n in rx)

        px = PX(repo, inline=same_class(), models=[("self.getChildData", answer)], fork_loop_bound=600)
        paths = px.explore(m, lambda: (asked.clear() or self_obj(c, {}), {}))
        ctx.anchor(len(paths) == 1, f"v{v} read_child_data: one path over a concrete table ({len(paths)})")
        for p in paths:
            ctx.paths += 1
            got = [tuple(getattr(x, "tag", x) for x in (e.args[0] if e.args and isinstance(e.args[0], tuple) else e.args)) for e in p.events if e.kind == "yield"]
            want = [("nwk0", "eui0", "type0"), ("nwk2", "eui2", "type2")]
            first = min((e.kwargs.get("index", e.args[0] if e.args else None) for e in p.events if e.kind == "await" and e.what.endswith("getChildData")), default=None)
            ctx.require(p.terminal == "return" and got == want and first == 0, f"children-read:v{v}",
                        f"v{v} read_child_data over a child table with slots 0 and 2 occupied yields {got} (first slot read: {first}, {p.terminal}); must be {want}",
                        func=m, trace=p.trace(12))
    # the application side
    g = repo.func(f"{APP}:ControllerApplication.load_network_info")
    # (addresses are distinct concrete objects: "is this child already listed" is then decided, not guessed)
    E1, E2, E3 = "00:11:22:33:44:55:66:01", "00:11:22:33:44:55:66:02", "00:11:22:33:44:55:66:03"
    extra = [("zigpy.state.NetworkInfo", lambda px, t, a, k, fr: Obj(TypeRef("NetworkInfo"), dict(k), tag="network_info")),
             ("ezsp.read_link_keys", lambda px, t, a, k, fr: [Sym("linkkey1")]),
             ("ezsp.read_child_data", lambda px, t, a, k, fr: [(Sym("cnwk1"), E1, Sym("ctype1")), (Sym("cnwk2"), E2, Sym("ctype2"))]),
             ("ezsp.read_address_table", lambda px, t, a, k, fr: [(Sym("anwk1"), E3)])]
    done = 0
    for p in explore_load(ctx, 0x0084, load_devices=True, extra_models=extra):
        if p.terminal != "return":
            continue
        done += 1
        ctx.paths += 1
        ni = [e for e in p.events if e.kind == "call" and e.what.endswith("NetworkInfo")]
        ctx.anchor(len(ni) == 1, "load_network_info builds one NetworkInfo")
        if isinstance(ni[0].extra, Obj):
            # the network info is a concrete object here: its collections are read at the end, however they were filled
            nio = ni[0].extra
            kt, ch, na = (nio.fields.get(n) for n in ("key_table", "children", "nwk_addresses"))
            ctx.require(kt == [Sym("linkkey1")] and ch == [E1, E2] and
                        na == {E1: Sym("cnwk1"), E2: Sym("cnwk2"), E3: Sym("anwk1")}, "load:devices",
                        f"load_network_info(load_devices=True) records link keys {kt!r}, children {ch!r}, network addresses {na!r}; children are listed by EUI64 and "
                        "nwk_addresses maps EUI64 -> network address (write_network_info looks children up that way)", func=g, trace=p.trace(20))
            continue
        kt, ch, na = (ni[0].kwargs.get(n) for n in ("key_table", "children", "nwk_addresses"))
        kt, ch, na = (list(kt) if isinstance(kt, list) else kt), (list(ch) if isinstance(ch, list) else ch), (dict(na) if isinstance(na, dict) else na)
        # the collections may be filled after the NetworkInfo object was built (appends / item stores on its attributes)
        for e in p.events[p.events.index(ni[0]):]:
            w = str(e.what)
            for name, coll in (("key_table", kt), ("children", ch)):
                if isinstance(coll, list) and e.kind == "call" and w.endswith(f".{name}.append") and e.args:
                    coll.append(e.args[0])
                elif isinstance(coll, list) and e.kind == "call" and w.endswith(f".{name}.extend") and e.args and isinstance(e.args[0], (list, tuple)):
                    coll.extend(e.args[0])
                elif e.kind in ("call", "write") and f".{name}." in w and not w.endswith((".append", ".extend")):
                    raise AnalysisError(f"load_network_info modifies {name} through {w}, which this rule does not model")
            if isinstance(na, dict) and e.kind == "write" and w.endswith(".nwk_addresses[]") and len(e.args) == 2:
                na[e.args[0]] = e.args[1]
            elif ".nwk_addresses." in w and e.kind in ("call", "write"):
                raise AnalysisError(f"load_network_info modifies nwk_addresses through {w}, which this rule does not model")
        ctx.require(kt == [Sym("linkkey1")] and ch == [E1, E2] and
                    na == {E1: Sym("cnwk1"), E2: Sym("cnwk2"), E3: Sym("anwk1")}, "load:devices",
                    f"load_network_info(load_devices=True) records link keys {kt!r}, children {ch!r}, network addresses {na!r}; children are listed by EUI64 and "
                    "nwk_addresses maps EUI64 -> network address (write_network_info looks children up that way)", func=g, trace=p.trace(20))
    ctx.anchor(done >= 1, "load_network_info(load_devices=True) completes")


@rule("R14.12", ["C14"], "T-FUN", floor=4)
def r14_12(ctx):
    """The rewritable EUI64 token is looked for under *both* candidate ids: when the first candidate (the NCP-firmware id) is
    answered with any non-success status - not found, erased, a fatal error - and the second (the RCP-firmware id) holds the
    token, _get_nv3_restored_eui64_key returns the second id; can_rewrite_custom_eui64 then says yes and the restore writes the
    backup's EUI64 (giving up after the first answer leaves the factory address in place and the restored trust-centre data
    name an address the node does not have)."""
    repo = ctx.repo
    ez = repo.cls("bellows.ezsp", "EZSP")
    f = ez.method("_get_nv3_restored_eui64_key")
    ctx.fn(f)
    es = repo.cls(NAMED, "EmberStatus").members()
    sl = repo.cls(NAMED, "sl_Status").members()
    keys = repo.cls(NAMED, "NV3KeyId").members()
    first, second = keys["CREATOR_STACK_RESTORED_EUI64"], keys["NVM3KEY_STACK_RESTORED_EUI64"]
    for label, bad, good in (("legacy:NOT_FOUND", es["NOT_FOUND"], es["SUCCESS"]), ("legacy:TABLE_ENTRY_ERASED", es["TABLE_ENTRY_ERASED"], es["SUCCESS"]),
                             ("legacy:ERR_FATAL", es["ERR_FATAL"], es["SUCCESS"]), ("unified:NOT_FOUND", sl["NOT_FOUND"], sl["OK"]), ("unified:FAIL", sl["FAIL"], sl["OK"])):
        asked = []

        def token(px_, t, a, k, fr, bad=bad, good=good, asked=asked):
            key = k.get("token", a[0] if a else None)
            asked.append(key)
            st_ = good if key == second else bad
            return Outcomes(OK(Obj(TypeRef("TokenData"), {"status": st_, "value": b"\x01\x02\x03\x04\x05\x06\x07\x08"}, tag=f"rsp{len(asked)}")))

        px = PX(repo, models=[("self.getTokenData", token), ("t.EUI64.deserialize", lambda px_, t, a, k, fr: (Sym("eui64"), b""))], inline=same_class())
        paths = px.explore(f, lambda: (asked.clear() or self_obj(ez, {}), {}))
        ctx.anchor(len(paths) == 1, f"_get_nv3_restored_eui64_key: one path on concrete answers ({len(paths)})")
        p = paths[0]
        ctx.paths += 1
        ctx.require(p.terminal == "return" and p.value == second, f"nv3-second-candidate:{label}",
                    f"first candidate token answered {bad!r}, second holds the token: the lookup returns {p.value!r} after asking for "
                    f"{[getattr(e.kwargs.get('token', e.args[0] if e.args else None), 'name', None) for e in p.events if e.kind == 'await' and e.what == 'self.getTokenData']}; "
                    f"it must return {second!r}", func=f, trace=p.trace(10))
