"""C13: incoming NCP callbacks are translated faithfully for every protocol version (also feeds C12's custody rule)."""
from __future__ import annotations

from ..core import rule
from ..errors import AnalysisError
from ..px import OK, PX, RAISE, Outcomes, int_type_of
from ..pxv import Obj, Sym
from ..su import norm
from ..te import ClassRef, Member, TypeRef
from .util import same_class, self_obj

APP = "bellows.zigbee.application"
NAMED = "bellows.types.named"
from ..su import VERSIONS  # noqa: E402  (shared list, filled from EZSP._BY_VERSION)

# role tables over the two naming conventions (frozen; a field name outside them is an analysis error)
ROLES_INCOMING = {"type": "TYPE", "messagetype": "TYPE", "apsframe": "APS", "lasthoplqi": "LQI", "lqi": "LQI", "lasthoprssi": "RSSI",
                  "rssi": "RSSI", "sender": "SENDER", "nwk": "SENDER", "bindingindex": "BINDING", "addressindex": "ADDRIDX",
                  "messagecontents": "PAYLOAD", "message": "PAYLOAD", "eui64": "EUI64", "timestamp": "TIMESTAMP"}
PARAMS_INCOMING = {"message_type": "TYPE", "aps_frame": "APS", "lqi": "LQI", "rssi": "RSSI", "sender": "SENDER", "binding_index": "BINDING",
                   "address_index": "ADDRIDX", "message": "PAYLOAD"}
ROLES_SENT = {"type": "TYPE", "messagetype": "TYPE", "indexordestination": "DEST", "nwk": "DEST", "apsframe": "APS", "messagetag": "TAG",
              "status": "STATUS", "messagecontents": "PAYLOAD", "message": "PAYLOAD"}
PARAMS_SENT = {"message_type": "TYPE", "destination": "DEST", "aps_frame": "APS", "message_tag": "TAG", "status": "STATUS", "message": "PAYLOAD"}
ROLES_JOIN = {"newnodeid": "NWK", "newnodeeui64": "IEEE", "status": "UPDATE", "policydecision": "DECISION", "parentofnewnodeid": "PARENT"}
PARAMS_JOIN = ["NWK", "IEEE", "UPDATE", "DECISION", "PARENT"]
WIRE_KIND = {"LQI": (8, False), "RSSI": (8, True), "SENDER": (16, False), "BINDING": (8, False), "ADDRIDX": (8, False)}


def app_cls(ctx):
    return ctx.repo.cls(APP, "ControllerApplication")


def roles_of_call(ctx, event, method, table):
    """{role: value} of a call of the handler ``method``: arguments bound to the handler's *current* parameter list (by
    position or keyword); a parameter keeps the role of its pinned name, and a renamed parameter the role of its position
    in the pinned order (``table`` lists the pinned names in declaration order)."""
    params = [a.arg for a in ctx.repo.func(f"{APP}:ControllerApplication.{method}").node.args.args][1:]
    bound = dict(event.kwargs)
    for i, a in enumerate(event.args):
        if i < len(params):
            bound[params[i]] = a
    pinned = list(table)
    out = {}
    for i, pn in enumerate(params):
        role = table.get(pn) or (table[pinned[i]] if i < len(pinned) and pinned[i] not in params else None)
        if role is not None and pn in bound:
            out[role] = bound[pn]
    return out


def rx_fields(ctx, v, name, roles):
    cmds = ctx.repo.get(f"bellows.ezsp.v{v}.commands", "COMMANDS")
    if name not in cmds or not isinstance(cmds[name][2], dict):
        raise AnalysisError(f"v{v}: {name} has no field-dict response schema")
    out = []
    for fn, ty in cmds[name][2].items():
        r = roles.get(norm(fn))
        if r is None:
            raise AnalysisError(f"v{v} {name}: field {fn!r} has no role in the frozen role table")
        out.append((fn, r, ty))
    return out


def explore_callback(ctx, v, frame_name, fields, inline=(), models=()):
    repo = ctx.repo
    f = repo.func(f"{APP}:ControllerApplication.ezsp_callback_handler")
    cls = app_cls(ctx)
    stop = {"_handle_frame", "_handle_frame_sent", "_handle_tc_join_handler", "handle_route_error", "handle_route_record", "_handle_id_conflict",
            "connection_lost"} - set(inline)
    px = PX(repo, models=list(models), inline=same_class(stop=stop))

    def setup():
        ez = Obj(TypeRef("EZSP"), {"ezsp_version": v}, tag="self._ezsp")
        return self_obj(cls, {"_ezsp": ez}), {"frame_name": frame_name, "args": [x for x in fields]}

    return f, px.explore(f, setup)


@rule("R13.1", ["C13"], "T-FLOW", floor=33)
def r13_1(ctx):
    """Field-role agreement of the callback unpacking with the response schema of each of the 11 versions: for
    incomingMessageHandler every response field reaches the _handle_frame parameter of the same role (type, APS
    frame, LQI, RSSI, sender, binding index, address index, payload), arity matches, and the wire types of LQI
    (unsigned 8-bit), RSSI (signed 8-bit) and sender (16-bit) agree in all versions; likewise
    trustCenterJoinHandler against _handle_tc_join_handler's positional parameters and incomingRouteErrorHandler
    (normalised status, node)."""
    repo = ctx.repo
    handler = repo.func(f"{APP}:ControllerApplication.ezsp_callback_handler")
    for v in VERSIONS:
        # the application dispatches on frame *names*: a name that a version's table does not carry never fires there
        cmds_v = repo.get(f"bellows.ezsp.v{v}.commands", "COMMANDS")
        gone = [n for n in ("incomingMessageHandler", "messageSentHandler", "trustCenterJoinHandler", "incomingRouteErrorHandler") if n not in cmds_v]
        for n in gone:
            ctx.violation(f"callback-name:{n}:v{v}", f"protocol version {v} has no frame named `{n}` although the application's callback dispatch waits for that "
                          "name: such callbacks are silently ignored on this version", func=handler, file=f"bellows/ezsp/v{v}/commands.py")
        if gone:
            continue
        fl = rx_fields(ctx, v, "incomingMessageHandler", ROLES_INCOMING)
        f, paths = explore_callback(ctx, v, "incomingMessageHandler", [Sym(f"role:{r}") for _, r, _ in fl])
        ctx.fn(f)
        for p in paths:
            ctx.paths += 1
            hf = [e for e in p.events if e.kind == "call" and e.what == "self._handle_frame"]
            bad = None
            if p.terminal != "return" or len(hf) != 1:
                bad = f"{p.terminal} {p.value!r}; {len(hf)} calls of _handle_frame (response has {len(fl)} fields)"
            else:
                got_roles = roles_of_call(ctx, hf[0], "_handle_frame", PARAMS_INCOMING)
                for pn, role in PARAMS_INCOMING.items():
                    if got_roles.get(role) != Sym(f"role:{role}"):
                        bad = (f"_handle_frame parameter for {role} (`{pn}` on the pinned tree) receives {got_roles.get(role)!r}; the v{v} response field of that role "
                               f"is {[fn for fn, r, _ in fl if r == role]}")
                        break
            ctx.require(not bad, f"incoming:v{v}", f"v{v} incomingMessageHandler: {bad}", func=f, trace=p.trace(12))
        for fn, r, ty in fl:
            if r in WIRE_KIND:
                k = (16, False) if getattr(ty, "short", "") == "NWK" else int_type_of(ty)
                ctx.require(k == WIRE_KIND[r], f"incoming-wire:{r}:v{v}", f"v{v} incomingMessageHandler field `{fn}` ({r}) has wire type {ty!r}; every version "
                            f"carries it as {'signed' if WIRE_KIND[r][1] else 'unsigned'} {WIRE_KIND[r][0]}-bit", file=f"bellows/ezsp/v{v}/commands.py")
        # trust centre join
        jl = rx_fields(ctx, v, "trustCenterJoinHandler", ROLES_JOIN)
        f, paths = explore_callback(ctx, v, "trustCenterJoinHandler", [Sym(f"role:{r}") for _, r, _ in jl])
        for p in paths:
            hj = [e for e in p.events if e.kind == "call" and e.what == "self._handle_tc_join_handler"]
            ok = p.terminal == "return" and len(hj) == 1 and not hj[0].kwargs and list(hj[0].args) == [Sym(f"role:{r}") for r in PARAMS_JOIN]
            ctx.require(ok, f"join:v{v}", f"v{v} trustCenterJoinHandler fields {[r for _, r, _ in jl]} reach _handle_tc_join_handler as "
                        f"{[e.args for e in hj]} (expected positional {PARAMS_JOIN})", func=f)
        # route error
        rl = ctx.repo.get(f"bellows.ezsp.v{v}.commands", "COMMANDS")["incomingRouteErrorHandler"][2]
        names = list(rl)
        ctx.require(len(names) == 2 and norm(names[0]) == "status", f"route-error-schema:v{v}", f"v{v} incomingRouteErrorHandler fields {names}")
        es = repo.cls(NAMED, "EmberStatus").members()["SUCCESS"] if getattr(rl[names[0]], "name", "") == "EmberStatus" else repo.cls(NAMED, "sl_Status").members()["OK"]
        f, paths = explore_callback(ctx, v, "incomingRouteErrorHandler", [es, Sym("role:NWK")])
        for p in paths:
            hr = [e for e in p.events if e.kind == "call" and e.what == "self.handle_route_error"]
            ok = (p.terminal == "return" and len(hr) == 1 and isinstance(hr[0].args[0], Member) and hr[0].args[0].cls.name == "sl_Status"
                  and hr[0].args[0].value == 0 and hr[0].args[1] == Sym("role:NWK"))
            ctx.require(ok, f"route-error:v{v}", f"v{v} incomingRouteErrorHandler -> {[e.brief() for e in hr]}", func=f)
    ctx.sample({"v4": [r for _, r, _ in rx_fields(ctx, 4, "incomingMessageHandler", ROLES_INCOMING)],
                "v14": [r for _, r, _ in rx_fields(ctx, 14, "incomingMessageHandler", ROLES_INCOMING)]})


def find_event(p, sym):
    """The opaque-constructor event whose result is ``sym``."""
    for e in p.events:
        if e.kind == "call" and e.extra == sym:
            return e
    return None


@rule("R13.2", ["C13"], "T-FUN", floor=80)
def r13_2(ctx):
    """Packet construction, for versions 4..14 x every member of the incoming message type enum and an undefined
    value: exactly one packet_received for unicast / multicast / broadcast and none otherwise; the packet's source
    is (NWK, sender); source/destination endpoint, APS sequence, profile and cluster come from the APS frame's
    fields of those names (which exist in EmberApsFrame); payload, LQI and RSSI come from the fields of those
    roles; the destination is (NWK, own address) / (Group, APS group id) / (Broadcast, .) by type."""
    repo = ctx.repo
    mt = repo.cls(NAMED, "EmberIncomingMessageType")
    aps_fields = {f[0] for f in repo.cls("bellows.types.struct", "EmberApsFrame").struct_fields()}
    kinds = {"INCOMING_UNICAST": "NWK", "INCOMING_MULTICAST": "Group", "INCOMING_BROADCAST": "Broadcast"}
    members = list(mt.canonical_members()) + [Member(mt, "undefined_0x7f", 0x7F)]
    for v in VERSIONS:
        fl = rx_fields(ctx, v, "incomingMessageHandler", ROLES_INCOMING)
        for m in members:
            vals = [m if r == "TYPE" else Sym(f"role:{r}") for _, r, _ in fl]
            # trusted base: zigpy's device lookups raise KeyError for a sender zigpy does not know (yet)
            f, paths = explore_callback(ctx, v, "incomingMessageHandler", vals, inline=("_handle_frame",),
                                        models=[("self.get_device", Outcomes(OK(Sym("device")), RAISE("KeyError"))),
                                                ("self.get_device_with_address", Outcomes(OK(Sym("device")), RAISE("KeyError")))])
            for p in paths:
                ctx.paths += 1
                pr = [e for e in p.events if e.kind == "call" and e.what == "self.packet_received"]
                key = f"v{v}:{m.name}"
                bad = None
                if p.terminal != "return":
                    bad = f"raises {p.value!r}"
                elif m.name not in kinds:
                    if pr:
                        bad = "a packet is handed to zigpy for a message type that must be ignored"
                elif len(pr) != 1:
                    bad = f"{len(pr)} packets handed to zigpy (must be exactly 1)"
                else:
                    pk = find_event(p, pr[0].args[0]) if pr[0].args else None
                    if pk is None or not pk.what.endswith("ZigbeePacket"):
                        raise AnalysisError("packet_received argument is not a ZigbeePacket(...) constructed in _handle_frame")
                    k = pk.kwargs
                    src = find_event(p, k.get("src"))
                    dst = find_event(p, k.get("dst"))
                    data = find_event(p, k.get("data"))
                    want = {"src_ep": "role:APS.sourceEndpoint", "dst_ep": "role:APS.destinationEndpoint", "tsn": "role:APS.sequence",
                            "profile_id": "role:APS.profileId", "cluster_id": "role:APS.clusterId", "lqi": "role:LQI", "rssi": "role:RSSI"}
                    for pn, tag in want.items():
                        if k.get(pn) != Sym(tag):
                            bad = f"packet field `{pn}` is fed from {k.get(pn)!r}, must come from {tag[5:]}"
                            break
                    if not bad:
                        if not (src and src.kwargs.get("address") == Sym("role:SENDER") and str(src.kwargs.get("addr_mode")).endswith("AddrMode.NWK")):
                            bad = f"packet source is {src.kwargs if src else None!r}, must be (NWK, sender)"
                        elif not (data and data.args[:1] == (Sym("role:PAYLOAD"),)) and k.get("data") != Sym("role:PAYLOAD"):
                            bad = f"packet data is {data.args if data else k.get('data')!r}, must be the callback's payload"
                        elif not dst or not str(dst.kwargs.get("addr_mode")).endswith("AddrMode." + kinds[m.name]):
                            bad = f"destination mode is {dst.kwargs.get('addr_mode') if dst else None!r} for {m.name}"
                        elif kinds[m.name] == "Group" and dst.kwargs.get("address") != Sym("role:APS.groupId"):
                            bad = f"multicast destination is {dst.kwargs.get('address')!r}, must be the APS frame's group id"
                        elif kinds[m.name] == "NWK" and getattr(dst.kwargs.get("address"), "tag", "") != "self.state.node_info.nwk":
                            bad = f"unicast destination is {dst.kwargs.get('address')!r}, must be the coordinator's own address"
                if bad:
                    ctx.violation(f"packet:{m.name}:{bad.split(' ')[0]}{bad.split(' ')[1] if ' ' in bad else ''}"[:60], f"{key}: {bad}", func=f, trace=p.trace(16), construct=key)
                else:
                    ctx.ok(1, key)
    for n in ("sourceEndpoint", "destinationEndpoint", "sequence", "profileId", "clusterId", "groupId"):
        ctx.require(n in aps_fields, f"aps-field:{n}", f"EmberApsFrame has no field {n}")


@rule("R13.3", ["C13"], "T-FUN", floor=28)
def r13_3(ctx):
    """Join / leave triage over every device-update status x every join decision: DEVICE_LEFT -> exactly one
    handle_leave(nwk, ieee) and no join, whatever the decision; otherwise DENY_JOIN -> neither; otherwise exactly one
    handle_join(nwk, ieee, parent)."""
    repo = ctx.repo
    f = repo.func(f"{APP}:ControllerApplication._handle_tc_join_handler")
    ctx.fn(f)
    cls = app_cls(ctx)
    du = repo.cls(NAMED, "EmberDeviceUpdate")
    jd = repo.cls(NAMED, "EmberJoinDecision")
    px = PX(repo, inline=same_class(stop=("cleanup_tc_link_key", "_reset_mfg_id")), models=[("IEEE_PREFIX_MFG_ID.get", Outcomes(OK(None), OK(0x115F))),
                                                      ("self._mfg_id_task.done", Outcomes(OK(True), OK(False)))])
    for s in list(du.canonical_members()) + [Member(du, "undefined_0x7f", 0x7F)]:
        for d in list(jd.canonical_members()) + [Member(jd, "undefined_0x7f", 0x7F)]:
            def setup():
                return (self_obj(cls, {"_mfg_id_task": None}), {"nwk": Sym("nwk"), "ieee": Sym("ieee"), "device_update_status": s, "decision": d,
                                                              "parent_nwk": Sym("parent")})

            for p in px.explore(f, setup):
                ctx.paths += 1
                lv = [e for e in p.events if e.kind == "call" and e.what == "self.handle_leave"]
                jn = [e for e in p.events if e.kind == "call" and e.what == "self.handle_join"]
                if s.name == "DEVICE_LEFT":
                    ok = len(lv) == 1 and lv[0].args == (Sym("nwk"), Sym("ieee")) and not jn
                elif d.name == "DENY_JOIN":
                    ok = not lv and not jn
                else:
                    ok = not lv and len(jn) == 1 and jn[0].args == (Sym("nwk"), Sym("ieee"), Sym("parent"))
                ctx.require(ok and p.terminal == "return", f"triage:{s.name}:{d.name}", f"status {s.name}, decision {d.name}: leaves {[e.args for e in lv]}, "
                            f"joins {[e.args for e in jn]}, {p.terminal}", func=f, trace=p.trace(10))


@rule("R13.4", ["C13"], "T-FUN", floor=2)
def r13_4(ctx):
    """The unicast destination is the coordinator's address *at the time of the callback*: two unicast callbacks
    with the own network address changed in between (re-assigned address, node info reloaded) yield packets addressed
    to the first and then to the second address - a remembered destination would go stale."""
    repo = ctx.repo
    f = repo.func(f"{APP}:ControllerApplication.ezsp_callback_handler")
    cls = app_cls(ctx)
    mt = repo.cls(NAMED, "EmberIncomingMessageType").members()["INCOMING_UNICAST"]
    for v in (8, 14):
        fl = rx_fields(ctx, v, "incomingMessageHandler", ROLES_INCOMING)
        vals = [mt if r == "TYPE" else Sym(f"role:{r}") for _, r, _ in fl]
        px = PX(repo, inline=same_class(stop=("handle_route_error", "handle_route_record", "_handle_id_conflict", "connection_lost", "_handle_frame_sent")))
        px.inline.root = f

        def entry():
            node = Obj(TypeRef("NodeInfo"), {"nwk": Sym("own1")}, tag="node_info")
            state = Obj(TypeRef("State"), {"node_info": node, "counters": Sym("counters")}, tag="state")
            me = self_obj(cls, {"_ezsp": Obj(TypeRef("EZSP"), {"ezsp_version": v}, tag="self._ezsp"), "state": state})
            px.top_frame = None
            px.call_function(f, me, ["incomingMessageHandler", list(vals)], {}, None)
            node.fields["nwk"] = Sym("own2")
            px.call_function(f, me, ["incomingMessageHandler", list(vals)], {}, None)
            return None

        for p in px._run(entry):
            ctx.paths += 1
            pr = [e for e in p.events if e.kind == "call" and e.what == "self.packet_received"]
            dsts = []
            for e in pr:
                pk = find_event(p, e.args[0]) if e.args else None
                d = find_event(p, pk.kwargs.get("dst")) if pk is not None else None
                dsts.append(d.kwargs.get("address") if d is not None else None)
            ctx.require(p.terminal == "return" and dsts == [Sym("own1"), Sym("own2")], f"own-address-current:v{v}",
                        f"v{v}: two unicasts around an own-address change are addressed to {dsts!r}; must be [own1, own2]", func=f, trace=p.trace(16))


@rule("R13.5", ["C13", "C12"], "T-FUN", floor=2)
def r13_5(ctx):
    """The field order used to unpack a callback is the one of the protocol version of the EZSP object that is attached
    *now*: on one application object, an incoming-message and a message-sent callback are handled under one version, the
    EZSP object is replaced by one of a version across the v14 field-order boundary (reconnect after a firmware change;
    connect() creates a new EZSP object), and the same callbacks are handled again - both times every field reaches the
    handler parameter of its role.  A dispatch decision remembered from the first connection would mis-unpack (or drop)
    every later callback."""
    repo = ctx.repo
    f = repo.func(f"{APP}:ControllerApplication.ezsp_callback_handler")
    ctx.fn(f)
    cls = app_cls(ctx)
    lo = max(v for v in VERSIONS if v < 14) if any(v < 14 for v in VERSIONS) else None
    hi = min(v for v in VERSIONS if v >= 14) if any(v >= 14 for v in VERSIONS) else None
    if lo is None or hi is None:
        raise AnalysisError("no pair of supported versions across the v14 field-order boundary")
    stop = {"_handle_frame", "_handle_frame_sent", "_handle_tc_join_handler", "handle_route_error", "handle_route_record", "_handle_id_conflict", "connection_lost"}
    hf_params = [a.arg for a in repo.func(f"{APP}:ControllerApplication._handle_frame").node.args.args][1:]
    hs_params = [a.arg for a in repo.func(f"{APP}:ControllerApplication._handle_frame_sent").node.args.args][1:]
    es_ok = repo.cls(NAMED, "EmberStatus").members()["SUCCESS"]
    for first, second in ((lo, hi), (hi, lo)):
        px = PX(repo, inline=same_class(stop=stop))
        px.inline.root = f

        def vals(v, name, roles):
            out = []
            for _, r, ty in rx_fields(ctx, v, name, roles):
                if r == "STATUS" and getattr(ty, "name", "") == "EmberStatus":
                    out.append(es_ok)  # legacy status value: normalised before it is handed on
                else:
                    out.append(Sym(f"role:{r}"))
            return out

        def entry():
            me = self_obj(cls, {"_ezsp": Obj(TypeRef("EZSP"), {"ezsp_version": first}, tag="self._ezsp")})
            px.top_frame = None
            for v in (first, second):
                me.fields["_ezsp"] = Obj(TypeRef("EZSP"), {"ezsp_version": v}, tag="self._ezsp")
                px.emit("mark", f"v{v}")
                px.call_function(f, me, ["incomingMessageHandler", vals(v, "incomingMessageHandler", ROLES_INCOMING)], {}, None)
                px.call_function(f, me, ["messageSentHandler", vals(v, "messageSentHandler", ROLES_SENT)], {}, None)
            return None

        for p in px._run(entry):
            ctx.paths += 1
            key = f"reconnect:v{first}->v{second}"
            bad = None
            if p.terminal != "return":
                bad = f"raises {p.value!r}"
            else:
                hf = [e for e in p.events if e.kind == "call" and e.what == "self._handle_frame"]
                hs = [e for e in p.events if e.kind == "call" and e.what == "self._handle_frame_sent"]
                if len(hf) != 2 or len(hs) != 2:
                    bad = f"{len(hf)} incoming / {len(hs)} sent callbacks reach their handlers (2 / 2 expected)"
                for which, evs, params, table in (("_handle_frame", hf, hf_params, PARAMS_INCOMING), ("_handle_frame_sent", hs, hs_params, PARAMS_SENT)):
                    for i, e in enumerate(evs):
                        if bad:
                            break
                        got_roles = roles_of_call(ctx, e, which, table)
                        for pn, role in table.items():
                            got = got_roles.get(role)
                            if role == "STATUS":
                                ok = isinstance(got, Member) and got.cls.name == "sl_Status" and got.value == 0 or got == Sym("role:STATUS")
                            else:
                                ok = got == Sym(f"role:{role}")
                            if not ok:
                                bad = (f"callback #{i + 1} (version {(first, second)[i]}): {which} parameter `{pn}` receives {got!r}, not the field of role {role} "
                                       f"in that version's order")
                                break
            ctx.require(not bad, key, f"versions {first} then {second} on one application object: {bad}", func=f, trace=p.trace(14))


@rule("R13.6", ["C13"], "T-FUN", floor=3)
def r13_6(ctx):
    """The coordinator's own address stays usable while the network information is being (re)loaded: load_network_info runs on a
    live network (every periodic backup reloads it) and is suspended at each of its NCP reads; at every one of those suspension
    points the node info the callback path reads (state.node_info.nwk, the destination of incoming unicasts) is either the one
    from before the reload or the newly read one - never a placeholder object whose address has not been filled in yet."""
    repo = ctx.repo
    g = repo.func(f"{APP}:ControllerApplication.load_network_info")
    ctx.fn(g)
    es = repo.cls(NAMED, "EmberStatus").members()
    csb = repo.cls(NAMED, "EmberCurrentSecurityBitmask")
    nt = repo.cls(NAMED, "EmberNodeType").members()["COORDINATOR"]
    holder, seen = {}, []

    def observe(what):
        me = holder.get("me")
        st = me.fields.get("state") if isinstance(me, Obj) else None
        ni = st.fields.get("node_info") if isinstance(st, Obj) else None
        if not isinstance(ni, Obj):
            raise AnalysisError(f"state.node_info is not an object while load_network_info waits for {what}: {ni!r}")
        seen.append((what, ni.fields.get("nwk", "<not set>")))

    def obs(pattern, outcome):
        def m(px, t, a, k, fr):
            observe(pattern)
            return outcome() if callable(outcome) else outcome
        return (pattern, m)

    sec = Obj(TypeRef("State"), {"bitmask": Member(csb, "bitmask_0x0004", 0x0004)}, tag="secstate")
    models = [obs("ezsp.getNetworkParameters", Outcomes(OK((es["SUCCESS"], nt, Sym("nwk_params"))))),
              obs("ezsp.getNodeId", Outcomes(OK((Sym("new_nwk"),)))), obs("ezsp.getEui64", Outcomes(OK((Sym("ieee"),)))),
              obs("self._get_board_info", Outcomes(OK((None, None, None)))),
              obs("ezsp.getConfigurationValue", Outcomes(OK((es["SUCCESS"], 5)))),
              obs("ezsp.get_network_key", lambda: Outcomes(OK(Obj(TypeRef("Key"), {"key": Sym("nk")}, tag="nk")))),
              obs("ezsp.get_tc_link_key", lambda: Outcomes(OK(Obj(TypeRef("Key"), {"key": Obj(TypeRef("KeyData"), {}, tag="tclk.key")}, tag="tclk")))),
              obs("ezsp.getCurrentSecurityState", Outcomes(OK((es["SUCCESS"], sec)))),
              obs("self._ensure_network_running", Outcomes(OK(False))),
              ("zigpy.types.KeyData", lambda px, t, a, k, fr: Obj(TypeRef("KeyData"), {"v": a[0]}, tag="wellknown")),
              ("*.NodeInfo", lambda px, t, a, k, fr: Obj(TypeRef("NodeInfo"), dict(k), tag="new_node_info")),
              ("*.NWK", lambda px, t, a, k, fr: Sym(f"NWK({getattr(a[0], 'tag', a[0])})") if a else Sym("NWK()"))]
    px = PX(repo, models=models, inline=same_class(), max_paths=200,
            facts={"(self.state.node_info.logical_type == zigpy.zdo.types.LogicalType.Coordinator)": True})

    def setup():
        seen.clear()
        node = Obj(TypeRef("NodeInfo"), {"nwk": Sym("old_nwk"), "ieee": Sym("old_ieee"), "logical_type": Sym("lt")}, tag="node_info")
        state = Obj(TypeRef("State"), {"node_info": node, "network_info": Sym("old_network_info"), "counters": Sym("counters")}, tag="state")
        holder["me"] = self_obj(app_cls(ctx), {"_ezsp": Obj(TypeRef("EZSP"), {"ezsp_version": 8}, tag="ezsp"), "state": state})
        return holder["me"], {"load_devices": False}

    def is_addr(v):
        return v == Sym("old_nwk") or "new_nwk" in repr(v)

    n = 0
    for p in px.explore(g, setup):
        ctx.paths += 1
        n += 1
        bad = [(w, v) for w, v in seen if not is_addr(v)]
        ctx.require(not bad, "own-address-during-reload", f"while load_network_info waits for {bad[0][0] if bad else ''} the own network address read by the callback path is "
                    f"{bad[0][1] if bad else ''!r} - neither the address from before the reload nor the newly read one; an incoming unicast handled at that moment is "
                    "addressed to a placeholder", func=g, trace=p.trace(20))
        if p.terminal == "return":
            st = p.store["self"].get("state")
            ni = st.fields.get("node_info") if isinstance(st, Obj) else None
            v = ni.fields.get("nwk") if isinstance(ni, Obj) else None
            ctx.require(v is not None and "new_nwk" in repr(v), "own-address-after-reload", f"after the reload the own address is {v!r}, not the one just read from the NCP", func=g)
            ctx.require(len(seen) >= 5, "reload-suspension-points", f"only {len(seen)} NCP reads observed", func=g)
    ctx.anchor(n >= 1, "load_network_info explored")
