"""C17: event-completed operations never miss their completing event or leak listeners."""
from __future__ import annotations

from ..core import rule
from ..errors import AnalysisError
from ..idx import index
from ..px import OK, PX, RAISE, Closure, Outcomes
from ..pxv import Obj, Sym
from ..te import FuncRef, Member, Record, TypeRef
from .util import anchor_attrs
from .util import const, fut, same_class, self_obj

EZ = "bellows.ezsp"
APP = "bellows.zigbee.application"
NAMED = "bellows.types.named"


def statuses(ctx):
    return ctx.repo.cls(NAMED, "EmberStatus").members(), ctx.repo.cls(NAMED, "sl_Status").members()


def op_specs(ctx):
    es, sl = statuses(ctx)
    ez = ctx.repo.cls(EZ, "EZSP")
    app = ctx.repo.cls(APP, "ControllerApplication")
    return [
        # (qualified function, class, command await text, wanted event status, ok result, refused result, args, receiver prefix)
        (f"{EZ}:EZSP.formNetwork", ez, "self._command", "NETWORK_UP", [es["SUCCESS"]], [es["ERR_FATAL"]], {"parameters": Sym("params")}, "self"),
        (f"{EZ}:EZSP.leaveNetwork", ez, "self._command", "NETWORK_DOWN", (sl["OK"],), (sl["FAIL"],), {}, "self"),
        (f"{APP}:ControllerApplication._ensure_network_running", app, "self._ezsp.initialize_network", "NETWORK_UP", sl["OK"], sl["FAIL"], {}, "self._ezsp"),
    ]


def _finite_timeout(p, wait_ev):
    ent = [e for e in p.events[: p.events.index(wait_ev)] if e.kind == "enter" and e.what.endswith("asyncio_timeout")]
    if not ent:
        return False
    a = ent[-1].args[0] if ent[-1].args else None
    return isinstance(a, (int, float)) and not isinstance(a, bool) and 0 < a <= 600


@rule("R17.1", ["C17", "C14"], "T-ORD", floor=20)
def r17_1(ctx):
    """formNetwork, leaveNetwork and network bring-up, over command outcomes {accepted, refused, raises,
    cancelled} x event wait {arrives, timeout, cancelled}: the listener for the matching status (NETWORK_UP /
    NETWORK_DOWN / NETWORK_UP) is in the listener list before the command is issued (so an event arriving before
    the command's own response is seen); a refusal raises before waiting; the wait is inside asyncio_timeout and
    inside the listener's scope; the operation returns normally only after command acceptance and event arrival;
    and on every exit - success, refusal, exception, timeout, cancellation - the listener list is empty again."""
    anchor_attrs(ctx, "EZSP", "_stack_status_listeners", "_callbacks")
    repo = ctx.repo
    es, sl = statuses(ctx)
    ezc = repo.cls(EZ, "EZSP")
    for q, cls, cmd_text, want, ok_res, bad_res, args, recv in op_specs(ctx):
        f = repo.func(q)
        ctx.fn(f)
        listeners = {}
        models = [(cmd_text, Outcomes(OK(ok_res), OK(bad_res), RAISE("EzspError"), RAISE("TimeoutError"), RAISE("CancelledError"))),
                  ("await:listener", Outcomes(OK(sl[want]), RAISE("TimeoutError"), RAISE("CancelledError"))),
                  ("*.create_future", lambda px, t, a, k, fr: fut("listener")),
                  # the state query that decides whether bring-up is needed says "no network"; any later poll of the same query (a
                  # fall-back after a missing event) says "joined": the event still has to be seen
                  ("self._ezsp.networkState", lambda px_, t, a, k, fr: (holder.__setitem__("polls", holder.get("polls", 0) + 1),
                                                                        Outcomes(OK((repo.cls(NAMED, "EmberNetworkStatus").members()[
                                                                            "NO_NETWORK" if holder["polls"] == 1 else "JOINED_NETWORK"],))))[1])]
        px = PX(repo, models=models, inline=same_class(extra=("from_ember_status", "wait_for_stack_status")))
        holder = {}

        def setup():
            holder["polls"] = 0
            holder["lst"] = {m: [] for m in (sl["NETWORK_UP"], sl["NETWORK_DOWN"])}
            ez_fields = {"_stack_status_listeners": holder["lst"]}
            if recv == "self":
                return self_obj(cls, ez_fields), dict(args)
            return self_obj(cls, {"_ezsp": Obj(ezc, ez_fields, tag="self._ezsp")}), dict(args)

        paths = px.explore(f, setup)
        ctx.paths += len(paths)
        ctx.anchor(len(paths) >= 6, f"{f.short}: outcome paths")
        for p in paths:
            store = p.store["self"]
            lst = (store if recv == "self" else store["_ezsp"].fields)["_stack_status_listeners"]
            cmd = [e for e in p.events if e.kind == "await" and e.what == cmd_text and (cmd_text != "self._command" or e.args[:1] == (f.name,))]
            app_ = [e for e in p.events if e.kind == "write" and e.what.endswith(".append")]
            wait = [e for e in p.events if e.kind == "await" and e.what == "listener"]
            cmy = [e for e in p.events if e.kind == "cm-yield"]
            pid = f"{f.name}:[{str(cmd[0].extra)[:30] if cmd else '-'}/{str(wait[0].extra)[:24] if wait else '-'}]"
            bad = None
            if len(cmd) != 1:
                bad = f"{len(cmd)} command awaits"
            elif not app_ or p.events.index(app_[0]) > p.events.index(cmd[0]):
                bad = "the command is issued before the status listener is registered: an event arriving before the command's response is missed"
            elif not (app_[0].args and getattr(app_[0].args[0], "tag", None) == "listener"):
                bad = f"registered listener is {app_[0].args!r}"
            elif any(lst[k] for k in lst):
                left = {k.name: len(v) for k, v in lst.items() if v}
                bad = f"listener(s) left registered after the operation ended ({p.terminal} {p.value if p.terminal == 'raise' else ''}): {left}"
            else:
                key_used = [k for k, v in holder["lst"].items() if any(e.kind == "write" and e.what.endswith(".append") for e in p.events)]
                accepted = cmd[0].extra == ok_res
                refused = cmd[0].extra == bad_res
                if refused and (wait or p.terminal != "raise"):
                    bad = f"refused command: {'waits for the event' if wait else ''} {p.terminal}"
                elif accepted:
                    if len(wait) != 1:
                        bad = f"accepted command followed by {len(wait)} event waits"
                    elif not any(c.endswith("asyncio_timeout") for c in wait[0].ctx):
                        bad = "event wait is not bounded by asyncio_timeout"
                    elif not _finite_timeout(p, wait[0]):
                        bad = ("the event wait's asyncio_timeout(...) argument is not a positive number (None means no deadline): the operation can wait "
                               "forever for an event that never arrives")
                    elif wait[0].args[:1] and getattr(wait[0].args[0], "tag", None) != "listener":
                        bad = f"the awaited future {wait[0].args!r} is not the registered listener"
                    elif (p.terminal == "return") != (wait[0].extra == sl[want]):
                        bad = f"event wait ended with {wait[0].extra!r} but the operation {p.terminal}s"
                elif not refused and p.terminal != "raise":
                    bad = "command failed but the operation returns normally"
                # the listener is registered under the wanted status
                wf = [e for e in p.events if e.kind == "call" and e.what.endswith("wait_for_stack_status")]
                if not bad and not (wf and wf[0].args[:1] == (sl[want],)):
                    bad = f"waits for stack status {wf[0].args if wf else None!r}, must be {want}"
            if bad:
                ctx.violation(f"{f.name}:{bad.split(':')[0][:45]}", f"{pid}: {bad}", func=f, trace=p.trace(40), construct=pid)
            else:
                ctx.ok(1, pid)
    # bring-up is skipped only when the NCP reports the network as joined
    g = repo.func(f"{APP}:ControllerApplication._ensure_network_running")
    ns = repo.cls(NAMED, "EmberNetworkStatus")
    app = repo.cls(APP, "ControllerApplication")
    for m in list(ns.canonical_members()) + [Member(ns, "undefined_0x7f", 0x7F)]:
        px = PX(repo, models=[("self._ezsp.networkState", Outcomes(OK((m,)))), ("self._ezsp.initialize_network", Outcomes(OK(sl["OK"]))),
                              ("await:listener", Outcomes(OK(sl["NETWORK_UP"]))), ("*.create_future", lambda px_, t, a, k, fr: fut("listener"))],
                inline=same_class(extra=("from_ember_status", "wait_for_stack_status")))
        for p in px.explore(g, lambda: (self_obj(app, {"_ezsp": Obj(ezc, {"_stack_status_listeners": {sl["NETWORK_UP"]: [], sl["NETWORK_DOWN"]: []}}, tag="self._ezsp")}), {})):
            init = [e for e in p.events if e.kind == "await" and e.what == "self._ezsp.initialize_network"]
            skipped = not init
            ctx.require(skipped == (m.name == "JOINED_NETWORK") and p.terminal == "return" and p.value == (not skipped), f"bring-up:state:{m.name}",
                        f"network state {m.name}: bring-up {'skipped' if skipped else 'performed'}, returns {p.value!r}; only JOINED_NETWORK means the network "
                        "is already running", func=g, trace=p.trace(10))
    for name in ("NETWORK_OPS_TIMEOUT",):
        ctx.require(0 < const(ctx, EZ, name) <= 120, name, f"{name} out of range")
    ctx.require(0 < const(ctx, APP, "NETWORK_UP_TIMEOUT_S") <= 120, "NETWORK_UP_TIMEOUT_S", "NETWORK_UP_TIMEOUT_S out of range")


@rule("R17.3", ["C17", "C18"], "T-FUT", floor=4)
def r17_3(ctx):
    """Status fan-out: stack_status_callback normalises the reported status and completes every open listener of
    that status; a listener that is already done (e.g. cancelled but not yet removed) neither raises nor prevents the
    later ones from being completed; other frames and other statuses complete nothing."""
    repo = ctx.repo
    es, sl = statuses(ctx)
    f = repo.func(f"{EZ}:EZSP.stack_status_callback")
    ctx.fn(f)
    cls = repo.cls(EZ, "EZSP")
    for done_first in (False, True):
        def set_result(px, t, a, k, fr):
            if getattr(px, "_callee", "").startswith("f1.") and done_first:
                return Outcomes(RAISE("InvalidStateError"))
            return Outcomes(OK(None))

        def done(px, t, a, k, fr):
            return bool(getattr(px, "_callee", "").startswith("f1.") and done_first)

        def cancelled(px, t, a, k, fr):
            return bool(getattr(px, "_callee", "").startswith("f1.") and done_first)

        px = PX(repo, models=[("*.set_result", set_result), ("*.done", done), ("*.cancelled", cancelled)], inline=same_class())
        for st_in, want in ((es["NETWORK_UP"], "NETWORK_UP"), (sl["NETWORK_UP"], "NETWORK_UP"), (es["NETWORK_DOWN"], "NETWORK_DOWN")):
            def setup():
                return (self_obj(cls, {"_stack_status_listeners": {sl["NETWORK_UP"]: [fut("f1"), fut("f2")], sl["NETWORK_DOWN"]: [fut("d1")]}}),
                        {"frame_name": "stackStatusHandler", "args": [st_in]})

            for p in px.explore(f, setup):
                ctx.paths += 1
                sr = [e for e in p.events if e.kind == "call" and e.what.endswith(".set_result") and not str(e.extra).startswith("raises")]
                got = sorted(e.callee.split(".")[0] for e in sr)
                exp = (["f2"] if done_first else ["f1", "f2"]) if want == "NETWORK_UP" else ["d1"]
                ok = p.terminal == "return" and got == exp and all(isinstance(e.args[0], Member) and e.args[0].name == want for e in sr)
                ctx.require(ok, f"fanout:done_first={done_first}", f"status {st_in!r} with listeners [f1{'(done)' if done_first else ''}, f2 | d1]: completes {got} "
                            f"(expected {exp}), {p.terminal} {p.value if p.terminal == 'raise' else ''}", func=f, trace=p.trace(12), props=("C17",))
    # every legacy status byte (defined or not): only the legacy NETWORK_UP code completes the waiters for "network up" and only
    # NETWORK_DOWN those for "network down" - a stray or unknown status must not be taken for the awaited event
    ec = repo.cls(NAMED, "EmberStatus")
    by_val = {}
    for m in ec.members().values():
        by_val.setdefault(m.value, m)
    pxa = PX(repo, models=[("*.set_result", Outcomes(OK(None))), ("*.done", lambda px_, t, a, k, fr: False), ("*.cancelled", lambda px_, t, a, k, fr: False)], inline=same_class())
    for v in range(256):
        m = by_val.get(v) or Member(ec, f"undefined_0x{v:02x}", v)
        import collections as _c
        for p in pxa.explore(f, lambda: (self_obj(cls, {"_stack_status_listeners": _c.defaultdict(list, {sl["NETWORK_UP"]: [fut("u1")], sl["NETWORK_DOWN"]: [fut("d1")]})}),
                                         {"frame_name": "stackStatusHandler", "args": [m]})):
            ctx.paths += 1
            got = sorted(e.callee.split(".")[0] for e in p.events if e.kind == "call" and e.what.endswith(".set_result"))
            exp = ["u1"] if m.name == "NETWORK_UP" else (["d1"] if m.name == "NETWORK_DOWN" else [])
            ctx.require(p.terminal == "return" and got == exp, f"fanout:legacy-status:{'up-down' if exp else 'other'}",
                        f"stack status {m!r}: completes the waiters {got} (expected {exp}); {p.terminal} {p.value if p.terminal == 'raise' else ''}", func=f, trace=p.trace(10), props=("C17",))
    # per protocol version, with the status in the type that version's stackStatusHandler schema declares (legacy up to v13, unified
    # from v14): NETWORK_UP / NETWORK_DOWN reach their waiters in every version (a version test that skips the normalisation one
    # generation too early leaves the raw legacy code unmatched)
    from ..su import VERSIONS as _VS

    for v_ in _VS:
        rx = repo.get(f"bellows.ezsp.v{v_}.commands", "COMMANDS")["stackStatusHandler"][2]
        fam = getattr(list(rx.values())[0], "name", "EmberStatus")
        members = repo.cls(NAMED, fam).members()
        for want in ("NETWORK_UP", "NETWORK_DOWN"):
            import collections as _c2
            hv = repo.cls(f"bellows.ezsp.v{v_}", f"EZSPv{v_}")
            for p in pxa.explore(f, lambda: (self_obj(cls, {"_ezsp_version": v_, "_protocol": self_obj(hv, {}, tag="handler"),
                                                           "_stack_status_listeners": _c2.defaultdict(list, {sl["NETWORK_UP"]: [fut("u1")], sl["NETWORK_DOWN"]: [fut("d1")]})}),
                                             {"frame_name": "stackStatusHandler", "args": [members[want]]})):
                ctx.paths += 1
                got = sorted(e.callee.split(".")[0] for e in p.events if e.kind == "call" and e.what.endswith(".set_result"))
                exp = ["u1"] if want == "NETWORK_UP" else ["d1"]
                ctx.require(p.terminal == "return" and got == exp, f"fanout:v{v_}:{want}", f"protocol v{v_}, stack status {members[want]!r} (as that version reports it): "
                            f"completes the waiters {got}, expected {exp}", func=f, trace=p.trace(10), props=("C17", "C18"))
    px = PX(repo, inline=same_class())
    for p in px.explore(f, lambda: (self_obj(cls, {"_stack_status_listeners": {sl["NETWORK_UP"]: [fut("f1")]}}), {"frame_name": "otherHandler", "args": [es["NETWORK_UP"]]})):
        ctx.require(p.terminal == "return" and not [e for e in p.events if e.kind == "call"], "fanout:other-frame", "a frame other than stackStatusHandler touches listeners", func=f, props=("C17",))


@rule("R17.4", ["C17"], "T-PAIR", floor=7)
def r17_4(ctx):
    """Scan-style commands (_list_command), over command outcomes {accepted, refused, EzspError, timeout, cancellation} x
    what arrives while the operation waits {item, unrelated frame, item, item, completion with status OK / not OK; or a
    cancellation before any completion}: the collecting callback - whatever it is (closure, callable object, bound method)
    - is registered before the command is issued with no await in between and removed on every exit; a refused command
    raises without waiting; with an accepted command the operation returns exactly the item frames that arrived, in
    arrival order, once the completion frame reported success, and raises when it reports failure; only the completion
    frame ends the wait."""
    from .util import FutureSim

    repo = ctx.repo
    es, sl = statuses(ctx)
    f = repo.func(f"{EZ}:EZSP._list_command")
    ctx.fn(f)
    cls = repo.cls(EZ, "EZSP")
    sim = FutureSim()
    frames = [("energyScanResultHandler", Sym("r1")), ("otherHandler", Sym("zz")), ("networkFoundHandler", Sym("r2")), ("energyScanResultHandler", Sym("r3"))]
    state = {}

    def add_cb(px_, t, a, k, fr):
        state["cb"] = a[0] if a else None
        state["registered"] = True
        return Sym("cbid")

    def rem_cb(px_, t, a, k, fr):
        state["registered"] = False
        state["removed_with"] = a[0] if a else None
        return None

    def waiter(px_, t, a, k, fr):
        """The operation waits: meanwhile the NCP's callbacks arrive and are handed to whatever was registered."""
        target = a[0] if a else None
        if not (isinstance(target, Obj) and target.tag in sim.state):
            return Outcomes(OK(Sym("awaited")))
        mode = state["wait"]
        if not state.get("registered") or state.get("cb") is None:
            raise AnalysisError("_list_command waits although no callback is registered")
        early_done = None
        for name, val in frames:
            px_.do_call(state["cb"], "registered_callback", [name, val], {}, fr, None, False)
            if sim.is_done(target) and early_done is None:
                early_done = name
        state["early_done"] = early_done
        if mode == "cancel":
            return Outcomes(RAISE("CancelledError"))
        status = es["SUCCESS"] if mode == "ok" else es["ERR_FATAL"]
        px_.do_call(state["cb"], "registered_callback", ["scanCompleteHandler", (Sym("x"), status)], {}, fr, None, False)
        if not sim.is_done(target):
            state["not_completed"] = True
            return Outcomes(RAISE("CancelledError"))  # nothing completes the wait: the caller's timeout ends it
        return Outcomes(OK(sim.result(target)))

    public = cls.attrs.get("startScan")
    if isinstance(public, Record) and public.ctor_name == "partialmethod":
        ctx.anchor(public.args and public.args[0] is f or getattr(public.args[0], "qual", None) == f.qual, "startScan is bound to _list_command")
    elif not isinstance(public, FuncRef):
        raise AnalysisError(f"EZSP.startScan is neither a partialmethod of _list_command nor a method: {public!r}")
    cmd_outs = [("accepted", OK([es["SUCCESS"]])), ("refused", OK([es["ERR_FATAL"]])), ("EzspError", RAISE("EzspError")), ("TimeoutError", RAISE("TimeoutError")),
                ("CancelledError", RAISE("CancelledError"))]
    n_paths = 0
    for cname, cout in cmd_outs:
        for wait_mode in (("ok", "bad-status", "cancel") if cname == "accepted" else ("ok",)):
            def command_model(px_, t, a, k, fr, cout=cout):
                # the operation's own command gets the outcome under test; any further command it issues on the way out (a
                # "stop" command, say) may succeed or fail in every way a command can
                state["commands"] = state.get("commands", 0) + 1
                if state["commands"] == 1:
                    return Outcomes(cout)
                return Outcomes(OK([es["SUCCESS"]]), RAISE("EzspError"), RAISE("TimeoutError"), RAISE("CancelledError"))

            px = PX(repo, inline=same_class(stop=()), models=sim.models() + [("self._command", command_model), ("self.add_callback", add_cb),
                                                                            ("self.remove_callback", rem_cb), ("await:*", waiter)])
            px.inline.root = f

            def entry():
                sim.reset()
                state.clear()
                state["wait"] = wait_mode
                me = self_obj(cls, {})
                px.top_frame = None
                # through the public entry point, with whatever it binds (functools.partialmethod arguments or a wrapper method)
                if isinstance(public, Record) and public.ctor_name == "partialmethod":
                    return px.call_function(f, me, list(public.args[1:]), dict(public.kwargs), None)
                return px.call_function(public, me, [], {}, None)

            paths = px._run(entry)
            n_paths += len(paths)
            for p in paths:
                ctx.paths += 1
                add = [e for e in p.events if e.kind == "call" and e.what == "self.add_callback"]
                rem = [e for e in p.events if e.kind == "call" and e.what == "self.remove_callback"]
                cmd = [e for e in p.events if e.kind == "await" and e.what == "self._command"]
                waits = [e for e in p.events if e.kind == "await" and e.args and isinstance(e.args[0], Obj) and e.args[0].tag in sim.state]
                pid = f"[{cname}/{wait_mode if cname == 'accepted' else '-'}]"
                bad = None
                if len(add) != 1 or len(cmd) < 1 or cmd[0].args[:1] != ("startScan",):
                    bad = f"{len(add)} registrations / commands {[e.args[:1] for e in cmd]}"
                elif p.events.index(add[0]) > p.events.index(cmd[0]):
                    bad = "the command is issued before the collecting callback is registered (early results are lost)"
                elif add[0].epoch != cmd[0].epoch - 1 and add[0].epoch != cmd[0].epoch:
                    bad = "an await separates registering the callback from issuing the command"
                elif len(rem) != 1 or rem[0].args[:1] != (Sym("cbid"),):
                    bad = f"callback removed {len(rem)} times on this exit ({p.terminal} {p.value if p.terminal == 'raise' else ''}): a registered callback outlives the operation"
                elif p.events.index(rem[0]) < p.events.index(cmd[0]):
                    bad = "callback removed before the command"
                elif cname != "accepted":
                    if waits or p.terminal != "raise":
                        bad = f"command {cname}: the operation {'still waits for completion' if waits else 'does not raise'}"
                elif len(waits) != 1:
                    bad = f"{len(waits)} completion waits after an accepted command"
                elif state.get("early_done"):
                    bad = f"the wait is completed by the frame {state['early_done']}, which is not the completion frame"
                elif wait_mode == "ok":
                    if state.get("not_completed"):
                        bad = "the completion frame does not end the wait"
                    elif p.terminal != "return" or list(p.value if isinstance(p.value, (list, tuple)) else [p.value]) != [Sym("r1"), Sym("r2"), Sym("r3")]:
                        bad = (f"accepted command, frames {[n for n, _ in frames]} then a successful completion: the operation {p.terminal}s {p.value!r}; it must "
                               "return exactly the item frames in arrival order [r1, r2, r3]")
                elif wait_mode == "bad-status":
                    if p.terminal != "raise":
                        bad = "the completion frame reports a failure but the operation returns normally"
                elif p.terminal != "raise":
                    bad = "cancelled while waiting but the operation returns normally"
                if bad:
                    ctx.violation(f"_list_command:{bad.split('(')[0][:40]}", f"path {pid}: {bad}", func=f, trace=p.trace(24), construct=pid)
                else:
                    ctx.ok(1, pid)
    ctx.anchor(n_paths >= 6, "_list_command outcome paths")


@rule("R17.5", ["C17", "C13", "C06"], "T-FUN", floor=2)
def r17_5(ctx):
    """Callback registry: identifiers handed out by add_callback are unique among the callbacks currently registered -
    over the sequence add a, add b, remove a, add c (with colliding and with distinct hashes) the registry ends up holding
    exactly b and c: a new registration never replaces a live one (the application's callback handler would silently stop
    receiving frames), and remove_callback removes exactly the one registered under that identifier. The same over a long
    history: two permanent callbacks, then 600 register / unregister cycles of temporary ones (identifier counters wrap)."""
    repo = ctx.repo
    add = repo.func(f"{EZ}:EZSP.add_callback")
    rem = repo.func(f"{EZ}:EZSP.remove_callback")
    ctx.fn(add)
    cls = repo.cls(EZ, "EZSP")
    for label, hashes in (("colliding-hashes", {"cb_a": 7, "cb_b": 7, "cb_c": 7}), ("distinct-hashes", {"cb_a": 3, "cb_b": 1, "cb_c": 2}),
                          ("adjacent-hashes", {"cb_a": 0, "cb_b": 1, "cb_c": 1})):
        px = PX(repo, models=[("hash", lambda px_, t, a, k, fr: hashes[a[0].tag])], inline=same_class(stop=("stack_status_callback",)))
        px.inline.root = add

        def entry():
            me = self_obj(cls, {"_callbacks": {}})
            px.top_frame = None
            ia = px.call_function(add, me, [Sym("cb_a")], {}, None)
            ib = px.call_function(add, me, [Sym("cb_b")], {}, None)
            px.call_function(rem, me, [ia], {}, None)
            ic = px.call_function(add, me, [Sym("cb_c")], {}, None)
            return (ia, ib, ic, dict(me.fields["_callbacks"]))

        for p in px._run(entry):
            if p.terminal != "return":
                ctx.violation(f"registry:{label}", f"{label}: {p.value!r}", func=add, trace=p.trace())
                continue
            ia, ib, ic, reg = p.value
            ok = ib != ic and sorted(v.tag for v in reg.values()) == ["cb_b", "cb_c"] and reg.get(ib) == Sym("cb_b") and reg.get(ic) == Sym("cb_c")
            ctx.require(ok, f"registry:{label}", f"{label}: add a -> {ia!r}, add b -> {ib!r}, remove a, add c -> {ic!r}; registry now {reg!r} (must hold exactly b and c "
                        "under different identifiers)", func=add, trace=p.trace())


    # a long history on one object: a permanent callback (the built-in status dispatcher, the application's handler) registered first,
    # then several hundred register / unregister cycles of a temporary one (every scan does that): the permanent callbacks must still
    # be registered under their identifiers afterwards, and a temporary identifier never equals a live one (a counter that wraps does)
    n_cycles = 600
    px = PX(repo, models=[("hash", lambda px_, t, a, k, fr: (sum(a[0].tag.encode()) * 31) % 257)], inline=same_class(stop=("stack_status_callback",)))
    px.inline.root = add

    def long_entry():
        me = self_obj(cls, {"_callbacks": {}})
        px.top_frame = None
        perm = [(px.call_function(add, me, [Sym(f"perm{i}")], {}, None), f"perm{i}") for i in range(2)]
        for i in range(n_cycles):
            tid = px.call_function(add, me, [Sym(f"tmp{i % 7}")], {}, None)
            reg = me.fields["_callbacks"]
            if any(getattr(reg.get(pid), "tag", None) != tag for pid, tag in perm) or tid in [pid for pid, _ in perm] or len(reg) != 3:
                return ("lost", i, tid, {k: getattr(v, "tag", v) for k, v in reg.items()})
            px.call_function(rem, me, [tid], {}, None)
            if len(me.fields["_callbacks"]) != 2:
                return ("leak", i, tid, {k: getattr(v, "tag", v) for k, v in me.fields["_callbacks"].items()})
        return ("ok", n_cycles, None, None)

    for p in px._run(long_entry):
        if p.terminal != "return":
            ctx.violation("registry:long-history", f"register / unregister cycles: {p.value!r}", func=add, trace=p.trace(20))
            continue
        verdict, i, tid, reg = p.value
        ctx.require(verdict == "ok", "registry:long-history", f"after {i} register / unregister cycles of a temporary callback the registration returns identifier {tid!r} "
                    f"and the registry is {reg!r}: a permanent callback was replaced or an entry leaked", func=add)


@rule("R17.6", ["C17", "C14"], "T-FUN", floor=4)
def r17_6(ctx):
    """Life cycle of the stack-status listeners on one EZSP object (built by its own initialiser), as histories of
    waits, events, cancellations and event-loop turns: a waiter is completed by the first event of *its* status and by
    no event of another status; a waiter that registers while an earlier waiter of the same status has been completed
    but not yet cleaned up (same loop turn) still receives the next event; a cancelled waiter that is still listed
    neither breaks the fan-out nor hides the waiters after it; and when all waits have ended no listener remains."""
    from ..px import _LazyGen
    from .util import FutureSim

    repo = ctx.repo
    es, sl = statuses(ctx)
    cls = repo.cls(EZ, "EZSP")
    init = cls.method("__init__")
    wait = cls.method("wait_for_stack_status")
    cb = cls.method("stack_status_callback")
    ctx.fn(wait)
    ctx.fn(cb)
    sim = FutureSim()
    px = PX(repo, models=sim.models() + [("hash", lambda px_, t, a, k, fr: 7)], inline=same_class(extra=("from_ember_status",)))
    px.inline.root = wait
    UP, DOWN = sl["NETWORK_UP"], sl["NETWORK_DOWN"]
    legacy = {"NETWORK_UP": es["NETWORK_UP"], "NETWORK_DOWN": es["NETWORK_DOWN"]}

    def run(script):
        """script: list of steps; returns (log of observations, leftover listener count)."""
        def entry():
            sim.reset()
            me = self_obj(cls, {})
            px.top_frame = None
            px.call_function(init, me, [Sym("device_config")], {}, None)
            waits, obs = {}, []
            for step in script:
                op = step[0]
                if op == "enter":
                    g = _LazyGen(px, wait, me, [step[2]], {}, None)
                    waits[step[1]] = (g, next(g))
                elif op == "exit":
                    g, f_ = waits[step[1]]
                    try:
                        next(g)
                    except StopIteration:
                        pass
                elif op == "event":
                    px.call_function(cb, me, ["stackStatusHandler", [legacy[step[1].name]]], {}, None)
                elif op == "cancel":
                    st = sim.state[waits[step[1]][1].tag]
                    if not st["done"]:
                        st["cancelled"] = True
                        sim._finish(st)
                elif op == "loop":
                    sim.run_loop(px)
                elif op == "expect":
                    f_ = waits[step[1]][1]
                    obs.append((step[1], sim.is_done(f_) and not sim.state[f_.tag]["cancelled"], sim.result(f_)))
            reg = me.fields.get("_stack_status_listeners")
            left = None
            if isinstance(reg, dict):
                left = sum(len(v) for v in reg.values() if isinstance(v, list))
            return obs, left

        paths = px._run(entry)
        if len(paths) != 1:
            raise AnalysisError(f"listener scenario: {len(paths)} paths")
        return paths[0]

    scenarios = {
        "other-status-first": ([("enter", "A", UP), ("event", DOWN), ("expect", "A"), ("event", UP), ("expect", "A"), ("loop",), ("exit", "A"), ("loop",)],
                               [("A", False, None), ("A", True, UP)]),
        "down-waiter-not-woken-by-up": ([("enter", "A", DOWN), ("event", UP), ("expect", "A"), ("event", DOWN), ("expect", "A"), ("loop",), ("exit", "A"), ("loop",)],
                                        [("A", False, None), ("A", True, DOWN)]),
        "register-before-cleanup": ([("enter", "A", UP), ("event", UP), ("expect", "A"), ("enter", "B", UP), ("loop",), ("exit", "A"), ("loop",), ("event", UP),
                                     ("expect", "B"), ("loop",), ("exit", "B"), ("loop",)], [("A", True, UP), ("B", True, UP)]),
        "cancelled-waiter-listed": ([("enter", "A", UP), ("enter", "B", UP), ("cancel", "A"), ("event", UP), ("expect", "B"), ("loop",), ("exit", "A"), ("exit", "B"), ("loop",)],
                                    [("B", True, UP)]),
        # an event seen *before* the operation started does not complete it (a remembered last status goes stale across a reset or a
        # second run of the same operation): the waiter that registers afterwards is completed only by a new event
        "event-before-wait": ([("event", UP), ("loop",), ("enter", "A", UP), ("loop",), ("expect", "A"), ("event", UP), ("expect", "A"), ("loop",), ("exit", "A"),
                               ("loop",)], [("A", False, None), ("A", True, UP)]),
        "second-operation": ([("enter", "A", UP), ("event", UP), ("expect", "A"), ("loop",), ("exit", "A"), ("loop",), ("enter", "B", UP), ("loop",), ("expect", "B"),
                              ("event", DOWN), ("expect", "B"), ("event", UP), ("expect", "B"), ("loop",), ("exit", "B"), ("loop",)],
                             [("A", True, UP), ("B", False, None), ("B", False, None), ("B", True, UP)]),
        "two-statuses-interleaved": ([("enter", "A", UP), ("enter", "D", DOWN), ("event", DOWN), ("expect", "A"), ("expect", "D"), ("event", UP), ("expect", "A"), ("loop",),
                                      ("exit", "A"), ("exit", "D"), ("loop",)], [("A", False, None), ("D", True, DOWN), ("A", True, UP)]),
    }
    for name, (script, want) in scenarios.items():
        p = run(script)
        ctx.paths += 1
        if p.terminal != "return":
            ctx.violation(f"listeners:{name}", f"history {name}: raises {p.value!r}", func=wait, trace=p.trace(30))
            continue
        obs, left = p.value
        got = [(n, d, (r if d else None)) for n, d, r in obs]
        wantn = [(n, d, (r if d else None)) for n, d, r in want]
        ok = [(n, d, getattr(r, "name", r)) for n, d, r in got] == [(n, d, getattr(r, "name", r)) for n, d, r in wantn]
        ctx.require(ok, f"listeners:{name}", f"history {name}: waiters observed as {[(n, d, getattr(r, 'name', r)) for n, d, r in got]}, expected "
                    f"{[(n, d, getattr(r, 'name', r)) for n, d, r in wantn]} (waiter, completed by its event, with status)", func=wait, trace=p.trace(30))
        if left is None:
            raise AnalysisError("the listener registry is not a dict of lists after the initialiser")
        ctx.require(left == 0, f"listeners:{name}:leak", f"history {name}: {left} listener(s) remain registered after every wait has ended", func=wait, trace=p.trace(30))
