"""Rule modules; importing this package registers every rule."""
from . import ash_frame, ash_link, ezsp_proto, schema_use, status, watchdog, multicast, config, app_rx, app_tx, events, failure, bringup, thread, netinfo  # noqa: F401
