"""Rule modules; importing this package registers every rule."""
from . import ash_frame, ash_link  # noqa: F401
