"""Rule modules; importing this package registers every rule."""
from . import ash_link  # noqa: F401
