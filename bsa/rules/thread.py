"""C20: cross-thread proxy runs calls on the owner's loop and relays results."""
from __future__ import annotations

import ast

from ..core import rule
from ..errors import AnalysisError
from ..px import OK, PX, RAISE, Closure, Outcomes
from ..pxv import Bound, Obj, Partial, Sym
from ..te import FuncRef, TypeRef
from .util import same_class, self_obj, text

TH = "bellows.thread"


def loop_obj(i):
    return Obj(TypeRef("asyncio.AbstractEventLoop"), {"id": i}, tag=f"loop{i}")


def fetch_wrapper(ctx, callable_, fetch_on="other", loops=None, name="method"):
    """Stage 1: proxy.<name>  ->  list of (path, closure or None).  ``fetch_on``: the loop that is running while the attribute
    is looked up (a wrapper may be fetched on one loop and called from another)."""
    repo = ctx.repo
    f = repo.func(f"{TH}:ThreadsafeProxy.__getattr__")
    cls = repo.cls(TH, "ThreadsafeProxy")
    owner, other = loops or (loop_obj(1), loop_obj(2))
    here = owner if fetch_on == "owner" else other
    px = PX(repo, models=[("callable", lambda px_, t, a, k, fr: callable_)] +
            [(n, lambda px_, t, a, k, fr: here) for n in ("asyncio.get_running_loop", "asyncio._get_running_loop", "asyncio.get_event_loop",
                                                        "asyncio.events.get_running_loop", "asyncio.events._get_running_loop")], inline=same_class())
    target = Obj(TypeRef("Target"), {name: Sym("func")}, tag="target")

    def setup():
        return self_obj(cls, {"_obj": target, "_obj_loop": owner}), {"name": name}

    return f, owner, px.explore(f, setup)


@rule("R20.1", ["C20", "C04", "C11", "C01", "C09"], "T-FUN", floor=12)
def r20_1(ctx):
    """Dispatch table of the proxy over {callable, not} x {caller on the owner's loop, on another loop} x {owner
    loop open, closed} x {coroutine function, plain function} x {plain result None, a value}: a non-callable
    attribute is refused with TypeError before any wrapper exists; the caller's loop is determined when the wrapper
    is *called*; the wrapped callable is invoked directly only when the caller is on the owner's loop; from another
    loop a closed owner loop drops the call (returns None, nothing dispatched, nothing executed); otherwise a
    coroutine function is run with run_coroutine_threadsafe on the owner's loop and its future is wrapped for the
    caller's loop, and a plain function is queued with call_soon_threadsafe on the owner's loop, the queued closure
    calling it and raising TypeError for a non-None result."""
    repo = ctx.repo
    for attr in ("method", "_private", "x", "CONSTANT", "connection_lost"):
        f, owner, paths = fetch_wrapper(ctx, False, name=attr)
        ctx.fn(f)
        ctx.anchor(paths, f"proxy attribute access of a non-callable attribute {attr!r} explored")
        for p in paths:
            ctx.require(p.raised("TypeError") and not any(isinstance(v, Closure) for v in [p.value]), "non-callable",
                        f"non-callable attribute {attr!r}: {p.terminal} {p.value!r} (must raise TypeError)", func=f)
    def callable_value(v):
        return isinstance(v, (Closure, Bound, Partial, FuncRef)) or v == Sym("func")

    # the wrapper is fetched while the owner's loop or another loop is running, and called from either: what matters is the loop
    # at the time of the *call* (a method object fetched on the owner's loop and called later from the other thread must still be
    # marshalled to the owner's loop)
    for fetch_on, same, closed, coro, result in [(fo, sm, cl, co, rs) for fo in ("other", "owner") for sm in (True, False) for cl in (False, True)
                                                 for co in (True, False) for rs in (None, "value", "falsy", "bool", "raises")]:
        if True:
            if True:
                if True:
                    if coro and result in ("value", "falsy", "bool"):
                        continue
                    if result == "raises" and not (same and not closed):
                        continue  # the exception case is about direct calls on the owner's loop
                    if fetch_on == "owner" and (closed or result == "raises"):
                        continue
                    loops = (loop_obj(1), loop_obj(2))
                    f, owner, paths = fetch_wrapper(ctx, True, fetch_on, loops)
                    ctx.anchor(len(paths) == 1 and paths[0].terminal == "return" and callable_value(paths[0].value),
                               f"proxy attribute access (on the {fetch_on} loop) returns something callable")
                    wrapper = paths[0].value
                    other = loops[1]
                    cur = owner if same else other
                    models = [("asyncio.get_running_loop", lambda px_, t, a, k, fr: cur), ("asyncio.get_event_loop", lambda px_, t, a, k, fr: cur),
                              ("*.is_closed", lambda px_, t, a, k, fr: closed),
                              # trusted base: scheduling on a closed loop raises RuntimeError('Event loop is closed')
                              ("*.call_soon_threadsafe", lambda px_, t, a, k, fr: Outcomes(RAISE("RuntimeError")) if closed else Outcomes(OK(None))),
                              ("asyncio.run_coroutine_threadsafe", lambda px_, t, a, k, fr: Outcomes(RAISE("RuntimeError")) if closed else Outcomes(OK(Sym("concurrent_future")))),
                              ("asyncio.iscoroutinefunction", lambda px_, t, a, k, fr: coro), ("inspect.iscoroutinefunction", lambda px_, t, a, k, fr: coro),
                              ("func", lambda px_, t, a, k, fr: Outcomes(RAISE("RuntimeError")) if result == "raises" else (
                                  Sym("coroutine") if coro else (None if result is None else (0 if result == "falsy" else (True if result == "bool" else Obj(TypeRef("object"), {}, tag="result"))))))]
                    px = PX(repo, models=models, inline=same_class())
                    px.inline.root = f

                    # keyword arguments of the wrapped method may be called anything - also what a helper of the proxy calls its own parameters
                    call_kw = {"kw": Sym("k1"), "name": Sym("k_name"), "func": Sym("k_func"), "loop": Sym("k_loop"), "call": Sym("k_call")}

                    def entry():
                        return px.do_call(wrapper, "wrapper", [Sym("a1")], dict(call_kw), None, None, False)

                    for p in px._run(entry):
                        ctx.paths += 1
                        key = f"same_loop={same},closed={closed},coroutine={coro},result={result}"
                        ev = [e for e in p.events if e.kind == "call"]
                        direct = [e for e in ev if e.what == "func" or (e.what == "wrapper" and wrapper == Sym("func"))]
                        rct = [e for e in ev if e.what.endswith("run_coroutine_threadsafe")]
                        cst = [e for e in ev if e.what.endswith("call_soon_threadsafe")]
                        wf = [e for e in ev if e.what.endswith("wrap_future")]
                        gl = [e for e in ev if "get_running_loop" in e.what or "get_event_loop" in e.what]
                        bad = None
                        if not gl and not same:
                            bad = (f"fetched while the {fetch_on} loop was running, called from another loop: the caller's loop is not determined at call time "
                                   f"(direct calls: {len(direct)}) - the method runs on the caller's thread")
                        elif not gl and wrapper != Sym("func"):
                            bad = "the caller's loop is not determined at call time"
                        elif same and result == "raises":
                            if len(direct) != 1 or not p.raised("RuntimeError"):
                                bad = (f"a method called from the owner's loop raises RuntimeError: the proxy {p.terminal}s {p.value!r} - the caller must see the "
                                       "exception the wrapped method raised (it is not a closed-loop condition)")
                        elif same:
                            if len(direct) != 1 or rct or cst or p.terminal != "return" or p.value != direct[0].extra:
                                bad = f"call from the owner's loop: direct calls {len(direct)}, dispatches {len(rct) + len(cst)}, returns {p.value!r}"
                            elif direct[0].what == "func" and (tuple(direct[0].args) != (Sym("a1"),) or dict(direct[0].kwargs) != call_kw):
                                bad = f"call from the owner's loop: the method is called with {direct[0].args!r} {direct[0].kwargs!r}, not with the caller's arguments"
                        elif closed:
                            done_ = [e for e in rct + cst if not str(e.extra).startswith("raises")]
                            # (calling a coroutine function only creates a coroutine object: nothing of the method has run)
                            if (direct and not coro) or done_ or p.terminal != "return" or p.value is not None:
                                bad = (f"owner loop closed: direct calls {len(direct)}, dispatched {[e.what for e in rct + cst]}, {p.terminal} {p.value!r} "
                                       "(the call must be dropped: nothing executed, nothing dispatched, None returned)")
                        elif coro:
                            if len(rct) != 1 or cst or rct[0].args[1:2] != (owner,) or rct[0].args[0] != Sym("coroutine"):
                                bad = f"coroutine method from another loop: run_coroutine_threadsafe{[e.args for e in rct]!r}, call_soon {len(cst)} (must run on the owner's loop)"
                            elif len(wf) != 1 or wf[0].kwargs.get("loop", wf[0].args[1] if len(wf[0].args) > 1 else None) is not cur or p.value != wf[0].extra:
                                bad = "the result future is not wrapped for the caller's loop and returned"
                        else:
                            if direct:
                                bad = "plain method from another loop is executed on the caller's thread"
                            elif len(cst) != 1 or rct or cst[0].callee != "loop1.call_soon_threadsafe" or not cst[0].args \
                                    or not isinstance(cst[0].args[0], (Closure, FuncRef, Bound, Partial)):
                                bad = f"plain method from another loop: call_soon_threadsafe {[(e.callee, e.args) for e in cst]!r} (must be queued on the owner's loop)"
                            elif p.value is not None:
                                bad = f"queued call returns {p.value!r} to the caller"
                            else:
                                inner = cst[0].args[0]

                                queued_args = list(cst[0].args[1:])

                                def entry2():
                                    # what the owner's loop will do with the queued callback: call it with the queued arguments
                                    return px.do_call(inner, "queued_callback", list(queued_args), {}, None, None, False)

                                for q in px._run(entry2):
                                    ran = [e for e in q.events if e.kind == "call" and e.what == "func"]
                                    if len(ran) != 1:
                                        bad = f"the queued closure invokes the method {len(ran)} times ({q.terminal} {q.value if q.terminal == 'raise' else ''})"
                                    elif tuple(ran[0].args) != (Sym("a1"),) or dict(ran[0].kwargs) != call_kw:
                                        bad = f"the queued closure calls the method with {ran[0].args!r} {ran[0].kwargs!r}, not with the caller's arguments"
                                    elif (result is None) != (q.terminal == "return"):
                                        bad = f"queued plain method returning {result!r}: closure {q.terminal}s {q.value if q.terminal == 'raise' else ''} (a value must raise TypeError)"
                        if not bad:
                            for e in ev:
                                if e.what == "func" and (tuple(e.args) != (Sym("a1"),) or dict(e.kwargs) != call_kw):
                                    bad = f"the wrapped method is called with {e.args!r} {e.kwargs!r}, not with the caller's arguments"
                        if bad:
                            ctx.violation(f"dispatch:{key}", f"{key} (fetched on the {fetch_on} loop): {bad}", func=f, trace=p.trace(14), construct=key)
                        else:
                            ctx.ok(1, key)


@rule("R20.6", ["C20"], "T-FUN", floor=3)
def r20_6(ctx):
    """Wiring in uart.connect: with use_thread the application is wrapped with the *caller's* loop before the
    serial thread starts, and _connect (running on the serial thread) wraps the gateway with the loop it runs on and
    hands the gateway the application it was given; without a thread no second loop is created."""
    repo = ctx.repo
    U = "bellows.uart"
    c = repo.func(f"{U}:connect")
    ctx.fn(c)
    n = {"i": 0}

    def new_loop(px_, t, a, k, fr):
        return Sym("caller_loop")

    models = [("asyncio.get_event_loop", new_loop), ("asyncio.get_running_loop", new_loop),
              ("ThreadsafeProxy", lambda px_, t, a, k, fr: Obj(TypeRef("ThreadsafeProxy"), {"obj": a[0], "loop": a[1] if len(a) > 1 else k.get("obj_loop")},
                                                               tag=f"proxy({getattr(a[0], 'tag', a[0])})")),
              ("EventLoopThread", lambda px_, t, a, k, fr: Obj(TypeRef("EventLoopThread"), {}, tag="thread")),
              ("thread.start", Outcomes(OK(None))), ("thread.run_coroutine_threadsafe", Outcomes(OK((Sym("protocol"), Sym("done"))))),
              ("_connect", lambda px_, t, a, k, fr: Obj(TypeRef("coroutine"), {"args": tuple(a)}, tag="_connect(...)"))]
    for use_thread in (True, False):
        # module-level helpers connect() is split into are part of it (the _connect coroutine itself is modelled)
        px = PX(repo, models=([("_connect", Outcomes(OK((Sym("protocol"), Sym("done")))))] if not use_thread else []) + models,
                inline=lambda g, aw: g.cls is None and g.mod == U and g.name != "_connect")
        for p in px.explore(c, lambda: (None, {"config": Sym("config"), "application": Sym("app"), "use_thread": use_thread})):
            ctx.paths += 1
            prox = [e for e in p.events if e.kind == "call" and e.what == "ThreadsafeProxy"]
            conn = [e for e in p.events if e.what == "_connect"]
            if use_thread:
                ok = (len(prox) == 1 and prox[0].args == (Sym("app"), Sym("caller_loop")) and len(conn) == 1 and isinstance(conn[0].args[1], Obj)
                      and conn[0].args[1].tag == "proxy(app)" and p.events.index(prox[0]) < p.events.index(conn[0]) and p.terminal == "return")
                msg = f"threaded: proxies {[e.args for e in prox]!r}, _connect args {[e.args for e in conn]!r}"
            else:
                ok = not prox and len(conn) == 1 and conn[0].args[1] == Sym("app") and p.terminal == "return"
                msg = f"unthreaded: proxies {len(prox)}, _connect args {[e.args for e in conn]!r}"
            ctx.require(ok, f"connect:thread={use_thread}", msg, func=c, trace=p.trace(12))
    k = repo.func(f"{U}:_connect")
    ctx.fn(k)
    models = [("asyncio.get_event_loop", lambda px_, t, a, k_, fr: Sym("thread_loop")), ("asyncio.get_running_loop", lambda px_, t, a, k_, fr: Sym("thread_loop")),
              ("await:connection_future", Outcomes(OK(True))), ("zigpy.serial.create_serial_connection", Outcomes(OK((Sym("transport"), Sym("proto")))))]
    for flow in (None, "hardware"):
      # (the flow-control setting is a concrete configuration value: tables indexed by it resolve)
      px = PX(repo, models=models + [("item:config[zigpy.config.CONF_DEVICE_FLOW_CONTROL]", lambda *a_, flow=flow: flow)],
              inline=lambda g, aw: g.cls is None and g.mod == U and not g.is_async and g.name not in ("connect", "_connect"))
      for p in px.explore(k, lambda: (None, {"config": Sym("config"), "application": Sym("app")})):
          news = {e.what: e for e in p.events if e.kind == "new"}
          gw = news.get("Gateway")
          ash = news.get("AshProtocol")
          r = p.value
          ok = (p.terminal == "return" and gw is not None and gw.args[:1] == (Sym("app"),) and ash is not None and isinstance(ash.args[0], Obj)
                and ash.args[0].cls_name == "Gateway" and isinstance(r, tuple) and isinstance(r[0], Obj) and r[0].cls_name == "ThreadsafeProxy"
                and r[0].fields.get("obj") is ash.args[0] and r[0].fields.get("obj_loop") == Sym("thread_loop"))
          ctx.require(ok, "_connect:wiring", f"_connect: Gateway{gw.args if gw else None!r}, AshProtocol{ash.args if ash else None!r}, returns {r!r:.120}", func=k,
                      trace=p.trace(14))


@rule("R20.7", ["C20", "C11", "C10"], "T-ORD", floor=2)
def r20_7(ctx):
    """Stopping the secondary loop: force_stop is a no-op without a loop; otherwise it cancels every task and stops
    the loop only when *all* of them have finished - the gather whose completion stops the loop is created with
    return_exceptions=True (without it the first cancelled task ends the gather and the loop is closed under the
    tasks still winding down, whose cross-thread callers then never get an answer); all of it is queued on the
    thread's own loop with call_soon_threadsafe."""
    repo = ctx.repo
    f = repo.func(f"{TH}:EventLoopThread.force_stop")
    ctx.fn(f)
    tasks = [Obj(TypeRef("asyncio.Task"), {}, tag=f"task{i}") for i in (1, 2)]
    px = PX(repo, inline=same_class(), models=[("asyncio.all_tasks", lambda px_, t, a, k, fr: set(tasks))])
    px.inline.root = f
    callables = (Closure, FuncRef, Bound, Partial)
    for has_loop in (False, True):
        tloop = Obj(TypeRef("Loop"), {}, tag="tloop")

        def entry():
            me = self_obj(repo.cls(TH, "EventLoopThread"), {"loop": tloop if has_loop else None})
            px.top_frame = None
            px.call_function(f, me, [], {}, None)
            queued = [e for e in px.events if e.kind == "call" and e.what.endswith("call_soon_threadsafe")]
            # what the thread's loop does next: run the queued callback
            for e in list(queued):
                if e.args and isinstance(e.args[0], callables):
                    px.emit("mark", "queued-callback-runs")
                    px.do_call(e.args[0], "queued_callback", list(e.args[1:]), {}, None, None, False)
            # ... and, when the gather completes, its done-callbacks
            for e in [x for x in px.events if x.kind == "call" and x.what.endswith("add_done_callback")]:
                if e.args and isinstance(e.args[0], callables):
                    px.emit("mark", "gather-done")
                    px.do_call(e.args[0], "done_callback", [Sym("gather_future")], {}, None, None, False)
            return None

        for p in px._run(entry):
            ctx.paths += 1
            cs = [e for e in p.events if e.kind == "call"]
            key = f"force_stop:loop={has_loop}"
            if not has_loop:
                ctx.require(p.terminal == "return" and not cs, key, f"force_stop without a loop: {p.terminal}, calls {[e.what for e in cs]}", func=f)
                continue
            marks = {e.what: i for i, e in enumerate(p.events) if e.kind == "mark"}
            i_run, i_done = marks.get("queued-callback-runs", -1), marks.get("gather-done", -1)
            before = [e for e in p.events[: i_run if i_run >= 0 else len(p.events)] if e.kind == "call"]
            bad = None
            if p.terminal != "return":
                bad = f"raises {p.value!r}"
            elif i_run < 0 or [e.callee for e in before] != ["tloop.call_soon_threadsafe"]:
                bad = f"force_stop itself does {[e.what for e in before]}; the cancellation must be queued on the thread's own loop with call_soon_threadsafe"
            else:
                body = [e for e in p.events[i_run: i_done if i_done >= 0 else len(p.events)] if e.kind == "call"]
                cancels = [e for e in body if (e.what.endswith("call_soon_threadsafe") and e.args and getattr(e.args[0], "tag", "").endswith(".cancel"))
                           or (e.callee or "").endswith(".cancel")]
                cancelled = {(getattr(e.args[0], "tag", "") if e.what.endswith("call_soon_threadsafe") else e.callee).split(".")[0] for e in cancels}
                gathers = [e for e in body if e.what.endswith("gather")]
                if cancelled != {"task1", "task2"}:
                    bad = f"tasks cancelled: {sorted(cancelled)} (every task of the loop must be cancelled)"
                elif len(gathers) != 1 or set(map(id, gathers[0].args)) != set(map(id, tasks)):
                    bad = f"the tasks are not awaited together: gather calls {[e.args for e in gathers]!r}"
                elif gathers[0].kwargs.get("return_exceptions") is not True:
                    bad = ("the gather that gates loop.stop() is not created with return_exceptions=True: it completes when the first task ends cancelled, "
                           "not when all have finished")
                elif i_done < 0:
                    bad = "nothing is attached to the gather's completion (add_done_callback)"
                else:
                    stops = [e for e in p.events[i_done:] if e.kind == "call" and ((e.what.endswith("call_soon_threadsafe") and e.args and getattr(e.args[0], "tag", "") == "tloop.stop")
                                                                               or e.callee == "tloop.stop")]
                    early = [e for e in p.events[:i_done] if e.kind == "call" and (e.callee == "tloop.stop" or (e.args and getattr(e.args[0], "tag", "") == "tloop.stop"))]
                    if early:
                        bad = "the loop is stopped before the tasks have finished"
                    elif len(stops) != 1:
                        bad = f"completion of the gather stops the loop {len(stops)} times"
            ctx.require(not bad, key, f"force_stop with a loop: {bad}", func=f, trace=p.trace(20))


@rule("R20.8", ["C20", "C09"], "T-FUN", floor=1)
def r20_8(ctx):
    """EventLoopThread.run_coroutine_threadsafe schedules the coroutine on the *thread's* loop and wraps the
    concurrent future for the *caller's* loop (the one current at the call), returning that wrapped future."""
    repo = ctx.repo
    f = repo.func(f"{TH}:EventLoopThread.run_coroutine_threadsafe")
    ctx.fn(f)
    px = PX(repo, models=[("asyncio.get_event_loop", lambda px_, t, a, k, fr: Sym("caller_loop")), ("asyncio.get_running_loop", lambda px_, t, a, k, fr: Sym("caller_loop"))],
            inline=same_class())
    for p in px.explore(f, lambda: (self_obj(repo.cls(TH, "EventLoopThread"), {"loop": Sym("thread_loop")}), {"coroutine": Sym("coro")})):
        rct = [e for e in p.events if e.kind == "call" and e.what.endswith("run_coroutine_threadsafe")]
        wf = [e for e in p.events if e.kind == "call" and e.what.endswith("wrap_future")]
        ok = (p.terminal == "return" and len(rct) == 1 and rct[0].args == (Sym("coro"), Sym("thread_loop")) and len(wf) == 1 and wf[0].args[:1] == (rct[0].extra,)
              and wf[0].kwargs.get("loop", wf[0].args[1] if len(wf[0].args) > 1 else None) == Sym("caller_loop") and p.value == wf[0].extra)
        ctx.require(ok, "run_coroutine_threadsafe", f"dispatch {[e.args for e in rct]!r}, wrap {[(e.args, e.kwargs) for e in wf]!r}, returns {p.value!r}", func=f, trace=p.trace())


@rule("R20.9", ["C20", "C10"], "T-FUN", floor=3)
def r20_9(ctx):
    """What the serial side calls on the application through the proxy fits the proxy's contract: every method of EZSP that
    Gateway invokes as ``self._application.<name>(...)`` (frame_received, enter_failed_state, connection_lost, ...) and that is a
    plain (non-coroutine) method returns None on every path - a plain method reached across threads "must return nothing"; a value
    (a status flag added for the callers on the same thread) makes the proxy raise TypeError on the application's loop instead
    of completing the notification."""
    repo = ctx.repo
    gw = repo.cls("bellows.uart", "Gateway")
    ez = repo.cls("bellows.ezsp", "EZSP")
    names = set()
    for m_node in [n for n in gw.node.body if isinstance(n, (ast.FunctionDef, ast.AsyncFunctionDef))]:
        for n in ast.walk(m_node):
            if isinstance(n, ast.Call) and isinstance(n.func, ast.Attribute) and text(n.func.value) == "self._application":
                names.add(n.func.attr)
    ctx.anchor(len(names) >= 3, f"Gateway calls the application through self._application ({sorted(names)})")
    for name in sorted(names):
        try:
            f = ez.method(name)
        except KeyError:
            raise AnalysisError(f"Gateway calls self._application.{name}, which EZSP does not define")
        if f.is_async:
            ctx.ok(1, name)
            continue
        ctx.fn(f)
        params = [a.arg for a in f.node.args.args[1:]]
        px = PX(repo, inline=same_class(stop=("handle_callback",)), models=[("self._protocol", Outcomes(OK(None), RAISE("ValueError"))), ("*.is_set", lambda *a: True)])
        cbs = {0: Sym("cb0"), 1: Sym("cb1")}
        for ncb in (1, 2):
            def setup():
                me = self_obj(ez, {"_callbacks": {i: cbs[i] for i in range(ncb)}, "_gw": Obj(TypeRef("Gateway"), {}, tag="gw"),
                                   "_protocol": Obj(TypeRef("Handler"), {}, tag="handler"), "_config": Sym("cfg")})
                return me, {p_: (b"\x01\x02\x03\x04\x05" if p_ == "data" else Sym(p_)) for p_ in params}

            for p in px.explore(f, setup):
                ctx.paths += 1
                if p.terminal != "return":
                    continue
                if isinstance(p.value, Sym):
                    raise AnalysisError(f"EZSP.{name} returns {p.value!r}: whether that is None is outside the modelled subset")
                ctx.require(p.value is None, f"returns-none:{name}", f"EZSP.{name} - a plain method the gateway calls through the cross-thread proxy - returns "
                            f"{p.value!r} on some path; the proxy raises TypeError for any result other than None (use_thread=True)", func=f, trace=p.trace(10))


@rule("R20.10", ["C20", "C01", "C04"], "T-FUN", floor=1)
def r20_10(ctx):
    """A burst of calls: 300 plain calls made through the proxy from another loop while the owner's loop is busy (none of the
    queued callbacks has run yet), then the owner's loop runs everything that was queued, in the order it was queued: the
    wrapped method is executed exactly once per call, in call order, each time with that call's argument (a bounded or
    coalescing queue between the threads drops or reorders calls - upward frames the link has already acknowledged)."""
    repo = ctx.repo
    loops = (loop_obj(1), loop_obj(2))
    f, owner, paths = fetch_wrapper(ctx, True, "other", loops)
    ctx.fn(f)
    ctx.anchor(len(paths) == 1 and paths[0].terminal == "return", "proxy attribute access returns the wrapper")
    wrapper = paths[0].value
    n_calls = 300
    models = [("asyncio.get_running_loop", lambda px_, t, a, k, fr: loops[1]), ("asyncio.get_event_loop", lambda px_, t, a, k, fr: loops[1]),
              ("*.is_closed", lambda px_, t, a, k, fr: False), ("*.is_running", lambda px_, t, a, k, fr: True),
              ("*.call_soon_threadsafe", lambda px_, t, a, k, fr: None), ("asyncio.iscoroutinefunction", lambda px_, t, a, k, fr: False),
              ("inspect.iscoroutinefunction", lambda px_, t, a, k, fr: False), ("func", lambda px_, t, a, k, fr: None)]
    px = PX(repo, models=models, inline=same_class(), max_paths=50)
    px.inline.root = f

    def entry():
        for i in range(n_calls):
            px.do_call(wrapper, "wrapper", [i], {}, None, None, False)
        queued = [e for e in list(px_events()) if e.kind == "call" and e.what.endswith("call_soon_threadsafe") and e.args]
        px.emit("mark", "owner loop runs")
        for e in queued:
            px.do_call(e.args[0], "queued_callback", list(e.args[1:]), {}, None, None, False)
        return len(queued)

    def px_events():
        return px._events if hasattr(px, "_events") else px.events

    ps = px._run(entry)
    ctx.paths += len(ps)
    ctx.anchor(len(ps) == 1, f"burst scenario: {len(ps)} paths")
    p = ps[0]
    if p.terminal != "return":
        ctx.violation("burst", f"a burst of {n_calls} plain calls: {p.terminal} {p.value!r}", func=f, trace=p.trace(12))
        return
    cut = next(i for i, e in enumerate(p.events) if e.kind == "mark" and e.what == "owner loop runs")
    early = [e for e in p.events[:cut] if e.kind == "call" and e.what == "func"]
    ran = [e.args[0] if e.args else None for e in p.events[cut:] if e.kind == "call" and e.what == "func"]
    ctx.require(not early, "burst:direct", f"{len(early)} of the calls made from another loop were executed on the caller's side", func=f)
    ctx.require(ran == list(range(n_calls)), "burst", f"a burst of {n_calls} plain calls from another loop, then the owner's loop runs what was queued ({p.value} callbacks): "
                f"the method ran {len(ran)} times" + (f", first deviation at call #{next((i for i, (a_, b_) in enumerate(zip(ran, range(n_calls))) if a_ != b_), len(ran))}" if ran != list(range(n_calls)) else "")
                + "; every call must run exactly once, in order", func=f, trace=p.trace(8))
