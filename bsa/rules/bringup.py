"""C09: bring-up negotiates the NCP's protocol version and frames everything accordingly."""
from __future__ import annotations

from ..core import rule
from ..errors import AnalysisError
from ..px import OK, PX, RAISE, Outcomes
from ..pxv import Obj, Sym
from ..te import ClassRef, Member, TypeRef
from .util import anchor_attrs
from .util import const, fut, same_class, self_obj

EZ = "bellows.ezsp"
from ..su import VERSIONS as KNOWN  # noqa: E402  (shared list, filled from EZSP._BY_VERSION)


def ez_cls(ctx):
    return ctx.repo.cls(EZ, "EZSP")


def event_models(holder):
    return [("self._ezsp_event.set", lambda px, t, a, k, fr: holder.__setitem__("running", True)),
            ("self._ezsp_event.clear", lambda px, t, a, k, fr: holder.__setitem__("running", False)),
            ("self._ezsp_event.is_set", lambda px, t, a, k, fr: holder["running"])]


def ez_inline(g, aw):
    return g.cls is not None and g.cls.name == "EZSP" and g.name in ("_switch_protocol_version", "start_ezsp", "stop_ezsp", "is_ezsp_running", "ezsp_version",
                                                                     "is_tcp_serial_port")


def running_at_end(p, initial):
    r = initial
    for e in p.events:
        if e.kind == "call" and e.what == "self._ezsp_event.set":
            r = True
        elif e.kind == "call" and e.what == "self._ezsp_event.clear":
            r = False
        elif e.kind == "await" and e.what == "self.reset" and not str(e.extra).startswith("raises"):
            r = True
    return r


def proto_version(ctx, o):
    if isinstance(o, Obj) and isinstance(o.cls, ClassRef):
        try:
            return o.cls.lookup("VERSION")
        except KeyError:
            return None
    return None


@rule("R09.1", ["C09"], "T-ORD", floor=3)
def r09_1(ctx):
    """After every reset framing falls back to the legacy format: EZSP.reset stops EZSP, awaits the gateway
    reset, then installs the version-4 handler *and* records version 4 as the negotiated version, and only then
    marks EZSP running; if the gateway reset fails EZSP stays stopped. connect() installs the version-4 handler."""
    anchor_attrs(ctx, "EZSP", "_ezsp_version", "_protocol", "_gw", "_ezsp_event")
    repo = ctx.repo
    f = repo.func(f"{EZ}:EZSP.reset")
    ctx.fn(f)
    for prev in (8, 14):
        holder = {"running": True}
        px = PX(repo, models=event_models(holder) + [("self._gw.reset", Outcomes(OK(True), RAISE("TimeoutError"), RAISE("ConnectionResetError")))], inline=same_class(stop=("handle_callback",)))

        def setup():
            holder["running"] = True
            return self_obj(ez_cls(ctx), {"_ezsp_version": prev, "_protocol": Obj(repo.cls(f"bellows.ezsp.v{prev}", f"EZSPv{prev}"), {}, tag="old"),
                                          "_gw": Obj(TypeRef("Gateway"), {}, tag="gw")}), {}

        for p in px.explore(f, setup):
            ctx.paths += 1
            aw = [e for e in p.events if e.kind == "await" and e.what == "self._gw.reset"]
            st = p.store["self"]
            bad = None
            if len(aw) != 1:
                bad = f"{len(aw)} gateway resets"
            else:
                stops = [e for e in p.events[: p.events.index(aw[0])] if e.kind == "call" and e.what == "self._ezsp_event.clear"]
                if not stops:
                    bad = "EZSP is not stopped before the reset"
                elif aw[0].extra is True:
                    if st.get("_ezsp_version") != 4 or proto_version(ctx, st.get("_protocol")) != 4:
                        bad = (f"after a reset the negotiated version is {st.get('_ezsp_version')!r} and the handler is v{proto_version(ctx, st.get('_protocol'))}: "
                               "the NCP talks the legacy format again, so both must be 4 until negotiation is repeated")
                    elif not running_at_end(p, True) or p.terminal != "return":
                        bad = "EZSP is not running after a successful reset"
                    else:
                        sets = [e for e in p.events if e.kind == "call" and e.what == "self._ezsp_event.set"]
                        sw = [e for e in p.events if e.kind == "write" and e.what == "self._protocol"]
                        if not sets or not sw or p.events.index(sets[0]) < p.events.index(sw[-1]):
                            bad = "EZSP is marked running before the version-4 handler is installed"
                elif running_at_end(p, True) or p.terminal != "raise":
                    bad = f"gateway reset failed ({aw[0].extra}) but EZSP is running / reset() returns"
            ctx.require(not bad, f"reset:from-v{prev}", f"EZSP.reset from v{prev} [{aw[0].extra if aw else '-'}]: {bad}", func=f, trace=p.trace(14))
    c = repo.func(f"{EZ}:EZSP.connect")
    ctx.fn(c)
    px = PX(repo, models=[("bellows.uart.connect", Outcomes(OK(Obj(TypeRef("Gateway"), {}, tag="gw"))))], inline=same_class(stop=("handle_callback",)))
    for before in (4, 8, 14):  # (also on an object that was connected, negotiated and closed before: a new link starts in the legacy format)
        for p in px.explore(c, lambda: (self_obj(ez_cls(ctx), {"_gw": None, "_ezsp_version": before}), {})):
            st = p.store["self"]
            ctx.require(p.terminal == "return" and proto_version(ctx, st.get("_protocol")) == 4 and getattr(st.get("_gw"), "tag", None) == "gw",
                        "connect" if before == 4 else f"connect:after-v{before}",
                        f"connect() (version recorded before: {before}) leaves handler v{proto_version(ctx, st.get('_protocol'))}, gateway {st.get('_gw')!r}", func=c)


@rule("R09.2", ["C09", "C13"], "T-FUN", floor=14)
def r09_2(ctx):
    """Two-step version query for NCP versions 4..16 and 255: the first query asks for the current version; when
    the NCP reports another one the host adopts it (handler of exactly that version for 4..14, the newest known
    handler for anything newer, the reported version always recorded) and confirms with a second query that asks
    for the *reported* version; when it reports the current one there is no second query; _BY_VERSION maps every
    k in 4..14 to a handler whose VERSION is k and EZSP_LATEST is the largest."""
    repo = ctx.repo
    by = ez_cls(ctx).lookup("_BY_VERSION")
    ctx.require(isinstance(by, dict) and sorted(by) == list(KNOWN) and list(KNOWN) == list(range(KNOWN[0], KNOWN[-1] + 1)), "_BY_VERSION:keys",
                f"_BY_VERSION keys are {sorted(by) if isinstance(by, dict) else by!r}: supported versions must be contiguous from 4", props=("C09",))
    for k, c in (by.items() if isinstance(by, dict) else []):
        ctx.require(isinstance(c, ClassRef) and c.lookup("VERSION") == k, f"_BY_VERSION:{k}", f"_BY_VERSION[{k}] is {c!r} with VERSION {c.lookup('VERSION') if isinstance(c, ClassRef) else '?'}", props=("C09",))
    latest = repo.get(EZ, "EZSP_LATEST")
    ctx.require(latest == max(KNOWN), "EZSP_LATEST", f"EZSP_LATEST = {latest!r}", props=("C09",))
    f = repo.func(f"{EZ}:EZSP.version")
    ctx.fn(f)
    for ncp in list(KNOWN) + [KNOWN[-1] + 1, KNOWN[-1] + 2, 255]:
        px = PX(repo, models=[("self._command", lambda px_, t, a, k, fr: (ncp, Sym("stack_type"), Sym("stack_version")))], inline=same_class(stop=("handle_callback",)))

        def setup():
            return self_obj(ez_cls(ctx), {"_ezsp_version": 4, "_protocol": Obj(repo.cls("bellows.ezsp.v4", "EZSPv4"), {}, tag="v4"), "_gw": Sym("gw")}), {}

        for p in px.explore(f, setup):
            ctx.paths += 1
            q = [e for e in p.events if e.kind == "await" and e.what == "self._command"]
            st = p.store["self"]
            want_handler = ncp if ncp in KNOWN else max(KNOWN)
            bad = None
            if not q or q[0].args[:1] != ("version",) or q[0].kwargs.get("desiredProtocolVersion") != 4:
                bad = f"first query is {q[0].args if q else None!r} {q[0].kwargs if q else ''} (must ask for the current version 4 in the legacy format)"
            elif st.get("_ezsp_version") != ncp:
                bad = f"recorded version is {st.get('_ezsp_version')!r}, the NCP reported {ncp}"
            elif proto_version(ctx, st.get("_protocol")) != want_handler:
                bad = f"handler in use is v{proto_version(ctx, st.get('_protocol'))}, must be v{want_handler}"
            elif ncp == 4 and len(q) != 1:
                bad = f"{len(q)} queries although the NCP already speaks the current version"
            elif ncp != 4:
                if len(q) != 2:
                    bad = f"{len(q)} version queries; the adopted version must be confirmed with a second query"
                elif q[1].kwargs.get("desiredProtocolVersion") != ncp or q[1].args[:1] != ("version",):
                    bad = f"the confirming query asks for version {q[1].kwargs.get('desiredProtocolVersion')!r}, the NCP reported {ncp}"
                else:
                    sw = [e for e in p.events if e.kind == "write" and e.what == "self._protocol"]
                    if not sw or not (p.events.index(q[0]) < p.events.index(sw[0]) < p.events.index(q[1])):
                        bad = "the handler is not switched between the two queries (the confirming query must use the new format)"
            ctx.require(not bad and p.terminal == "return", f"version:ncp={'known' if ncp in KNOWN else 'newer'}:{'same' if ncp == 4 else 'other'}",
                        f"NCP version {ncp}: {bad}", func=f, trace=p.trace(12), props=("C09",))
    # the confirming query gets no answer (the frame or its reply is lost; the application then retries or resets): whatever happens,
    # the recorded version - which the application uses to pick the field order when it unpacks callbacks - and the installed handler
    # - which decodes them - must still belong together
    for ncp in (8, KNOWN[-1]):
        calls = {"n": 0}

        def cmd(px_, t, a, k, fr, ncp=ncp):
            calls["n"] += 1
            return (ncp, Sym("stack_type"), Sym("stack_version")) if calls["n"] == 1 else Outcomes(RAISE("TimeoutError"))

        pxf = PX(repo, models=[("self._command", cmd)], inline=same_class(stop=("handle_callback",)))

        def setup_f():
            calls["n"] = 0
            return self_obj(ez_cls(ctx), {"_ezsp_version": 4, "_protocol": Obj(repo.cls("bellows.ezsp.v4", "EZSPv4"), {}, tag="v4"), "_gw": Sym("gw")}), {}

        for p in pxf.explore(f, setup_f):
            ctx.paths += 1
            st = p.store["self"]
            rec, han = st.get("_ezsp_version"), proto_version(ctx, st.get("_protocol"))
            ctx.require(p.raised("TimeoutError") and ((rec == ncp and han == ncp) or (rec == 4 and han == 4)), "version:confirmation-lost",
                        f"NCP version {ncp}, the confirming query times out: version() {p.terminal}s {p.value!r} with recorded version {rec!r} and handler v{han} "
                        "(the two must still agree)", func=f, trace=p.trace(12), props=("C09", "C13"))
    # history on ONE EZSP object: negotiate, reset, negotiate again (the NCP forgets the negotiated version with every reset, so the
    # whole exchange must be repeated: legacy first query for version 4, handler switched, confirming query for the reported version)
    rf = repo.func(f"{EZ}:EZSP.reset")
    for ncp in (8, KNOWN[-1], KNOWN[-1] + 1):
        holder = {"running": True}
        pxh = PX(repo, models=event_models(holder) + [("self._command", lambda px_, t, a, k, fr: (ncp, Sym("stack_type"), Sym("stack_version"))),
                                                      ("self._gw.reset", Outcomes(OK(True)))], inline=same_class(stop=("handle_callback",)))
        pxh.inline.root = f
        marks = {}

        def hentry():
            holder["running"] = True
            me = self_obj(ez_cls(ctx), {"_ezsp_version": 4, "_protocol": Obj(repo.cls("bellows.ezsp.v4", "EZSPv4"), {}, tag="v4"), "_gw": Obj(TypeRef("Gateway"), {}, tag="gw")})
            pxh.top_frame = None
            pxh.call_function(f, me, [], {}, None)
            pxh.emit("mark", "reset")
            pxh.call_function(rf, me, [], {}, None)
            pxh.emit("mark", "second negotiation")
            marks["proto_before"] = proto_version(ctx, me.fields.get("_protocol"))
            pxh.call_function(f, me, [], {}, None)
            return me

        for p in pxh._run(hentry):
            ctx.paths += 1
            bad = None
            if p.terminal != "return":
                bad = f"raises {p.value!r}"
            else:
                i = next(k for k, e in enumerate(p.events) if e.kind == "mark" and e.what == "second negotiation")
                q = [e for e in p.events[i:] if e.kind == "await" and e.what == "self._command"]
                me = p.value
                if marks.get("proto_before") != 4:
                    bad = f"after the reset the handler is v{marks.get('proto_before')}, not the legacy one"
                elif len(q) != 2:
                    bad = f"the second negotiation issues {len(q)} version queries; after a reset the NCP must be asked and then told the version again (2)"
                elif q[0].kwargs.get("desiredProtocolVersion") != 4 or q[1].kwargs.get("desiredProtocolVersion") != ncp:
                    bad = f"the second negotiation asks for {[e.kwargs.get('desiredProtocolVersion') for e in q]!r}, must be [4, {ncp}]"
                elif me.fields.get("_ezsp_version") != ncp or proto_version(ctx, me.fields.get("_protocol")) != (ncp if ncp in KNOWN else max(KNOWN)):
                    bad = f"ends with version {me.fields.get('_ezsp_version')!r} / handler v{proto_version(ctx, me.fields.get('_protocol'))}"
            ctx.require(not bad, "version:renegotiation-after-reset", f"NCP version {ncp}, negotiate / reset / negotiate on one object: {bad}", func=f, trace=p.trace(30), props=("C09",))


@rule("R09.5", ["C09", "C11"], "T-ORD", floor=4)
def r09_5(ctx):
    """Start-up: on a socket:// path the host waits (bounded) for the NCP's spontaneous reset and, if it is seen,
    marks EZSP running and does not reset again; otherwise - serial path, or the spontaneous reset is late or
    absent - it performs the reset; every successful start-up ends with the version negotiation; a waiter released with the
    connection error makes start-up fail with that error (nothing is marked running).  The bounded wait may be written with
    asyncio.timeout or with asyncio.wait(timeout=...)."""
    repo = ctx.repo
    f = repo.func(f"{EZ}:EZSP.startup_reset")
    ctx.fn(f)
    w = const(ctx, EZ, "NETWORK_COORDINATOR_STARTUP_RESET_WAIT")
    ctx.require(0 < w <= 30, "startup-wait", f"NETWORK_COORDINATOR_STARTUP_RESET_WAIT = {w}")
    for scheme in ("socket", ""):
        holder = {"running": False}

        def do_reset(px_, t, a, k, fr):
            holder["running"] = True
            return Outcomes(OK(None))

        import urllib.parse as _up

        models = event_models(holder) + [("urllib.parse.urlparse", lambda px_, t, a, k, fr: Obj(TypeRef("ParseResult"), {"scheme": scheme}, tag="url")),
                                         ("urllib.parse.urlsplit", lambda px_, t, a, k, fr: _up.SplitResult(scheme, "host:1", "", "", "")),
                                         # the waiter ends with the RSTACK, is released with the connection error, or - under asyncio.timeout - is
                                         # interrupted by the time limit (inside a bounded asyncio.wait the limit leaves the task pending instead)
                                         ("self._gw.wait_for_startup_reset", lambda px_, t, a, k, fr: Outcomes(OK(None), RAISE("ConnectionResetError")) if getattr(
                                             px_, "in_wait_task", False) else Outcomes(OK(None), RAISE("ConnectionResetError"), RAISE("TimeoutError"))),
                                         ("self.reset", do_reset), ("self.version", Outcomes(OK(None))),
                                         ("self._config[conf.CONF_DEVICE_PATH]", lambda *a: "path")]
        px = PX(repo, models=models, inline=same_class(stop=("handle_callback",)))

        def setup():
            holder["running"] = False
            return self_obj(ez_cls(ctx), {"_config": Sym("cfg")}), {}

        for p in px.explore(f, setup):
            ctx.paths += 1
            wt = [e for e in p.events if e.kind == "await" and e.what == "self._gw.wait_for_startup_reset"]
            rs = [e for e in p.events if e.kind == "await" and e.what == "self.reset"]
            vs = [e for e in p.events if e.kind == "await" and e.what == "self.version"]
            aw = [e for e in p.events if e.kind == "await"]
            bad = None
            seen = bool(wt) and not str(wt[0].extra).startswith("raises")
            # a bounded asyncio.wait that ended with the waiter still pending is the time-out of that form
            timed_out_wait = [e for e in aw if e.what == "asyncio.wait" and isinstance(e.extra, tuple) and e.extra[1] >= 1 and e.kwargs.get("timeout") is not None]
            lost = bool(wt) and str(wt[0].extra) == "raises ConnectionResetError"
            if scheme == "socket" and not (len(wt) == 1 and any(c.endswith("asyncio_timeout") for c in wt[0].ctx)) and not (not wt and timed_out_wait):
                bad = "socket path: the spontaneous start-up reset is not awaited inside asyncio_timeout"
            elif lost:
                # released with the connection error: the handshake did not complete - nothing may be marked running, negotiated or reset
                if not (p.terminal == "raise" and getattr(p.value, "cls_name", None) == "ConnectionResetError") or vs or rs or running_at_end(p, False):
                    bad = (f"the start-up waiter is released with a connection error but startup_reset ends with {p.terminal} {p.value!r} after "
                           f"{[e.what for e in aw]}: the error must propagate (no RSTACK was received)")
            elif scheme != "socket" and wt:
                bad = "serial path waits for a spontaneous reset"
            elif seen and rs:
                bad = "the start-up reset was seen but the NCP is reset again"
            elif not seen and len(rs) != 1:
                bad = f"no start-up reset seen but {len(rs)} resets performed"
            elif p.terminal != "return" or len(vs) != 1 or aw[-1] is not vs[0]:
                bad = f"start-up does not end with the version negotiation: awaits {[e.what for e in aw]}"
            elif not running_at_end(p, False):
                bad = "EZSP is not marked running when negotiation starts"
            ctx.require(not bad, f"startup:{scheme or 'serial'}:{'lost' if lost else ('seen' if seen else 'not-seen')}", f"{scheme or 'serial'} path, spontaneous reset {'seen' if seen else 'not seen'}: {bad}",
                        func=f, trace=p.trace(14))


@rule("R09.6", ["C09"], "T-TAB", floor=11)
def r09_6(ctx):
    """The default configuration written after negotiation names only configuration / value IDs that exist, in
    every version's default list (so the write cannot fail on a lookup), and a default list exists for 4..14."""
    repo = ctx.repo
    d = repo.get("bellows.ezsp.config", "DEFAULT_CONFIG")
    ctx.require(isinstance(d, dict) and set(KNOWN) <= set(d), "DEFAULT_CONFIG:keys", f"DEFAULT_CONFIG keys {sorted(d) if isinstance(d, dict) else d!r} do not cover "
                f"the supported versions {list(KNOWN)}")
    cfg_ids = repo.cls("bellows.types.named", "EzspConfigId").members()
    val_ids = repo.cls("bellows.types.named", "EzspValueId").members()
    for v in KNOWN:
        for rec in d[v]:
            cid = rec.get("config_id", 0) if rec.ctor_name == "RuntimeConfig" else rec.get("value_id", 0)
            table = cfg_ids if rec.ctor_name == "RuntimeConfig" else val_ids
            ctx.require(isinstance(cid, Member) and cid.name in table, f"v{v}:{getattr(cid, 'name', cid)}", f"v{v} default {rec!r} names no existing ID")
