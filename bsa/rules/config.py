"""C16: configuration write - no shrink, overrides honoured, buffer count last."""
from __future__ import annotations

import re

from ..core import rule
from ..errors import AnalysisError
from ..px import OK, PX, RAISE, Outcomes
from ..pxv import Obj, Sym
from ..te import Member, Record
from .util import same_class, self_obj

EZSP = "bellows.ezsp"
NAMED = "bellows.types.named"
CAPACITY = re.compile(r"(_TABLE_SIZE|_CACHE_SIZE|MAX_END_DEVICE_CHILDREN|SUPPORTED_NETWORKS)$")
BUFFER = "CONFIG_PACKET_BUFFER_COUNT"
from ..su import VERSIONS  # noqa: E402  (shared list, filled from EZSP._BY_VERSION)


def schema_of(ctx, v):
    s = ctx.repo.get(f"bellows.ezsp.v{v}.config", "EZSP_SCHEMA")
    if not isinstance(s, dict) or len(s) < 10:
        raise AnalysisError(f"EZSP_SCHEMA of v{v} unresolved")
    out = {}
    for marker in s:
        if not (isinstance(marker, Record) and marker.ctor_name in ("Optional", "Required") and marker.args and isinstance(marker.args[0], str)):
            raise AnalysisError(f"v{v} schema key {marker!r} is not a vol.Optional/Required marker")
        out[marker.args[0]] = marker.kwargs.get("default", None) if "default" in marker.kwargs else "<none>"
    return out


def defaults_of(ctx, v):
    d = ctx.repo.get("bellows.ezsp.config", "DEFAULT_CONFIG")
    if not isinstance(d, dict) or v not in d:
        raise AnalysisError(f"DEFAULT_CONFIG[{v}] unresolved")
    if not isinstance(d[v], (list, tuple)) or not all(hasattr(r, "ctor_name") for r in d[v]):
        raise AnalysisError(f"DEFAULT_CONFIG[{v}] did not resolve to a list of records: {d[v]!r:.120}")
    return d[v]


def run_write_config(ctx, v, user, current, set_ok=True, proto_v=None, reject=None, after_refused_run=False):
    """One concrete abstract run of EZSP.write_config; current(name, value) -> (read_ok, current value)."""
    repo = ctx.repo
    f = repo.func(f"{EZSP}:EZSP.write_config")
    ez = repo.cls(EZSP, "EZSP")
    es = repo.cls(NAMED, "EmberStatus").members()
    pv = proto_v or v
    sch = schema_of(ctx, pv)

    def schema_model(px, t, a, k, fr):
        out = dict(a[0])
        for name, dflt in sch.items():
            if dflt != "<none>" and name not in out:
                out[name] = dflt
        unknown = [n for n in out if n not in sch]
        if unknown:
            raise AnalysisError(f"override {unknown} not in the v{pv} schema (rule scenario defect)")
        return out

    defaults = {}
    for rec in defaults_of(ctx, pv if v not in repo.get("bellows.ezsp.config", "DEFAULT_CONFIG") else v):
        if rec.ctor_name == "RuntimeConfig":
            defaults[rec.get("config_id", 0).name] = rec.get("value", 1)

    def getcfg(px, t, a, k, fr):
        cid = k.get("configId", a[0] if a else None)
        name = cid.name
        okr, cur = current(name, k, px)
        if okr == "garbage-equal":
            # a refused read whose value field happens to hold the very value the host is about to write (left-over bytes)
            okr, cur = False, user.get(name, defaults.get(name, 0))
        if okr == "timeout":
            return Outcomes(RAISE("TimeoutError"))  # the read is not answered within the command timeout
        return (es["SUCCESS"] if okr else es["ERR_FATAL"], cur)

    state = {}

    def wrap_get(px, t, a, k, fr):
        r = getcfg(px, t, a, k, fr)
        cid = k.get("configId", a[0] if a else None)
        state[cid.name] = r if isinstance(r, tuple) else ("timeout", None)
        return r

    # statuses carry the type the version's response schema declares (legacy EmberStatus/EzspStatus below v14, sl_Status from v14)
    cmds = repo.get(f"bellows.ezsp.v{pv}.commands", "COMMANDS")

    def st(cmd, ok):
        ty = list(cmds[cmd][2].values())[0]
        fam = repo.cls(NAMED, getattr(ty, "name", "EmberStatus")).members()
        if ok:
            return fam.get("SUCCESS") or fam["OK"]
        return fam.get("ERR_FATAL") or fam.get("ERROR_INVALID_CALL") or fam.get("FAIL")

    es = {"SUCCESS": st("getConfigurationValue", True), "ERR_FATAL": st("getConfigurationValue", False)}
    models = [("self._protocol.SCHEMAS[conf.CONF_EZSP_CONFIG]", schema_model),
              ("self.getConfigurationValue", wrap_get),
              ("self.setConfigurationValue", lambda px, t, a, k, fr: (es["SUCCESS"] if set_ok and not phase.get("refuse") else (reject or es["ERR_FATAL"]),)),
              ("self.getValue", lambda px, t, a, k, fr: (es["SUCCESS"], b"\x00")),
              ("self.setValue", lambda px, t, a, k, fr: (es["SUCCESS"] if set_ok and not phase.get("refuse") else (reject or es["ERR_FATAL"]),))]
    phase = {}
    px = PX(repo, models=models, inline=same_class(), max_paths=200, max_depth=5)
    pc = repo.cls(f"bellows.ezsp.v{pv}", f"EZSPv{pv}")

    given = {}

    def setup():
        given["config"] = dict(user)
        return self_obj(ez, {"_ezsp_version": v, "_protocol": Obj(pc, {}, tag="proto")}), {"config": given["config"]}

    if after_refused_run:
        # history on one EZSP object: a first configuration write in which the NCP refuses every set, then the write under test
        px.inline.root = f

        def entry():
            me, kw = setup()
            px.top_frame = None
            phase["refuse"] = True
            px.call_function(f, me, [], {"config": dict(user)}, None)
            phase["refuse"] = False
            px.emit("mark", "second write")
            return px.call_function(f, me, [], kw, None)

        paths = px._run(entry)
    else:
        paths = px.explore(f, setup)
    if len(paths) != 1:
        raise AnalysisError(f"write_config: {len(paths)} paths on a concrete scenario (v{v}, overrides {user})")
    p = paths[0]
    if after_refused_run:
        cut = next((i for i, e in enumerate(p.events) if e.kind == "mark" and e.what == "second write"), None)
        if cut is not None:
            p.events = p.events[cut:]
    # the caller keeps using the dict it passed (the application writes the configuration again after every reset)
    ctx.require(given["config"] == dict(user) and list(given["config"]) == list(user), "argument-mutated",
                f"write_config modifies the configuration dict it is given: {dict(user)!r} -> {given['config']!r}; the next write (after a reset) no longer "
                "sees what the user specified", func=f)
    sets = []
    for e in p.events:
        if e.kind == "await" and e.what == "self.setConfigurationValue":
            cid = e.kwargs.get("configId", e.args[0] if e.args else None)
            val = e.kwargs.get("value", e.args[1] if len(e.args) > 1 else None)
            if not isinstance(cid, Member):
                raise AnalysisError(f"setConfigurationValue with unresolved id {cid!r}")
            sets.append((cid.name, val, state.get(cid.name)))
    # every set-type command in the order issued (configuration values and plain values alike)
    p.all_sets = []
    for e in p.events:
        if e.kind == "await" and e.what in ("self.setConfigurationValue", "self.setValue"):
            ident = e.kwargs.get("configId", e.kwargs.get("valueId", e.args[0] if e.args else None))
            p.all_sets.append(getattr(ident, "name", repr(ident)))
    return f, p, sets


def _range_min(validator):
    """Smallest value a schema validator admits (from its vol.Range), 1 if unbounded."""
    stack = [validator]
    while stack:
        r = stack.pop()
        if isinstance(r, Record):
            if r.ctor_name == "Range":
                lo = r.kwargs.get("min")
                return lo if isinstance(lo, int) else 1
            stack.extend(r.args)
            stack.extend(r.kwargs.values())
    return 1


def cur_factory(mode):
    def current(name, k, px):
        # the value the NCP reports relative to what the host is about to write is decided after the fact
        if mode == "timeout":
            return ("timeout", None)
        if mode == "unreadable-equal":
            return ("garbage-equal", None)
        return (mode != "unreadable", {"below": 0, "above": 10 ** 6, "unreadable": 0}[mode])

    return current


@rule("R16.1", ["C16"], "T-TAB", floor=22)
def r16_1(ctx):
    """Per version: defaults have unique names that are real configuration / value IDs, the packet-buffer count
    is among them, every capacity default (table sizes, cache sizes, child and network counts) is marked
    grow-only, and no schema default shadows a grow-only default (the schema default would come back as an
    unconditional override and could lower the NCP's value)."""
    repo = ctx.repo
    cfg_ids = repo.cls(NAMED, "EzspConfigId").members()
    val_ids = repo.cls(NAMED, "EzspValueId").members()
    for v in VERSIONS:
        names = []
        grow = set()
        for rec in defaults_of(ctx, v):
            if rec.ctor_name == "RuntimeConfig":
                cid = rec.get("config_id", 0)
                ok = isinstance(cid, Member) and cid.name in cfg_ids
                ctx.require(ok, f"v{v}:default-id:{getattr(cid, 'name', cid)}", f"v{v} default {rec!r} does not name an EzspConfigId member")
                if ok:
                    names.append(cid.name)
                    if rec.get("minimum", 2, False):
                        grow.add(cid.name)
            elif rec.ctor_name == "ValueConfig":
                vid = rec.get("value_id", 0)
                ctx.require(isinstance(vid, Member) and vid.name in val_ids, f"v{v}:default-value-id", f"v{v} default {rec!r} does not name an EzspValueId member")
            else:
                ctx.violation(f"v{v}:default-kind", f"v{v} default {rec!r} is neither RuntimeConfig nor ValueConfig")
        dup = sorted({n for n in names if names.count(n) > 1})
        ctx.require(not dup, f"v{v}:unique", f"v{v} defaults list {dup} more than once: a setting would be written twice")
        ctx.require(BUFFER in names, f"v{v}:buffer-count", f"v{v} defaults do not set {BUFFER}")
        for n in names:
            if CAPACITY.search(n):
                ctx.require(n in grow, f"v{v}:grow-only:{n}", f"v{v}: capacity default {n} is not marked grow-only (minimum=True): applying the default could "
                            "lower the value the NCP already reports")
        sch = schema_of(ctx, v)
        for n in sorted(grow):
            if sch.get(n, "<none>") not in ("<none>", None):
                ctx.violation(f"shadow:v{v}:{n}", f"v{v}: the configuration schema gives {n} a default ({sch[n]}); it reaches write_config as a user override, "
                              f"replaces the grow-only default and is written unconditionally - an NCP reporting a larger value is lowered to {sch[n]}",
                              file=f"bellows/ezsp/v{v}/config.py", construct=n)
            else:
                ctx.ok(1)


SCENARIOS = [
    ("none", {}),
    ("override-default", {"CONFIG_MULTICAST_TABLE_SIZE": 123}),
    ("override-nondefault", {"CONFIG_NEIGHBOR_TABLE_SIZE": 16}),
    ("override-buffer", {BUFFER: 100}),
    ("override-buffer-then-nondefault", {BUFFER: 100, "CONFIG_NEIGHBOR_TABLE_SIZE": 16}),
    ("override-nondefault-then-buffer", {"CONFIG_NEIGHBOR_TABLE_SIZE": 16, BUFFER: 100}),
    ("override-lower", {"CONFIG_ADDRESS_TABLE_SIZE": 8}),
    ("override-zero", {"CONFIG_ADDRESS_TABLE_SIZE": 0}),  # 0 is a value the schema admits, not "disabled"
    ("override-16bit", {"CONFIG_INDIRECT_TRANSMISSION_TIMEOUT": 30000}),
    ("disable-default", {"CONFIG_STACK_PROFILE": None}),
    ("disable-nondefault", {"CONFIG_NEIGHBOR_TABLE_SIZE": None}),
    ("disable-buffer", {BUFFER: None}),
]


@rule("R16.2", ["C16", "C14"], "T-FUN", floor=600)
def r16_2(ctx):
    """write_config evaluated for every version 4..14 x override scenario (none; override of a default, of a
    non-default setting, of the buffer count, in both orders; a lowering override; an override of 0; a 16-bit value; a disabled default /
    non-default / buffer count) x NCP answers (current value below / above the value to write / unreadable / unreadable with a
    value field that equals the value to write) x
    (set accepted / rejected): each setting is set at most once; a capacity setting the user did not specify is
    never set to less than the value the NCP reports; a user value is set exactly as given, whatever the NCP
    reports; a disabled setting is not set and nothing raises; the packet-buffer count is the last configuration
    value set; a rejected set does not stop the remaining ones."""
    n_runs = 0
    for v in VERSIONS:
        sch = schema_of(ctx, v)
        for sname, user in SCENARIOS:
            if any(k not in sch for k in user):
                raise AnalysisError(f"scenario {sname}: {sorted(user)} not all in the v{v} schema")
            base = None
            for mode in ("below", "above", "unreadable", "unreadable-equal"):
                for set_ok in (True, False):
                    f, p, sets = run_write_config(ctx, v, user, cur_factory(mode), set_ok)
                    n_runs += 1
                    ctx.paths += 1
                    key = f"v{v}:{sname}:{mode}:{'accepted' if set_ok else 'rejected'}"
                    names = [n for n, _, _ in sets]
                    bad = []
                    if p.terminal != "return":
                        bad.append(("raises", f"write_config raises {p.value!r}"))
                    dup = sorted({n for n in names if names.count(n) > 1})
                    if dup:
                        bad.append(("twice", f"{dup} set more than once"))
                    for n, val, rd in sets:
                        if n in user:
                            continue
                        if CAPACITY.search(n) and rd is not None and rd[0].value == 0 and rd[0].name in ("SUCCESS", "OK") and isinstance(rd[1], int) and isinstance(val, int) and rd[1] > val:
                            bad.append((f"shrink:{n}", f"capacity setting {n} is lowered from the NCP's {rd[1]} to {val} although the user did not ask for it"))
                    for n, uval in user.items():
                        mine = [val for m, val, _ in sets if m == n]
                        if uval is None:
                            if mine:
                                bad.append((f"disabled-written:{n}", f"disabled setting {n} is still set to {mine}"))
                        elif mine != [uval]:
                            bad.append((f"override:{n}", f"user value {n}={uval} is set as {mine} (NCP reports {mode})"))
                    if BUFFER in names and names[-1] != BUFFER:
                        bad.append(("buffer-not-last", f"{BUFFER} is followed by {names[names.index(BUFFER) + 1:]}"))
                    # plain values (setValue) are settings too: each at most once, none after the buffer count
                    alls = p.all_sets
                    vdup = sorted({n for n in alls if alls.count(n) > 1} - set(dup))
                    if vdup:
                        bad.append(("twice", f"{vdup} set more than once"))
                    if BUFFER in alls and alls[-1] != BUFFER and not (BUFFER in names and names[-1] != BUFFER):
                        bad.append(("buffer-not-last", f"{BUFFER} is followed by {alls[alls.index(BUFFER) + 1:]}"))
                    if set_ok:
                        base = (mode, names) if base is None or base[0] != mode else base
                    elif base and base[0] == mode and names != base[1]:
                        bad.append(("reject-stops", f"with every set rejected only {len(names)} of {len(base[1])} settings are attempted"))
                    if bad:
                        for cat, msg in bad:
                            # a table the restore relies on (link keys, children) lowered behind the user's back also loses restored
                            # entries: those findings bear on the round trip (C14) as well
                            both = cat.startswith("shrink") and any(x in cat for x in ("KEY_TABLE_SIZE", "MAX_END_DEVICE_CHILDREN"))
                            ctx.violation(f"write_config:{cat}:v{v}" if cat.startswith("shrink") else f"write_config:{cat}:{sname}", f"{key}: {msg}", func=f,
                                          trace=[f"set {n}={val!r} (NCP had {rd!r})" for n, val, rd in sets], construct=key, props=None if both else ("C16",))
                    else:
                        ctx.ok(1, key)
    # history: an earlier write in which the NCP refused every set must not change what a later write on the same object sets
    for v in (VERSIONS[0], 8, VERSIONS[-1]):
        for sname, user in SCENARIOS:
            f, p0, sets0 = run_write_config(ctx, v, user, cur_factory("below"), True)
            f, p1, sets1 = run_write_config(ctx, v, user, cur_factory("below"), True, after_refused_run=True)
            n_runs += 1
            ctx.require(p1.terminal == "return" and [(n, val) for n, val, _ in sets1] == [(n, val) for n, val, _ in sets0] and p1.all_sets == p0.all_sets,
                        f"write_config:after-refused-run:{sname}", f"v{v} {sname}: after a write in which the NCP refused every setting, the next write on the same object sets "
                        f"{[(n, val) for n, val, _ in sets1][-4:]} ... ({len(p1.all_sets)} sets); a fresh object sets {[(n, val) for n, val, _ in sets0][-4:]} ... ({len(p0.all_sets)} sets)",
                        func=f, props=("C16",))
    # a read that is not answered in time tells nothing about the NCP's value: the write either aborts (the time-out propagates)
    # or leaves grow-only settings alone - it never writes a capacity default over a value it could not read
    for v in VERSIONS:
        f, p, sets = run_write_config(ctx, v, {}, cur_factory("timeout"), True)
        n_runs += 1
        blind = [n for n, val, rd in sets if CAPACITY.search(n) and rd is not None and rd[0] == "timeout"]
        ctx.require(not blind, f"write_config:read-timeout:v{v}", f"v{v}: the read of {blind[:3]} timed out and the capacity default was written anyway: an NCP holding "
                    "a larger value is lowered", func=f, props=("C16",))
    if ctx.run.tier == "thorough":
        # every key of every version's schema, overridden and disabled
        for v in VERSIONS:
            raw = ctx.repo.get(f"bellows.ezsp.v{v}.config", "EZSP_SCHEMA")
            for marker, validator in raw.items():
                k = marker.args[0]
                lo = _range_min(validator)
                for user in ({k: lo}, {k: None}):
                    for mode in ("below", "above"):
                        f, p, sets = run_write_config(ctx, v, user, cur_factory(mode), True)
                        n_runs += 1
                        names = [n for n, _, _ in sets]
                        mine = [val for m, val, _ in sets if m == k]
                        ok = p.terminal == "return" and len(names) == len(set(names)) and (not names or BUFFER not in names or names[-1] == BUFFER) \
                            and (mine == [] if user[k] is None else mine == [user[k]])
                        ctx.require(ok, f"every-key:v{v}:{k}:{'disable' if user[k] is None else 'override'}:{mode}",
                                    f"v{v} {user} ({mode}): {p.terminal} {p.value if p.terminal == 'raise' else ''}; sets {names[-3:]}, own {mine}", func=f, props=("C16",))
    # every distinct rejection status (each preimage of the normalisation table, plus unmapped codes) continues the loop
    repo = ctx.repo
    table = repo.get(NAMED, "SL_STATUS_MAP")
    rejects = [k[1] for k, val in table.items() if val.value != 0]
    rejects += [repo.cls(NAMED, "EzspStatus").members()["ERROR_VERSION_NOT_SET"], repo.cls(NAMED, "sl_Status").members()["FAIL"],
                repo.cls(NAMED, "sl_Status").members()["NO_MORE_RESOURCE"], repo.cls(NAMED, "sl_Status").members()["INVALID_PARAMETER"]]
    for v in (VERSIONS[0], 8, VERSIONS[-1]):
        f, p, base_sets = run_write_config(ctx, v, {}, cur_factory("below"), True)
        for rj in rejects:
            f, p, sets = run_write_config(ctx, v, {}, cur_factory("below"), False, reject=rj)
            n_runs += 1
            ctx.require(p.terminal == "return" and [n for n, _, _ in sets] == [n for n, _, _ in base_sets], f"reject-continues:{rj!r}",
                        f"v{v}: when the NCP rejects settings with {rj!r} only {len(sets)} of {len(base_sets)} settings are attempted "
                        f"({p.terminal} {p.value if p.terminal == 'raise' else ''})", func=f, props=("C16",))
    ctx.sample({"runs": n_runs, "scenarios": [s for s, _ in SCENARIOS], "reject_statuses": len(rejects)})


@rule("R16.8", ["C16", "C09"], "T-TAB", floor=4)
def r16_8(ctx):
    """Version-keyed tables are safe for NCP versions newer than the newest table: with the negotiated version 15,
    16 and 255 (handler = newest known) the configuration write completes, sets the same settings as for the
    newest known version, and never raises."""
    repo = ctx.repo
    latest = max(VERSIONS)
    f0, p0, sets0 = run_write_config(ctx, latest, {}, cur_factory("below"))
    for v in (latest + 1, latest + 2, 255):
        try:
            f, p, sets = run_write_config(ctx, v, {}, cur_factory("below"), proto_v=latest)
        except AnalysisError as ex:
            if "DEFAULT_CONFIG" in str(ex):
                ctx.violation("write_config:unknown-version", f"negotiated version {v}: {ex}", func=f0)
                continue
            raise
        ok = p.terminal == "return" and [n for n, _, _ in sets] == [n for n, _, _ in sets0]
        ctx.require(ok, "write_config:unknown-version", f"negotiated version {v} (handler v{latest}): write_config {p.terminal} {p.value!r}; the default "
                    "configuration must be written as for the newest known version", func=f, trace=p.trace(12))
    ctx.ok(1)


@rule("R16.9", ["C16", "C09"], "T-WMW", floor=1)
def r16_9(ctx):
    """The default-configuration tables are fixed once their module is imported: no function of the package mutates
    DEFAULT_CONFIG, the per-family default lists it refers to, or the schema tables - neither directly nor through a local
    alias of a table or of one of its lists (``entries = DEFAULT_CONFIG[v]; entries += [...]`` extends the shared list in
    place).  State left in these tables by one configuration write would reach every later write in the process (another
    radio, a reconnect with changed settings), where it acts as an override the user never gave."""
    from .util import shared_table_mutations

    repo = ctx.repo
    env = repo.module("bellows.ezsp.config")
    ctx.anchor(env is not None and "DEFAULT_CONFIG" in env, "bellows.ezsp.config.DEFAULT_CONFIG")
    tables = {n for n, v in env.items() if n.isupper() and isinstance(v, (list, dict, set)) and not n.startswith("__")}
    ctx.anchor("DEFAULT_CONFIG" in tables, "DEFAULT_CONFIG is a table")
    hits = shared_table_mutations(repo, tables)
    for g, n, what in hits:
        ctx.violation(f"default-table-mutated:{g.short if g.cls is not None else g.name}", f"{g.short if g.cls is not None else g.mod + ':' + g.name} {what} "
                      f"(line {n.lineno}): a shared default table is modified at run time", func=g, node=n)
    ctx.ok(len(tables), "tables")
