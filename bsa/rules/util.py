"""Helpers shared by the rule modules."""
from __future__ import annotations

import ast

from ..errors import AnalysisError
from ..idx import index
from ..pxv import Obj, Sym
from ..te import ClassRef, FuncRef, Member, TypeRef


def text(n):
    return ast.unparse(n)


def const(ctx, mod, name, types=(int, float)):
    v = ctx.repo.get(mod, name)
    if isinstance(v, Member):
        v = v.value
    if not isinstance(v, types):
        raise AnalysisError(f"{mod}.{name} is not a constant of the expected kind: {v!r}")
    return v


def self_obj(cls: ClassRef, fields=None, volatile=None, tag="self"):
    o = Obj(cls, dict(fields or {}), tag=tag)
    for k, v in (volatile or {}).items():
        o.volatile[k] = list(v)
    return o


def fut(tag):
    """An (abstract) asyncio future: not None, methods are opaque calls whose callee is '<tag>.<method>'."""
    return Obj(TypeRef("asyncio.Future"), {}, tag=tag)


def member(repo, mod, cls, name):
    c = repo.cls(mod, cls)
    ms = c.members()
    if name not in ms:
        raise AnalysisError(f"anchor vanished: {cls}.{name}")
    return ms[name]


def writers_of(ctx, attr, cls_name=None):
    """{function short name} writing ``.attr`` anywhere in the package (optionally only via self in cls)."""
    out = {}
    for f, n, kind in index(ctx.repo).writers(attr):
        out.setdefault(f.short if f.cls is not None else f"{f.mod}:{f.name}", []).append((f, n, kind))
    return out


def who_may_write(ctx, attr, allowed, key=None, reason=""):
    """T-WMW: every writer of ``.attr`` is in ``allowed`` (set of 'Class.method')."""
    ws = writers_of(ctx, attr)
    ctx.anchor(ws, f"no writer of .{attr} found at all")
    for short, sites in sorted(ws.items()):
        for f, n, kind in sites:
            ctx.call_sites += 1
            if short in allowed:
                ctx.ok(1, (attr, short))
            else:
                ctx.violation(f"{key or attr}:writer:{short}", f"'{attr}' is written ({kind}) by {short}, outside the confirmed "
                              f"writer set {sorted(allowed)} {reason}", func=f, node=n, construct=text(n)[:120])
    return ws


def who_may_call(ctx, name, allowed, key=None, reason=""):
    cs = index(ctx.repo).callers(name)
    for f, n in cs:
        short = f.short if f.cls is not None else f"{f.mod}:{f.name}"
        ctx.call_sites += 1
        if short in allowed:
            ctx.ok(1, (name, short))
        else:
            ctx.violation(f"{key or name}:caller:{short}", f"'{name}' is called from {short}, outside the confirmed caller set "
                          f"{sorted(allowed)} {reason}", func=f, node=n, construct=text(n)[:120])
    return cs


def walk_no_nested(node):
    """ast.walk that does not descend into nested function / class definitions."""
    stack = list(ast.iter_child_nodes(node))
    while stack:
        n = stack.pop()
        yield n
        if isinstance(n, (ast.FunctionDef, ast.AsyncFunctionDef, ast.ClassDef, ast.Lambda)):
            continue
        stack.extend(ast.iter_child_nodes(n))


def find_calls(func: FuncRef, pred):
    return [n for n in ast.walk(func.node) if isinstance(n, ast.Call) and pred(n)]


def ev_index(path, pred, start=0):
    for i in range(start, len(path.events)):
        if pred(path.events[i]):
            return i
    return -1


def awaits_between(path, i, j):
    return [e for e in path.events[i + 1:j] if e.kind == "await" or (e.kind in ("enter",) and False)]


class same_class:
    """Inline policy: while exploring a method, helper methods of the same class (through the MRO, repository classes
    only) and module-level helpers of the same module are inlined, so extracting or inlining a helper does not change
    what a rule sees.  Methods named in ``stop`` stay opaque (the rule inspects the call itself); models always take
    precedence over inlining.  ``extra`` names are inlined wherever they are defined."""

    def __init__(self, stop=(), extra=("from_ember_status",)):
        self.stop, self.extra, self.root = set(stop), set(extra), None

    def __call__(self, g, awaited):
        if g.name in self.extra:
            return True
        if g.name in self.stop or self.root is None:
            return False
        r = self.root
        if g.cls is not None and r.cls is not None:
            try:
                return g.cls in r.cls.mro() or r.cls in g.cls.mro()
            except Exception:
                return False
        if g.cls is None:
            return g.mod == r.mod
        return False


def anchor_attrs(ctx, cls_name, *attrs):
    """The state attributes a rule is anchored on must exist (be assigned somewhere in the class); a renamed anchor is an
    analysis error (exit 2), never a verdict."""
    for a in attrs:
        ws = [1 for g, n, kind in index(ctx.repo).writers(a) if g.cls is not None and cls_name in g.cls.base_names()]
        if not ws:
            raise AnalysisError(f"anchor vanished: {cls_name}.{a} is never assigned (state attribute renamed or removed?)")
