"""Helpers shared by the rule modules."""
from __future__ import annotations

import ast

from ..errors import AnalysisError
from ..idx import index
from ..pxv import Obj, Sym
from ..te import ClassRef, FuncRef, Member, TypeRef


def text(n):
    return ast.unparse(n)


def const(ctx, mod, name, types=(int, float)):
    v = ctx.repo.get(mod, name)
    if isinstance(v, Member):
        v = v.value
    if not isinstance(v, types):
        raise AnalysisError(f"{mod}.{name} is not a constant of the expected kind: {v!r}")
    return v


_PINNED = None


def _pinned_attrs(cls):
    global _PINNED
    if _PINNED is None:
        import json
        import os

        with open(os.path.join(os.path.dirname(os.path.dirname(__file__)), "pinned_attrs.json")) as fh:
            _PINNED = {k: set(v) for k, v in json.load(fh).items()}
    out = set()
    for c in cls.mro():
        if isinstance(c, ClassRef):
            out |= _PINNED.get(f"{c.mod}:{c.name}", set())
    return out


def init_constants(cls: ClassRef):
    """{attr: thunk} for attributes that ``__init__`` (of the class or a repository base) assigns unconditionally, exactly
    once, to a constant (number, bool, None, bytes/str, enum member or an empty container) - evaluated from the source."""
    cache = cls.repo.__dict__.setdefault("_init_constants", {})
    if cls.qual in cache:
        return cache[cls.qual]
    out = {}
    for c in reversed([c for c in cls.mro() if isinstance(c, ClassRef)]):
        try:
            init = c.attrs.get("__init__")
        except Exception:
            init = None
        if not isinstance(init, FuncRef):
            continue
        seen = {}
        for st in init.node.body:
            tgt, val = None, None
            if isinstance(st, ast.Assign) and len(st.targets) == 1:
                tgt, val = st.targets[0], st.value
            elif isinstance(st, ast.AnnAssign) and st.value is not None:
                tgt, val = st.target, st.value
            if isinstance(tgt, ast.Attribute) and isinstance(tgt.value, ast.Name) and tgt.value.id == "self":
                seen[tgt.attr] = seen.get(tgt.attr, 0) + 1
                try:
                    v = cls.repo.te.ev(val, cls.repo.module(c.mod), c.mod)
                except Exception:
                    v = None
                    if isinstance(val, ast.Call) and not val.args and not val.keywords and text(val.func) in ("bytearray", "dict", "list", "set", "collections.deque"):
                        v = {"bytearray": bytearray, "dict": dict, "list": list, "set": set}.get(text(val.func), list)()
                    else:
                        out.pop(tgt.attr, None)
                        continue
                if v is None or isinstance(v, (int, float, str, bytes, Member)) or (isinstance(v, (list, dict, set, bytearray)) and len(v) == 0):
                    out[tgt.attr] = (lambda vv: (lambda: type(vv)() if isinstance(vv, (list, dict, set, bytearray)) else vv))(v)
                else:
                    out.pop(tgt.attr, None)
        for a, n in seen.items():
            if n > 1:
                out.pop(a, None)
        # assigned anywhere else inside __init__ (conditionally, in a loop)? then the constant is not certain
        for n in ast.walk(init.node):
            if isinstance(n, ast.Attribute) and isinstance(n.ctx, ast.Store) and text(n.value) == "self" and seen.get(n.attr, 0) == 0:
                out.pop(n.attr, None)
    cache[cls.qual] = out
    return out


def self_obj(cls: ClassRef, fields=None, volatile=None, tag="self"):
    """The abstract receiver a rule explores a method on.  Attributes the rule names get the rule's values; attributes
    that exist on the pinned tree and are not named stay lazily symbolic; attributes *added since* (not in
    pinned_attrs.json) start with the constant their ``__init__`` assigns, when there is one."""
    fields = dict(fields or {})
    if isinstance(cls, ClassRef):
        try:
            known = _pinned_attrs(cls)
            for a, thunk in init_constants(cls).items():
                if a not in fields and a not in known and a not in (volatile or {}):
                    fields[a] = thunk()
        except AnalysisError:
            pass
    o = Obj(cls, fields, tag=tag)
    for k, v in (volatile or {}).items():
        o.volatile[k] = list(v)
    return o


def fut(tag):
    """An (abstract) asyncio future: not None, methods are opaque calls whose callee is '<tag>.<method>'."""
    return Obj(TypeRef("asyncio.Future"), {}, tag=tag)


def member(repo, mod, cls, name):
    c = repo.cls(mod, cls)
    ms = c.members()
    if name not in ms:
        raise AnalysisError(f"anchor vanished: {cls}.{name}")
    return ms[name]


def writers_of(ctx, attr, cls_name=None):
    """{function short name} writing ``.attr`` anywhere in the package (optionally only via self in cls)."""
    out = {}
    for f, n, kind in index(ctx.repo).writers(attr):
        out.setdefault(f.short if f.cls is not None else f"{f.mod}:{f.name}", []).append((f, n, kind))
    return out


def who_may_write(ctx, attr, allowed, key=None, reason=""):
    """T-WMW: every writer of ``.attr`` is in ``allowed`` (set of 'Class.method')."""
    ws = writers_of(ctx, attr)
    ctx.anchor(ws, f"no writer of .{attr} found at all")
    for short, sites in sorted(ws.items()):
        for f, n, kind in sites:
            ctx.call_sites += 1
            if short in allowed:
                ctx.ok(1, (attr, short))
            else:
                ctx.violation(f"{key or attr}:writer:{short}", f"'{attr}' is written ({kind}) by {short}, outside the confirmed "
                              f"writer set {sorted(allowed)} {reason}", func=f, node=n, construct=text(n)[:120])
    return ws


def who_may_call(ctx, name, allowed, key=None, reason=""):
    cs = index(ctx.repo).callers(name)
    for f, n in cs:
        short = f.short if f.cls is not None else f"{f.mod}:{f.name}"
        ctx.call_sites += 1
        if short in allowed:
            ctx.ok(1, (name, short))
        else:
            ctx.violation(f"{key or name}:caller:{short}", f"'{name}' is called from {short}, outside the confirmed caller set "
                          f"{sorted(allowed)} {reason}", func=f, node=n, construct=text(n)[:120])
    return cs


def walk_no_nested(node):
    """ast.walk that does not descend into nested function / class definitions."""
    stack = list(ast.iter_child_nodes(node))
    while stack:
        n = stack.pop()
        yield n
        if isinstance(n, (ast.FunctionDef, ast.AsyncFunctionDef, ast.ClassDef, ast.Lambda)):
            continue
        stack.extend(ast.iter_child_nodes(n))


def find_calls(func: FuncRef, pred):
    return [n for n in ast.walk(func.node) if isinstance(n, ast.Call) and pred(n)]


def ev_index(path, pred, start=0):
    for i in range(start, len(path.events)):
        if pred(path.events[i]):
            return i
    return -1


def awaits_between(path, i, j):
    return [e for e in path.events[i + 1:j] if e.kind == "await" or (e.kind in ("enter",) and False)]


class same_class:
    """Inline policy: while exploring a method, helper methods of the same class (through the MRO, repository classes
    only) and module-level helpers of the same module are inlined, so extracting or inlining a helper does not change
    what a rule sees.  Methods named in ``stop`` stay opaque (the rule inspects the call itself); models always take
    precedence over inlining.  ``extra`` names are inlined wherever they are defined."""

    def __init__(self, stop=(), extra=("from_ember_status",)):
        self.stop, self.extra, self.root, self.caller = set(stop), set(extra), None, None

    def __call__(self, g, awaited):
        if g.name in self.extra:
            return True
        if g.name in self.stop or self.root is None:
            return False
        r = self.root
        if g.cls is not None and not g.is_async and any("dataclass" in ast.unparse(d) for d in getattr(g.cls.node, "decorator_list", ())) \
                and g.mod.startswith("bellows"):
            return True  # a method of a small value class of the repository (a frozen record with a `with_value` / `replace`-style helper)
        c0 = self.caller
        if g.cls is not None and c0 is not None and getattr(c0, "mod", None) == g.mod and not g.is_async \
                and any("staticmethod" in d for d in getattr(g, "decorators", ())):
            return True  # a static helper of another class of the caller's module (shared by two classes of that module)
        if g.cls is not None and g.cls.name.startswith("_") and g.mod == r.mod:
            return True  # a private helper class of the same module (state carrier extracted from the explored function)
        if g.cls is not None and r.cls is not None:
            try:
                return g.cls in r.cls.mro() or r.cls in g.cls.mro()
            except Exception:
                return False
        if g.cls is None:
            c = self.caller
            if c is not None and getattr(c, "mod", None) == g.mod and not g.is_async:
                return True  # a plain helper of the module of the (already inlined) function that calls it (a key / padding helper next to its user)
            # module-level helpers of the same module or of a module of the same package (a helper moved next to its tables)
            return g.mod == r.mod or g.mod.startswith(r.mod + ".") or r.mod.startswith(g.mod + ".") or g.mod.rsplit(".", 1)[0] == r.mod.rsplit(".", 1)[0]
        return False


def anchor_attrs(ctx, cls_name, *attrs):
    """The state attributes a rule is anchored on must exist (be assigned somewhere in the class); a renamed anchor is an
    analysis error (exit 2), never a verdict."""
    for a in attrs:
        ws = [1 for g, n, kind in index(ctx.repo).writers(a) if g.cls is not None and cls_name in g.cls.base_names()]
        if not ws:
            # the name may live on as a read/write property over another representation (an enum-valued mode behind a boolean name)
            try:
                for g in ctx.repo.all_functions():
                    if g.cls is not None and g.cls.name == cls_name and g.name == a and any(str(d).endswith(f"{a}.setter") for d in getattr(g, "decorators", ())):
                        ws = [1]
                        break
            except Exception:
                pass
        if not ws:
            raise AnalysisError(f"anchor vanished: {cls_name}.{a} is never assigned (state attribute renamed or removed?)")


MUTATING = {"append", "extend", "add", "pop", "remove", "clear", "update", "setdefault", "discard", "insert", "popitem", "sort", "reverse"}
COPIERS = {"list", "dict", "set", "tuple", "frozenset", "sorted", "copy.copy", "copy.deepcopy", "bytearray", "bytes"}


def shared_table_mutations(repo, names, modules_prefix="bellows"):
    """[(function, node, description)]: places where a function of the package mutates one of the module-level tables
    ``names`` - directly, or through a local alias of the table or of one of its elements (``x = TABLE[k]; x += [...]``).
    A copy (``list(...)``, ``dict(...)``, ``.copy()``, a slice, a display or comprehension) is not an alias."""
    out = []
    names = set(names)

    def rooted(e, aliases):
        """Does the expression evaluate to the table itself or to an object stored in it (no copy in between)?"""
        while True:
            if isinstance(e, ast.Name):
                return e.id in names or e.id in aliases
            if isinstance(e, ast.Attribute):
                if e.attr in names and not isinstance(e.ctx, ast.Store):
                    return True
                e = e.value
                continue
            if isinstance(e, ast.Subscript):
                if isinstance(e.slice, ast.Slice):
                    return False  # a slice copies
                e = e.value
                continue
            if isinstance(e, ast.Call) and isinstance(e.func, ast.Attribute) and e.func.attr in ("get", "setdefault", "__getitem__"):
                e = e.func.value
                continue
            if isinstance(e, ast.IfExp):
                return rooted(e.body, aliases) or rooted(e.orelse, aliases)
            if isinstance(e, ast.NamedExpr):
                e = e.value
                continue
            return False

    for f in repo.all_functions():
        if f.mod.startswith("bellows.cli"):
            continue
        aliases = set()
        # two passes so that aliases defined after a loop header are seen
        for _ in range(2):
            for n in ast.walk(f.node):
                if isinstance(n, ast.Assign) and rooted(n.value, aliases):
                    for t in n.targets:
                        if isinstance(t, ast.Name):
                            aliases.add(t.id)
                elif isinstance(n, ast.AnnAssign) and n.value is not None and rooted(n.value, aliases) and isinstance(n.target, ast.Name):
                    aliases.add(n.target.id)
                elif isinstance(n, ast.NamedExpr) and rooted(n.value, aliases) and isinstance(n.target, ast.Name):
                    aliases.add(n.target.id)
                elif isinstance(n, (ast.For, ast.AsyncFor)) and rooted(n.iter, aliases) and isinstance(n.target, ast.Name):
                    aliases.add(n.target.id)  # elements of the table (mutable ones matter only if mutated below)
        aliases -= names
        for n in ast.walk(f.node):
            if isinstance(n, ast.Call) and isinstance(n.func, ast.Attribute) and n.func.attr in MUTATING and rooted(n.func.value, aliases):
                out.append((f, n, f"calls .{n.func.attr}() on {text(n.func.value)}"))
            elif isinstance(n, ast.AugAssign) and rooted(n.target, aliases) and not isinstance(n.op, (ast.Mod,)):
                # += / |= etc. on a list / dict / set modifies the object in place (on numbers it rebinds the local only:
                # aliases of the *table* are containers, so this is a mutation)
                out.append((f, n, f"in-place `{text(n)[:60]}`"))
            elif isinstance(n, (ast.Assign, ast.Delete)):
                tg = n.targets
                for t in tg:
                    if isinstance(t, ast.Subscript) and rooted(t.value, aliases):
                        out.append((f, n, f"stores into / deletes from {text(t.value)}"))
            elif isinstance(n, ast.Global) and names & set(n.names):
                out.append((f, n, "rebinds the table (global statement)"))
    return out


class FutureSim:
    """Abstract asyncio futures for scenario rules that drive several steps on one object: creation, completion, done
    callbacks (queued like ``call_soon`` and run when the scenario says the loop turns), cancellation.  Futures are
    identified by their tag (``fut1``, ``fut2`` ...); the models key on the callee's receiver."""

    def __init__(self):
        self.state, self.queue, self.n = {}, [], 0

    def reset(self):
        self.state, self.queue, self.n = {}, [], 0

    def new(self, *_):
        self.n += 1
        tag = f"fut{self.n}"
        o = Obj(TypeRef("asyncio.Future"), {}, tag=tag)
        self.state[tag] = {"obj": o, "done": False, "result": None, "exc": None, "cancelled": False, "cbs": []}
        return o

    def _st(self, px):
        tag = (getattr(px, "_callee", "") or "").split(".")[0]
        if tag not in self.state:
            raise AnalysisError(f"future method called on {tag!r}, which the scenario did not create")
        return self.state[tag]

    def _finish(self, st):
        st["done"] = True
        for cb in st["cbs"]:
            self.queue.append((cb, st["obj"]))
        st["cbs"] = []

    def models(self):
        from ..px import OK, RAISE, Outcomes

        def set_result(px, t, a, k, fr):
            st = self._st(px)
            if st["done"]:
                return Outcomes(RAISE("InvalidStateError"))
            st["result"] = a[0] if a else None
            self._finish(st)
            return Outcomes(OK(None))

        def set_exception(px, t, a, k, fr):
            st = self._st(px)
            if st["done"]:
                return Outcomes(RAISE("InvalidStateError"))
            st["exc"] = a[0] if a else None
            self._finish(st)
            return Outcomes(OK(None))

        def cancel(px, t, a, k, fr):
            st = self._st(px)
            if st["done"]:
                return False
            st["cancelled"] = True
            self._finish(st)
            return True

        def add_cb(px, t, a, k, fr):
            st = self._st(px)
            if st["done"]:
                self.queue.append((a[0], st["obj"]))
            else:
                st["cbs"].append(a[0])
            return None

        def remove_cb(px, t, a, k, fr):
            st = self._st(px)
            n = len(st["cbs"])
            st["cbs"] = [c for c in st["cbs"] if c is not a[0]]
            return n - len(st["cbs"])

        return [("*.create_future", lambda px, t, a, k, fr: self.new()), ("asyncio.Future", lambda px, t, a, k, fr: self.new()),
                ("*.set_result", set_result), ("*.set_exception", set_exception), ("*.cancel", cancel),
                ("*.add_done_callback", add_cb), ("*.remove_done_callback", remove_cb),
                ("*.done", lambda px, t, a, k, fr: self._st(px)["done"]), ("*.cancelled", lambda px, t, a, k, fr: self._st(px)["cancelled"])]

    def run_loop(self, px):
        """One turn of the event loop: run the queued done-callbacks (callbacks queued meanwhile run in the same call)."""
        while self.queue:
            cb, fobj = self.queue.pop(0)
            px.do_call(cb, "done_callback", [fobj], {}, None, None, False)

    def is_done(self, fobj):
        return self.state[fobj.tag]["done"]

    def result(self, fobj):
        return self.state[fobj.tag]["result"]


def acquire_release_use(func_node, ref):
    """True when ``ref`` (an ast node naming a lock / semaphore attribute) is used as the explicit spelling of ``async with``:
    ``await <ref>.acquire()`` as a statement immediately followed by a ``try`` whose ``finally`` calls ``<ref>.release()`` - or is
    that release call itself."""
    rt = text(ref)

    def is_call(node, attr):
        return isinstance(node, ast.Call) and isinstance(node.func, ast.Attribute) and node.func.attr == attr and text(node.func.value) == rt

    for parent in ast.walk(func_node):
        for fld in ("body", "orelse", "finalbody"):
            blk = getattr(parent, fld, None)
            if not isinstance(blk, list):
                continue
            for i, st in enumerate(blk[:-1]):
                if isinstance(st, ast.Expr) and isinstance(st.value, ast.Await) and is_call(st.value.value, "acquire") and isinstance(blk[i + 1], ast.Try):
                    rel = [c for fs in blk[i + 1].finalbody for c in ast.walk(fs) if is_call(c, "release")]
                    if rel and (st.value.value.func.value is ref or any(c.func.value is ref for c in rel)):
                        return True
    return False
