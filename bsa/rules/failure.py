"""C10 (failure / connection loss is reported) and C11 (reset handshake)."""
from __future__ import annotations

import ast

from ..core import rule
from ..errors import AnalysisError
from ..idx import index
from ..px import OK, PX, RAISE, Outcomes
from ..pxv import Obj, Sym
from ..te import Member, TypeRef
from .ash_link import ASH, ash_cls, inline_ash
from .util import anchor_attrs
from .util import const, fut, same_class, self_obj, text

UART = "bellows.uart"
EZ = "bellows.ezsp"
APP = "bellows.zigbee.application"
NAMED = "bellows.types.named"


def fut_models(done_tags):
    """Future methods keyed by the receiver: futures whose tag is in done_tags are already completed."""
    def is_done(px):
        return getattr(px, "_callee", "").split(".")[0] in done_tags

    return [("*.done", lambda px, t, a, k, fr: is_done(px)),
            ("*.set_result", lambda px, t, a, k, fr: Outcomes(RAISE("InvalidStateError")) if is_done(px) else Outcomes(OK(None))),
            ("*.set_exception", lambda px, t, a, k, fr: Outcomes(RAISE("TypeError")) if (a and a[0] is None) else (
                Outcomes(RAISE("InvalidStateError")) if is_done(px) else Outcomes(OK(None))))]


def gw_cls(ctx):
    return ctx.repo.cls(UART, "Gateway")


def completions(p):
    return [e for e in p.events if e.kind == "call" and e.what.endswith((".set_result", ".set_exception")) and not str(e.extra).startswith("raises")]


FSTATES = (("none", None, False), ("open", "x", False), ("done", "x", True))


@rule("R11.2", ["C11", "C10", "C09"], "T-FUN", floor=80)
def r11_2(ctx):
    """Reset-code triage in Gateway.reset_received over every reset code (all defined members and an undefined
    value) x {no, open, completed} reset waiter x {no, open, completed} start-up waiter: a waiter is completed if
    and only if the code is the software-reset code (the pending reset request first, else the start-up waiter,
    never a completed one); every other code completes nothing and is handed to the application as an NCP failure
    exactly once."""
    anchor_attrs(ctx, "Gateway", "_reset_future", "_startup_reset_future", "_application", "_transport")
    repo = ctx.repo
    f = repo.func(f"{UART}:Gateway.reset_received")
    ctx.fn(f)
    rc = repo.cls(NAMED, "NcpResetCode")
    soft = rc.members()["RESET_SOFTWARE"]
    codes = list(rc.canonical_members()) + [Member(rc, "undefined_0x7f", 0x7F)]
    for code in codes:
        for rn, rv, rd in FSTATES:
            for sn, sv, sd in FSTATES:
                done = {t for t, d in (("rf", rd), ("sf", sd)) if d}
                px = PX(repo, models=fut_models(done), inline=same_class())

                def setup():
                    return (self_obj(gw_cls(ctx), {"_reset_future": fut("rf") if rv else None, "_startup_reset_future": fut("sf") if sv else None}),
                            {"code": code})

                for p in px.explore(f, setup):
                    ctx.paths += 1
                    comp = [e.callee for e in completions(p)]
                    fails = [e for e in p.events if e.kind == "call" and e.what == "self._application.enter_failed_state"]
                    key = f"{code.name}:reset={rn},startup={sn}"
                    if code.value == soft.value:
                        want = ["rf.set_result"] if rn == "open" else (["sf.set_result"] if sn == "open" else [])
                        ok = p.terminal == "return" and comp == want and not fails
                        msg = f"software reset: completes {comp} (expected {want}), failure reports {len(fails)}"
                    else:
                        ok = p.terminal == "return" and not comp and len(fails) == 1 and fails[0].args[:1] == (code,)
                        msg = (f"reset code {code.name} is not the software-reset acknowledgement: completes {comp} (must complete nothing), "
                               f"reported as NCP failure {len(fails)} time(s)")
                    ctx.require(ok, f"triage:{'software' if code.value == soft.value else 'other'}:reset={rn},startup={sn}", f"{key}: {msg}", func=f,
                                trace=p.trace(10))
    g = repo.func(f"{UART}:Gateway.error_received")
    px = PX(repo, inline=same_class())
    for p in px.explore(g, lambda: (self_obj(gw_cls(ctx), {}), {"code": Sym("code")})):
        fails = [e for e in p.events if e.kind == "call" and e.what == "self._application.enter_failed_state"]
        ctx.require(len(fails) == 1 and fails[0].args[:1] == (Sym("code"),), "error_received", "Gateway.error_received does not report the failure", func=g)


@rule("R11.1", ["C11", "C10", "C09"], "T-ORD", floor=4)
def r11_1(ctx):
    """Gateway.reset: with no request in progress it writes the RST frame (send_reset), registers the waiter
    with no await in between, and waits for it inside asyncio_timeout(RESET_TIMEOUT); a second concurrent request
    sends nothing and shares the first waiter; the waiter attribute is cleared when the future completes;
    wait_for_startup_reset registers its waiter, awaits it and clears the attribute on every exit."""
    repo = ctx.repo
    tmo = const(ctx, UART, "RESET_TIMEOUT")
    ctx.require(0 < tmo <= 60, "RESET_TIMEOUT", f"RESET_TIMEOUT = {tmo}")
    f = repo.func(f"{UART}:Gateway.reset")
    ctx.fn(f)
    models = [("*.create_future", lambda px, t, a, k, fr: fut("newfut")), ("await:*", Outcomes(OK(True), RAISE("TimeoutError"), RAISE("ConnectionResetError"), RAISE("CancelledError"))),
              # writing the RST frame can fail (transport gone or closing: _write_frame raises NcpFailure)
              ("self._transport.send_reset", Outcomes(OK(None), RAISE("NcpFailure")))]
    for existing in (False, True):
        px = PX(repo, models=models, inline=same_class(stop=("_reset_cleanup",)))
        for p in px.explore(f, lambda: (self_obj(gw_cls(ctx), {"_reset_future": fut("oldfut") if existing else None}), {})):
            ctx.paths += 1
            snd = [e for e in p.events if e.kind == "call" and e.what == "self._transport.send_reset"]
            reg = [e for e in p.events if e.kind == "write" and e.what == "self._reset_future"]
            aw = [e for e in p.events if e.kind == "await"]
            bad = None
            if snd and str(snd[0].extra).startswith("raises"):
                # the RST frame could not be written: the request fails, and it leaves no waiter behind (a later reset would
                # piggy-back on it, send nothing and wait without a timeout)
                if p.terminal != "raise" or p.store["self"].get("_reset_future") is not None or aw:
                    bad = (f"send_reset() raised but reset() {p.terminal}s with the waiter attribute {p.store['self'].get('_reset_future')!r} "
                           f"({len(aw)} awaits): a failed write must leave no pending waiter")
                ctx.require(not bad, "reset:write-fails", f"Gateway.reset (RST write fails): {bad}", func=f, trace=p.trace(14))
                continue
            if existing:
                if snd or reg or len(aw) != 1 or getattr(aw[0].args[0], "tag", "") != "oldfut":
                    bad = f"second request: sends {len(snd)}, registers {len(reg)}, awaits {[getattr(e.args[0], 'tag', e.args) for e in aw]}"
            else:
                cb = [e for e in p.events if e.kind == "call" and e.what.endswith(".add_done_callback")]
                if len(snd) != 1 or len(reg) != 1 or getattr(reg[0].args[0], "tag", "") != "newfut":
                    bad = f"sends {len(snd)} RST frames, registers {[e.args for e in reg]}"
                elif snd[0].epoch != reg[0].epoch:
                    bad = "an await separates writing the RST frame from registering the waiter (a fast RSTACK would be lost)"
                elif len(aw) != 1 or getattr(aw[0].args[0], "tag", "") != "newfut" or not any(c.endswith("asyncio_timeout") for c in aw[0].ctx):
                    bad = "the waiter is not awaited inside asyncio_timeout"
                elif p.store["self"].get("_reset_future") is not None and not cb:
                    bad = (f"reset() ends ({p.terminal} {p.value if p.terminal == 'raise' else ''}) with the waiter attribute still set and no done-callback "
                           "that clears it: the next reset would piggy-back on a stale future and never send RST")
                else:
                    ent = [e for e in p.events if e.kind == "enter" and e.what.endswith("asyncio_timeout")]
                    if ent[0].args[:1] != (tmo,):
                        bad = f"reset wait bounded by {ent[0].args!r}, not RESET_TIMEOUT"
            if not bad and (p.terminal == "return") != (aw and aw[-1].extra is True):
                bad = f"wait outcome {aw[-1].extra if aw else None!r} but reset() {p.terminal}s"
            ctx.require(not bad, f"reset:{'piggyback' if existing else 'fresh'}", f"Gateway.reset ({'request in progress' if existing else 'idle'}): {bad}", func=f,
                        trace=p.trace(14))
    # the done-callback registered on the waiter (if that is how the attribute is cleared) really clears it
    from ..px import Bound, Closure

    px = PX(repo, models=[("*.create_future", lambda px_, t, a, k, fr: fut("newfut")), ("await:*", Outcomes(OK(True)))], inline=same_class(stop=("_reset_cleanup",)))
    holder = {}

    def setup_fresh():
        holder["self"] = self_obj(gw_cls(ctx), {"_reset_future": None})
        return holder["self"], {}

    for p in px.explore(f, setup_fresh):
        for e in p.events:
            if e.kind == "call" and e.what.endswith(".add_done_callback") and e.args:
                cbv = e.args[0]
                me = holder["self"]
                me.fields["_reset_future"] = fut("newfut")

                def run_cb(cbv=cbv):
                    if isinstance(cbv, Bound):
                        return px.call_function(cbv.func, cbv.recv, [Sym("done_future")], {}, None)
                    if isinstance(cbv, Closure):
                        return px.call_function(cbv, None, [Sym("done_future")], {}, None)
                    raise AnalysisError(f"done-callback of the reset waiter is {cbv!r}")

                px._run(run_cb)
                ctx.require(me.fields.get("_reset_future") is None, "reset_cleanup", "the waiter's done-callback leaves the waiter attribute set", func=f)
    w = repo.func(f"{UART}:Gateway.wait_for_startup_reset")
    ctx.fn(w)
    px = PX(repo, models=models, inline=same_class())
    for p in px.explore(w, lambda: (self_obj(gw_cls(ctx), {"_startup_reset_future": None}), {})):
        aw = [e for e in p.events if e.kind == "await"]
        ok = len(aw) == 1 and getattr(aw[0].args[0], "tag", "") == "newfut" and p.store["self"].get("_startup_reset_future") is None
        ctx.require(ok, "startup-waiter", f"wait_for_startup_reset ({aw[0].extra if aw else None!r}): awaited {[e.args for e in aw]}, attribute afterwards "
                    f"{p.store['self'].get('_startup_reset_future')!r}", func=w, trace=p.trace())
    # startup_reset bounds the start-up wait (wherever the wait is written: in startup_reset or in a helper of it)
    s = repo.func(f"{EZ}:EZSP.startup_reset")
    models2 = [("urllib.parse.urlparse", lambda px_, t, a, k, fr: Obj(TypeRef("ParseResult"), {"scheme": "socket"}, tag="url")),
               ("self._gw.wait_for_startup_reset", Outcomes(OK(None), RAISE("TimeoutError"))), ("self.reset", Outcomes(OK(None))), ("self.version", Outcomes(OK(None))),
               ("self._config[conf.CONF_DEVICE_PATH]", lambda *a: "path"), ("*.is_set", lambda *a: False)]
    px = PX(repo, models=models2, inline=same_class(stop=("handle_callback",)))
    seen = 0
    for p in px.explore(s, lambda: (self_obj(repo.cls(EZ, "EZSP"), {"_config": Sym("cfg")}), {})):
        for e in p.events:
            if e.kind == "await" and e.what == "self._gw.wait_for_startup_reset":
                seen += 1
                ctx.require(any(c.endswith("asyncio_timeout") for c in e.ctx), "startup-wait-bounded",
                            "EZSP.startup_reset waits for the spontaneous start-up reset without an enclosing asyncio_timeout", func=s, trace=p.trace(10))
    ctx.anchor(seen >= 1, "startup_reset awaits wait_for_startup_reset on a socket path")


@rule("R10.1", ["C10", "C11"], "T-FUT", floor=20)
def r10_1(ctx):
    """Connection loss: AshProtocol.connection_lost drops the transport, fails pending sends and tells the gateway
    once; eof is treated as a connection reset; Gateway.connection_lost releases every open reset / start-up waiter
    with the connection error and leaves no open waiter behind, for {no, open, completed} waiters and exc in
    {None, error}; a deliberate close (exc None) produces no application call, an error is passed to the
    application exactly once on every path - also when a waiter was already completed by a reset in the same turn."""
    repo = ctx.repo
    f = repo.func(f"{UART}:Gateway.connection_lost")
    ctx.fn(f)
    for exc in (None, "err"):
        for rn, rv, rd in FSTATES:
            for sn, sv, sd in FSTATES:
                done = {t for t, d in (("rf", rd), ("sf", sd), ("cdf", False)) if d}
                px = PX(repo, models=fut_models(done), inline=same_class())

                def setup():
                    e = Obj(TypeRef("builtins.OSError"), {}, tag="exc") if exc else None
                    return (self_obj(gw_cls(ctx), {"_reset_future": fut("rf") if rv else None, "_startup_reset_future": fut("sf") if sv else None,
                                                   "_connection_done_future": fut("cdf")}), {"exc": e})

                for p in px.explore(f, setup):
                    ctx.paths += 1
                    key = f"exc={'error' if exc else 'None'},reset={rn},startup={sn}"
                    rel = [e.callee for e in completions(p)]
                    told = [e for e in p.events if e.kind == "call" and e.what == "self._application.connection_lost"]
                    bad = None
                    if p.terminal != "return":
                        bad = f"raises {p.value!r}" + ("; the application is never told about the lost connection" if exc else "")
                    else:
                        for tag, state in (("rf", rn), ("sf", sn)):
                            if state == "open" and f"{tag}.set_exception" not in rel:
                                bad = f"the open {'reset' if tag == 'rf' else 'start-up'} waiter is left pending (released: {rel})"
                        if not bad and exc and (len(told) != 1 or getattr(told[0].args[0], "tag", "") != "exc"):
                            bad = f"application told {len(told)} times"
                        elif not bad and not exc and told:
                            bad = "a deliberate close is reported to the application as a connection loss"
                    if bad:
                        ctx.violation(f"connection_lost:exc={'error' if exc else 'None'}:{'done-waiter' if 'done' in (rn, sn) else 'waiters'}", f"{key}: {bad}",
                                      func=f, trace=p.trace(12), construct=key)
                    else:
                        ctx.ok(1, key)
    # ASH layer
    a = repo.func(f"{ASH}:AshProtocol.connection_lost")
    ctx.fn(a)
    px = PX(repo, models=fut_models(set()), inline=inline_ash(stop=("_write_frame",)))
    for excv in (Sym("exc"), None):
      for p in px.explore(a, lambda: (self_obj(ash_cls(ctx), {"_transport": Sym("tr"), "_pending_data_frames": {1: fut("p1")}}), {"exc": excv})):
        up = [e for e in p.events if e.kind == "call" and e.what == "self._ezsp_protocol.connection_lost"]
        ok = (p.terminal == "return" and len(up) == 1 and up[0].args[:1] == (excv,) and p.store["self"].get("_transport") is None
              and "p1.set_exception" in [e.callee for e in completions(p)])
        ctx.require(ok, "ash:connection_lost", f"AshProtocol.connection_lost({excv!r}) with a send in flight: {p.terminal} {p.value if p.terminal == 'raise' else ''}; upward {[e.brief() for e in up]}, transport {p.store['self'].get('_transport')!r}, "
                    f"released {[e.callee for e in completions(p)]}", func=a, trace=p.trace())
    e1 = repo.func(f"{ASH}:AshProtocol.eof_received")
    for p in PX(repo, inline=same_class()).explore(e1, lambda: (self_obj(ash_cls(ctx), {}), {})):
        ctx.require([e.what for e in p.events if e.kind == "call"] == ["self._ezsp_protocol.eof_received"], "ash:eof", "AshProtocol.eof_received does not forward", func=e1)
    e2 = repo.func(f"{UART}:Gateway.eof_received")
    for p in PX(repo, inline=same_class(stop=("connection_lost",))).explore(e2, lambda: (self_obj(gw_cls(ctx), {}), {})):
        cl = [e for e in p.events if e.kind == "call" and e.what == "self.connection_lost"]
        ok = len(cl) == 1 and isinstance(cl[0].args[0], Obj) and cl[0].args[0].cls_name in ("ConnectionResetError", "ConnectionError", "OSError")
        ctx.require(ok, "gateway:eof", f"Gateway.eof_received -> {[e.brief() for e in cl]} (must be connection_lost(<connection error>))", func=e2)
    for fn in ("close",):
        c = repo.func(f"{ASH}:AshProtocol.close")
        px = PX(repo, models=fut_models(set()), inline=inline_ash(stop=("_write_frame",)))
        for p in px.explore(c, lambda: (self_obj(ash_cls(ctx), {"_transport": Obj(TypeRef("Transport"), {}, tag="tr"), "_pending_data_frames": {1: fut("p1")}}), {})):
            ok = "p1.set_exception" in [e.callee for e in completions(p)] and any(e.kind == "call" and (e.callee == "tr.close" or e.what == "self._transport.close") for e in p.events)
            ctx.require(ok, "ash:close", "AshProtocol.close does not release pending sends and close the transport", func=c, trace=p.trace())


@rule("R10.2", ["C10", "C19"], "T-GATE", floor=8)
def r10_2(ctx):
    """From a reported failure to the controller-reset request, and the gates that keep a stopped stack silent:
    EZSP.connection_lost -> enter_failed_state; with an application attached (two or more callbacks)
    enter_failed_state stops EZSP, closes the gateway and then issues exactly one '_reset_controller_application'
    callback (with only the built-in callback nothing is required); the application turns that callback into
    connection_lost(reason); EZSP._command raises without reaching the protocol handler when EZSP is stopped, and a command
    attempted after enter_failed_state raises EzspError (the handler reference survives the close);
    AshProtocol._write_frame raises without writing when the transport is gone or closing, and nothing else writes
    to the transport."""
    anchor_attrs(ctx, "EZSP", "_callbacks", "_gw", "_ezsp_event", "_protocol")
    repo = ctx.repo
    ez = repo.cls(EZ, "EZSP")
    f = repo.func(f"{EZ}:EZSP.enter_failed_state")
    ctx.fn(f)
    for ncb in (1, 2, 3):
        px = PX(repo, inline=same_class(stop=("handle_callback",)))

        def setup():
            return (self_obj(ez, {"_callbacks": {i: Sym(f"cb{i}") for i in range(ncb)}, "_gw": Obj(TypeRef("Gateway"), {}, tag="gw"),
                                  "_ezsp_event": Obj(TypeRef("asyncio.Event"), {}, tag="event")}), {"error": Sym("error")})

        for p in px.explore(f, setup):
            ctx.paths += 1
            hc = [e for e in p.events if e.kind == "call" and e.what == "self.handle_callback"]
            stop = [e for e in p.events if e.kind == "call" and e.what == "self._ezsp_event.clear"]
            gwc = [e for e in p.events if e.kind == "call" and (e.what == "self._gw.close" or e.callee == "gw.close")]  # (also through a local alias)
            if ncb >= 2:
                ok = (p.terminal == "return" and len(hc) == 1 and hc[0].args == ("_reset_controller_application", (Sym("error"),)) and stop and gwc
                      and p.events.index(stop[0]) < p.events.index(hc[0]) and p.events.index(gwc[0]) < p.events.index(hc[0])
                      and p.store["self"].get("_gw") is None)
                ctx.require(ok, "enter_failed_state:app", f"{ncb} callbacks registered: EZSP stopped {len(stop)}x, gateway closed {len(gwc)}x, reset requests "
                            f"{[e.args for e in hc]!r} (the stack must be stopped and the link closed before exactly one controller-reset request)", func=f,
                            trace=p.trace(12))
            else:
                ctx.require(p.terminal == "return", "enter_failed_state:no-app", f"raises {p.value!r} with no application attached", func=f)
    # after the failure has been handled, a command attempt (the watchdog's keep-alive, a queued request) must fail at the
    # running gate with EzspError - the exception the callers count and handle - and must not reach a handler
    ga = repo.func(f"{EZ}:EZSP.__getattr__")
    cmds = repo.get("bellows.ezsp.v4.commands", "COMMANDS")
    for ncb in (1, 2):
        px = PX(repo, inline=same_class(stop=("handle_callback",)), models=[("*.is_set", lambda px_, t, a, k, fr: False)])
        px.inline.root = f

        def entry():
            handler = Obj(TypeRef("Handler"), {"COMMANDS": cmds}, tag="handler")
            me = self_obj(ez, {"_callbacks": {i: Sym(f"cb{i}") for i in range(ncb)}, "_gw": Obj(TypeRef("Gateway"), {}, tag="gw"),
                               "_ezsp_event": Obj(TypeRef("asyncio.Event"), {}, tag="event"), "_protocol": handler})
            px.top_frame = None
            px.call_function(f, me, [Sym("error")], {}, None)
            if ncb >= 2:
                cmd = px.call_function(ga, me, ["nop"], {}, None)
                px.do_call(cmd, "ezsp.nop", [], {}, None, None, True)
            return None

        for p in px._run(entry):
            ctx.paths += 1
            if ncb >= 2:
                sent = [e for e in p.events if e.kind == "await"]
                ctx.require(p.terminal == "raise" and p.raised("EzspError") and not sent, "command-after-failure",
                            f"a command attempted after enter_failed_state {'reaches a handler' if sent else ''} and ends with {p.terminal} {p.value!r}; it must raise "
                            "EzspError at the running gate (anything else - e.g. an AttributeError on a cleared handler reference - is not what the "
                            "watchdog and the request paths count as a failed command)", func=f, trace=p.trace(16))
    cl = repo.func(f"{EZ}:EZSP.connection_lost")
    for p in PX(repo, inline=same_class(stop=("enter_failed_state",)), models=[("self._config[conf.CONF_DEVICE_PATH]", lambda *a: "dev")]).explore(
            cl, lambda: (self_obj(ez, {}), {"exc": Sym("exc")})):
        efs = [e for e in p.events if e.kind == "call" and e.what == "self.enter_failed_state"]
        ctx.require(p.terminal == "return" and len(efs) == 1, "ezsp:connection_lost", f"EZSP.connection_lost -> {[e.what for e in p.events if e.kind == 'call']}", func=cl)
    # application side
    from .app_rx import explore_callback

    g, paths = explore_callback(ctx, 8, "_reset_controller_application", [Sym("reason")])
    for p in paths:
        c = [e for e in p.events if e.kind == "call" and e.what == "self.connection_lost"]
        ctx.require(len(c) == 1 and c[0].args[:1] == (Sym("reason"),), "app:reset-request", f"'_reset_controller_application' -> {[e.brief() for e in c]}", func=g)
    # running gate
    cm = repo.func(f"{EZ}:EZSP._command")
    ctx.fn(cm)
    for running in (True, False):
      for cname in ("nop", "version", "sendUnicast", "getValue"):  # the gate does not depend on which command it is
        px = PX(repo, models=[("*.is_set", lambda px_, t, a, k, fr: running)], inline=same_class())
        for p in px.explore(cm, lambda: (self_obj(ez, {"_protocol": Obj(TypeRef("Handler"), {}, tag="proto")}), {"name": cname, "args": (), "kwargs": {}})):
            sent = [e for e in p.events if e.kind == "await"]
            ok = (running and len(sent) == 1 and p.terminal == "return") or (not running and not sent and p.raised("EzspError"))
            ctx.require(ok, f"_command:running={running}" + ("" if cname == "nop" else f":{cname}"), f"EZSP {'running' if running else 'stopped'}: command {cname} reaches the handler {len(sent)}x, {p.terminal} "
                        f"{p.value if p.terminal == 'raise' else ''}", func=cm, trace=p.trace())
    # closed-transport gate
    wf = repo.func(f"{ASH}:AshProtocol._write_frame")
    ctx.fn(wf)
    for state in ("none", "closing", "open"):
        px = PX(repo, models=[("*.is_closing", lambda px_, t, a, k, fr: state == "closing"), ("frame.to_bytes", lambda *a: b"\x80\x70\x78")],
                inline=inline_ash())
        tr = None if state == "none" else Obj(TypeRef("Transport"), {}, tag="self._transport")
        for p in px.explore(wf, lambda: (self_obj(ash_cls(ctx), {"_transport": tr}), {"frame": Sym("frame")})):
            w = [e for e in p.events if e.kind == "call" and e.what == "self._transport.write"]
            ok = (state == "open" and len(w) == 1 and p.terminal == "return") or (state != "open" and not w and p.raised("NcpFailure"))
            ctx.require(ok, f"_write_frame:transport={state}", f"transport {state}: {len(w)} writes, {p.terminal} {p.value if p.terminal == 'raise' else ''}", func=wf)
    for g_, n in index(repo).callers("write"):
        if g_.mod == ASH:
            # the function explored above, or a helper it is split into
            ctx.require(g_.short == "AshProtocol._write_frame" or g_.qual in px.visited, f"transport.write:caller:{g_.short}", f"{g_.short} writes to the transport "
                        "directly, bypassing the closed-transport gate", func=g_, node=n)


def _stack(ctx, callbacks=2, reset_waiter=False):
    """The wired objects AshProtocol <-> Gateway <-> EZSP (thread-safe proxies are transparent)."""
    repo = ctx.repo
    ns = repo.cls(ASH, "NcpState").members()
    tr = Obj(TypeRef("SerialTransport"), {}, tag="serial")
    ash = Obj(ash_cls(ctx), {"_transport": tr, "_pending_data_frames": {2: fut("inflight")}, "_ncp_state": ns["CONNECTED"], "_tx_seq": 3, "_rx_seq": 5, "_t_rx_ack": 1.6,
                             "_ncp_reset_code": None}, tag="ash")
    gw = Obj(gw_cls(ctx), {"_transport": ash, "_reset_future": fut("rf") if reset_waiter else None, "_startup_reset_future": None, "_connection_done_future": None,
                           "_connected_future": None}, tag="gw")
    ez = Obj(repo.cls(EZ, "EZSP"), {"_gw": gw, "_callbacks": {i: Sym(f"cb{i}") for i in range(callbacks)}, "_ezsp_event": Obj(TypeRef("asyncio.Event"), {}, tag="event"),
                                   "_config": Sym("config")}, tag="ezsp")
    # the installed handler, with what an earlier timed-out command leaves behind: its (cancelled, hence done) future is still registered
    ez.fields["_protocol"] = self_obj(repo.cls("bellows.ezsp.v8", "EZSPv8"), {"_awaiting": {7: (0, {}, fut("stalecmd"))}, "_seq": 9, "_gw": gw,
                                                                            "_handle_callback": Sym("handle_callback")}, tag="protocol")
    ash.fields["_ezsp_protocol"] = gw
    gw.fields["_application"] = ez
    return ash, gw, ez, tr


def _stack_inline(g, aw):
    if g.is_async or g.name in ("_write_frame",):
        return False
    # the three wired classes and the module-level helpers of their modules
    return (g.cls is not None and (g.cls.name in ("AshProtocol", "Gateway", "EZSP", "ProtocolHandler") or g.cls.name.startswith("EZSPv"))) or \
        (g.cls is None and g.mod in (ASH, "bellows.uart", EZ, "bellows.ezsp.protocol"))


@rule("R10.3", ["C10"], "T-FLOW", floor=10)
def r10_3(ctx):
    """End-to-end notification chain over the wired AshProtocol / Gateway / EZSP objects (all three explored as one
    program): for an ERROR frame, an unsolicited RSTACK with each non-software code, retry exhaustion, a lost
    connection and end-of-file, with an application callback registered, every registered callback receives exactly
    one '_reset_controller_application' request carrying the reason, EZSP has been stopped and the link closed before
    it, and nothing raises on the way (so the request cannot be lost to an exception in close()); a deliberate close
    (connection_lost(None)) and a software-reset acknowledgement produce no request."""
    anchor_attrs(ctx, "EZSP", "_callbacks", "_gw", "_ezsp_event"); anchor_attrs(ctx, "Gateway", "_application", "_transport"); anchor_attrs(ctx, "AshProtocol", "_ezsp_protocol", "_transport")
    repo = ctx.repo
    rc = repo.cls(NAMED, "NcpResetCode")
    soft = rc.members()["RESET_SOFTWARE"]
    others = [m for m in rc.canonical_members() if m.value != soft.value] + [Member(rc, "undefined_0x7f", 0x7F)]
    scenarios = [("connection_lost(error)", "gw", "connection_lost", lambda: {"exc": Obj(TypeRef("builtins.OSError"), {}, tag="exc")}, True),
                 ("connection_lost(None)", "gw", "connection_lost", lambda: {"exc": None}, False),
                 ("ash.connection_lost(None)", "ash", "connection_lost", lambda: {"exc": None}, False),
                 ("ash.connection_lost(error)", "ash", "connection_lost", lambda: {"exc": Obj(TypeRef("builtins.OSError"), {}, tag="exc")}, True),
                 ("ash.eof_received", "ash", "eof_received", lambda: {}, True),
                 ("retry-exhaustion", "ash", "_enter_failed_state", lambda: {"reset_code": others[0]}, True),
                 ("RSTACK(software), no waiter", "ash", "rstack_frame_received",
                  lambda: {"frame": Obj(repo.cls(ASH, "RStackFrame"), {"version": 2, "reset_code": soft}, tag="frame")}, False)]
    for m in others:
        scenarios.append((f"ERROR({m.name})", "ash", "error_frame_received", (lambda m=m: {"frame": Obj(repo.cls(ASH, "ErrorFrame"), {"version": 2, "reset_code": m}, tag="frame")}), True))
        scenarios.append((f"RSTACK({m.name})", "ash", "rstack_frame_received", (lambda m=m: {"frame": Obj(repo.cls(ASH, "RStackFrame"), {"version": 2, "reset_code": m}, tag="frame")}), True))
    for name, who, meth, args, expect in scenarios:
        for waiter in (False, True, "done"):
            if waiter is True and "RSTACK" not in name and "ERROR" not in name:
                continue
            if waiter == "done" and not expect:
                continue
            # "done": a host-requested reset has just been acknowledged - its future is completed but the done-callback that
            # clears the attribute has not run yet (same event-loop turn, e.g. RSTACK and ERROR frame in one read)
            px = PX(repo, models=fut_models({"rf", "stalecmd"} if waiter == "done" else {"stalecmd"}) + [("*.is_closing", lambda px_, t, a, k, fr: False)], inline=_stack_inline, max_depth=8)
            holder = {}

            def entry():
                ash, gw, ez, tr = _stack(ctx, 2, bool(waiter))
                holder["ez"] = ez
                recv = {"ash": ash, "gw": gw}[who]
                f = recv.cls.method(meth)
                px.top_frame = None
                return px.call_function(f, recv, [], args(), None, top=True)

            for p in px._run(entry):
                ctx.paths += 1
                req = [e for e in p.events if e.kind == "call" and e.callee in ("cb0", "cb1")]
                key = f"{name}{',reset just acknowledged' if waiter == 'done' else (',reset pending' if waiter else '')}"
                bad = None
                if p.terminal != "return":
                    bad = f"raises {p.value!r}: the failure is not delivered to the application"
                elif expect:
                    got = sorted((e.callee, e.args[0]) for e in req)
                    if got != [("cb0", "_reset_controller_application"), ("cb1", "_reset_controller_application")]:
                        bad = f"controller-reset requests delivered: {got}; every registered callback must get exactly one"
                    else:
                        first = p.events.index(req[0])
                        stop = [i for i, e in enumerate(p.events) if e.kind == "call" and e.what.endswith("_ezsp_event.clear")]
                        closed = [i for i, e in enumerate(p.events) if e.kind == "call" and e.callee == "serial.close" or (e.kind == "call" and e.what == "self._transport.close" and e.func == "AshProtocol.close")]
                        if not stop or stop[0] > first:
                            bad = "EZSP is not stopped before the controller-reset request"
                        elif holder["ez"].fields.get("_gw") is not None:
                            bad = "the gateway is not released (closed) before the controller-reset request"
                elif req:
                    bad = f"a controller-reset request is issued: {[e.args[0] for e in req]}"
                ctx.require(not bad, f"chain:{name.split('(')[0]}:{'request' if expect else 'silent'}", f"{key}: {bad}", func=None, trace=p.trace(24))


@rule("R04.6", ["C04", "C01", "C06"], "T-FUN", floor=9)
def r04_6(ctx):
    """The layer between ASH and EZSP is transparent for payloads: Gateway.data_received hands every payload the link accepted (and
    has already acknowledged) to the application's frame_received exactly once, unchanged, whatever the state of the reset /
    start-up waiters {none, open, completed} - a payload dropped here has been acknowledged to the NCP and is never sent again."""
    anchor_attrs(ctx, "Gateway", "_application", "_reset_future", "_startup_reset_future")
    repo = ctx.repo
    f = repo.func(f"{UART}:Gateway.data_received")
    ctx.fn(f)
    for rname, rtag, rdone in FSTATES:
        for sname, stag, sdone in FSTATES:
            done = ({"rf"} if rdone else set()) | ({"sf"} if sdone else set())
            px = PX(repo, models=fut_models(done), inline=same_class())

            def setup():
                return (self_obj(gw_cls(ctx), {"_application": Obj(TypeRef("EZSP"), {}, tag="app"), "_reset_future": fut("rf") if rtag else None,
                                               "_startup_reset_future": fut("sf") if stag else None, "_transport": Obj(TypeRef("AshProtocol"), {}, tag="ash")}),
                        {"data": Sym("payload")})

            for p in px.explore(f, setup):
                ctx.paths += 1
                up = [e for e in p.events if e.kind == "call" and e.what.endswith("frame_received")]
                ok = p.terminal == "return" and len(up) == 1 and up[0].args[:1] == (Sym("payload"),) and up[0].callee == "app.frame_received"
                ctx.require(ok, f"gateway-transparent:reset={rname},startup={sname}", f"reset waiter {rname}, start-up waiter {sname}: Gateway.data_received(payload) "
                            f"{p.terminal}s after {[e.brief() for e in up] or 'no upward call'}; the payload must reach the application exactly once", func=f, trace=p.trace(10))


@rule("R01.6", ["C01", "C06", "C05"], "T-FUN", floor=4)
def r01_6(ctx):
    """The layer between EZSP and ASH submits each frame to the link exactly once: Gateway.send_data(payload) awaits
    AshProtocol.send_data(payload) once, with that payload, and its outcome is the call's outcome - a normal return, the link's
    exception (NotAcked / NcpFailure after the retry budget), or cancellation. The link's send is shielded and keeps
    retransmitting under one frame number; a second submission of the same payload (after a time-out of the caller's wait, say)
    is a new frame for the NCP, which hands the payload up twice."""
    repo = ctx.repo
    f = repo.func(f"{UART}:Gateway.send_data")
    ctx.fn(f)
    outs = Outcomes(OK(None), RAISE("NcpFailure"), RAISE("NotAcked"), RAISE("TimeoutError"), RAISE("CancelledError"))
    px = PX(repo, models=[("self._transport.send_data", outs)], inline=same_class(), cancel=True)

    def setup():
        return (self_obj(gw_cls(ctx), {"_application": Obj(TypeRef("EZSP"), {}, tag="app"), "_transport": Obj(TypeRef("AshProtocol"), {}, tag="ash")}),
                {"data": Sym("payload")})

    paths = px.explore(f, setup)
    ctx.anchor(len(paths) >= 4, "Gateway.send_data outcome paths")
    for p in paths:
        ctx.paths += 1
        subs = [e for e in p.events if e.kind == "await" and e.what.endswith("_transport.send_data")]
        how = "/".join(str(e.extra)[:22] for e in subs) or "-"
        if not subs:
            # cancelled / timed out before the submission: nothing was handed to the link, the call must raise
            ctx.require(p.terminal == "raise", f"gateway-send:none:{p.terminal}", "Gateway.send_data returns without handing the frame to the link", func=f, trace=p.trace(10))
            continue
        bad = None
        if len(subs) != 1:
            bad = f"the payload is submitted to the link {len(subs)} times ({how})"
        elif subs[0].args[:1] != (Sym("payload"),):
            bad = f"the link is given {subs[0].args!r:.60}, not the caller's payload"
        else:
            out = str(subs[0].extra)
            if out.startswith("raises "):
                want = out.split()[1]
                if not (p.terminal == "raise" and getattr(p.value, "cls_name", None) == want):
                    bad = f"the link's send ends with {want} but Gateway.send_data ends with {p.terminal} {p.value!r}"
            elif p.terminal != "return":
                bad = f"the link's send succeeded but Gateway.send_data ends with {p.terminal} {p.value!r}"
        ctx.require(not bad, f"gateway-send:{how}", f"Gateway.send_data [{how}]: {bad}", func=f, trace=p.trace(12))


@rule("R10.4", ["C10"], "T-GATE", floor=2)
def r10_4(ctx):
    """A deliberate close stays silent also while a reset is in progress: Gateway.connection_lost releases the reset waiter with a
    connection error both for a real loss (which it then reports itself, once) and for a deliberate close (exc None, which it does
    not report) - the waiting EZSP.reset therefore cannot tell the two apart and must let the connection error propagate without
    issuing a controller-reset request of its own (with an application attached, and whatever the error's class: the synthesised
    ConnectionResetError, a serial error)."""
    repo = ctx.repo
    ez = repo.cls(EZ, "EZSP")
    f = repo.func(f"{EZ}:EZSP.reset")
    ctx.fn(f)
    for exc in ("ConnectionResetError", "SerialException", "OSError"):
        px = PX(repo, inline=same_class(stop=("handle_callback",)), models=[("self._gw.reset", Outcomes(RAISE(exc)))])

        def setup():
            return (self_obj(ez, {"_callbacks": {i: Sym(f"cb{i}") for i in range(2)}, "_gw": Obj(TypeRef("Gateway"), {}, tag="gw"),
                                  "_ezsp_event": Obj(TypeRef("asyncio.Event"), {}, tag="event")}), {})

        for p in px.explore(f, setup):
            ctx.paths += 1
            hc = [e for e in p.events if e.kind == "call" and (e.what == "self.handle_callback" or str(e.what).startswith("cb"))]
            started = [e for e in p.events if e.kind == "call" and e.what == "self._ezsp_event.set"]
            ok = p.terminal == "raise" and getattr(p.value, "cls_name", None) == exc and not hc and not started
            ctx.require(ok, f"reset:connection-error:{exc}", f"the gateway reset fails with {exc} (the waiter was released by a connection loss or a deliberate "
                        f"close): EZSP.reset ends with {p.terminal} {p.value!r}, callbacks {[e.brief() for e in hc]}, EZSP marked running {len(started)}x; it "
                        "must re-raise, stay stopped and request nothing (the gateway reports real losses itself; a close is not a failure)", func=f,
                        trace=p.trace(12))
