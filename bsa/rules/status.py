"""C18: status normalisation is total and reports success only for success."""
from __future__ import annotations

import ast

from ..core import rule
from ..errors import AnalysisError
from ..px import PX
from .util import same_class
from ..pxv import Obj, Sym
from ..te import ClassRef, FuncRef, Member

NAMED = "bellows.types.named"
STEERING = [  # (family, legacy member, unified member) - the codes that steer retries and start-up decisions
    ("EmberStatus", "NETWORK_BUSY", "ZIGBEE_MAX_MESSAGE_LIMIT_REACHED"),
    ("EmberStatus", "MAX_MESSAGE_LIMIT_REACHED", "ZIGBEE_MAX_MESSAGE_LIMIT_REACHED"),
    ("EmberStatus", "NO_BUFFERS", "ALLOCATION_FAILED"),
    ("EmberStatus", "NOT_JOINED", "NOT_JOINED"),
    ("EmberStatus", "NOT_FOUND", "NOT_FOUND"),
    ("EmberStatus", "TABLE_ENTRY_ERASED", "NOT_FOUND"),
    ("EmberStatus", "INDEX_OUT_OF_RANGE", "INVALID_INDEX"),
    ("EmberStatus", "NETWORK_UP", "NETWORK_UP"),
    ("EmberStatus", "NETWORK_DOWN", "NETWORK_DOWN"),
    ("EmberStatus", "SUCCESS", "OK"),
    ("EzspStatus", "SUCCESS", "OK"),
]


def conv(ctx):
    repo = ctx.repo
    sl = repo.cls(NAMED, "sl_Status")
    try:
        f = sl.method("from_ember_status")
    except KeyError:
        raise AnalysisError("anchor vanished: sl_Status.from_ember_status")
    return sl, f


def run_conv(ctx, px, sl, f, value):
    paths = px.explore(f, lambda: (sl, {"status": value}))
    if len(paths) != 1:
        raise AnalysisError(f"from_ember_status({value!r}): {len(paths)} paths on a concrete status")
    return paths[0]


@rule("R18.1", ["C18", "C12"], "T-FUN", floor=512)
def r18_1(ctx):
    """For each 8-bit status family and each value 0..255 (defined member, alias or undefined) the conversion
    returns a unified status without raising, and the result is OK exactly when the value is the family's success
    code 0; the conversion is a plain classmethod (no caching or other decorator that could make the result depend
    on earlier calls)."""
    repo = ctx.repo
    sl, f = conv(ctx)
    ctx.fn(f)
    decos = [d for d in f.decorators]
    ctx.require(decos == ["classmethod"], "decorators", f"from_ember_status is decorated with {decos}: anything beyond @classmethod (e.g. a cache "
                "keyed by value) can make the result depend on earlier calls", func=f)
    px = PX(repo, inline=same_class(extra=()))
    ok_m = sl.members()["OK"]
    fail_m = sl.members().get("FAIL")
    ctx.anchor(fail_m is not None, "sl_Status.FAIL")
    for fam in ("EmberStatus", "EzspStatus"):
        c = repo.cls(NAMED, fam)
        by_val = {}
        for m in c.members().values():
            by_val.setdefault(m.value, m)
        ctx.anchor(0 in by_val and by_val[0].name in ("SUCCESS",), f"{fam}.SUCCESS == 0")
        for v in range(256):
            m = by_val.get(v) or Member(c, f"undefined_0x{v:02x}", v)
            p = run_conv(ctx, px, sl, f, m)
            r = p.value
            key = f"{fam}({v:#04x})"
            if p.terminal != "return":
                ctx.violation(f"raises:{key}", f"from_ember_status({m!r}) raises {r!r}", func=f)
            elif not (isinstance(r, Member) and r.cls == sl):
                ctx.violation(f"not-unified:{key}", f"from_ember_status({m!r}) returns {r!r}, which is not a unified status", func=f)
            elif (r == ok_m and r.cls == sl and r.value == 0) != (v == 0):
                ctx.violation(f"ok-iff-success:{key}", f"from_ember_status({m!r}) = {r!r}: the result must be OK exactly for the success code", func=f)
            else:
                ctx.ok(1, key)
            # the conversion is a function of its argument alone: the same value converted again (module-level state such as
            # an "already reported" set or a cache has now seen it) gives the same answer
            p2 = run_conv(ctx, px, sl, f, m)
            same = p2.terminal == p.terminal and (p2.value == p.value if p.terminal == "return" else True)
            ctx.require(same, f"repeatable:{fam}:{'defined' if v in by_val else 'undefined'}", f"from_ember_status({m!r}) converted a second time: {p2.terminal} {p2.value!r}, "
                        f"the first time {p.terminal} {p.value!r}; the result must not depend on earlier conversions", func=f)
    ctx.sample({"EmberStatus.NETWORK_BUSY": repr(run_conv(ctx, px, sl, f, repo.cls(NAMED, "EmberStatus").members()["NETWORK_BUSY"]).value)})


@rule("R18.3", ["C18"], "T-FUN", floor=100)
def r18_3(ctx):
    """Every defined unified status, and undefined 32-bit samples, pass through unchanged."""
    repo = ctx.repo
    sl, f = conv(ctx)
    px = PX(repo, inline=same_class(extra=()))
    ms = sl.canonical_members()
    for m in ms + [Member(sl, "undefined_0x7fffffff", 0x7FFFFFFF), Member(sl, "undefined_0x0bad", 0x0BAD), Member(sl, "undefined_0xff", 0xFF)]:
        p = run_conv(ctx, px, sl, f, m)
        ctx.require(p.terminal == "return" and isinstance(p.value, Member) and p.value.cls == sl and p.value.value == m.value,
                    f"passthrough:{m.name}", f"from_ember_status({m!r}) = {p.value!r}; unified statuses must be returned unchanged", func=f)


@rule("R18.4", ["C18", "C12", "C17"], "T-TAB", floor=11)
def r18_4(ctx):
    """The codes that steer retries and start-up decisions map to their unified counterparts (busy codes into
    the set send_packet retries on, NOT_JOINED, NOT_FOUND / TABLE_ENTRY_ERASED, INDEX_OUT_OF_RANGE, NETWORK_UP /
    NETWORK_DOWN, both SUCCESS codes); SL_STATUS_MAP is keyed by (family, code) and maps into the unified type."""
    repo = ctx.repo
    sl, f = conv(ctx)
    px = PX(repo, inline=same_class(extra=()))
    for fam, src, dst in STEERING:
        c = repo.cls(NAMED, fam)
        ctx.anchor(src in c.members() and dst in sl.members(), f"{fam}.{src} / sl_Status.{dst}")
        p = run_conv(ctx, px, sl, f, c.members()[src])
        r = p.value
        ctx.require(p.terminal == "return" and isinstance(r, Member) and r.cls == sl and r.value == sl.members()[dst].value,
                    f"steer:{fam}.{src}", f"{fam}.{src} normalises to {r!r}, must be sl_Status.{dst}", func=f)
    table = repo.get(NAMED, "SL_STATUS_MAP")
    ctx.anchor(isinstance(table, dict) and len(table) >= 15, "SL_STATUS_MAP")
    for k, v in table.items():
        ok = (isinstance(k, tuple) and len(k) == 2 and isinstance(k[0], ClassRef) and isinstance(k[1], Member) and k[1].cls == k[0]
              and isinstance(v, Member) and v.cls == sl)
        ctx.require(ok, f"map-entry:{k!r}"[:60], f"SL_STATUS_MAP entry {k!r} -> {v!r} is not (family, member of that family) -> unified status")
    # the images of the legacy busy codes are statuses send_packet retries on (decided by exploring send_packet, not by its text)
    from .app_tx import explore_send_packet, sends

    app = repo.func("bellows.zigbee.application:ControllerApplication.send_packet")
    for fam, src, dst in STEERING[:3]:
        f_, paths = explore_send_packet(ctx, "Group", (dst, "OK"), None)
        retried = any(len(sends(p)) >= 2 and sends(p)[0].extra[0].name == dst for p in paths)
        ctx.require(retried, f"busy:{src}", f"{fam}.{src} normalises to {dst}, which send_packet does not retry on", func=app)


@rule("R18.5", ["C18"], "T-WMW", floor=1)
def r18_5(ctx):
    """The normalisation table is fixed once its module is imported: no function anywhere in the package stores
    into, deletes from or calls a mutating method on SL_STATUS_MAP (a per-version or per-session adjustment of the shared
    table would change conversions for every later session in the process), and the name is not rebound."""
    from ..idx import index

    repo = ctx.repo
    ws = index(repo).writers("SL_STATUS_MAP")
    for g, n, kind in ws:
        ctx.violation(f"SL_STATUS_MAP:mutated:{g.short}", f"{g.short} modifies the shared normalisation table SL_STATUS_MAP ({kind}, line {n.lineno})", func=g, node=n)
    import ast as _ast

    for g in repo.all_functions():
        for n in _ast.walk(g.node):
            if isinstance(n, _ast.Global) and "SL_STATUS_MAP" in n.names:
                ctx.violation(f"SL_STATUS_MAP:rebound:{g.short}", f"{g.short} declares SL_STATUS_MAP global (rebinds the table)", func=g, node=n)
    ctx.ok(1, "no-writers")
