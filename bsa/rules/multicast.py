"""C15: host view of the multicast table, slot pairing."""
from __future__ import annotations

from ..core import rule
from ..errors import AnalysisError
from ..idx import index
from ..px import OK, PX, RAISE, Outcomes
from ..pxv import Obj, Sym
from ..te import Member, TypeRef
from .util import anchor_attrs
from .util import same_class, self_obj

MC = "bellows.multicast"
NAMED = "bellows.types.named"


def inline_status(g, aw):
    return g.name == "from_ember_status"


def statuses(ctx):
    es = ctx.repo.cls(NAMED, "EmberStatus").members()
    sl = ctx.repo.cls(NAMED, "sl_Status").members()
    return es, sl


def rejections(ctx):
    """One representative per way a table write can be refused: every legacy status whose normalisation is not OK (each
    table preimage), unmapped legacy codes, and unified non-OK statuses."""
    repo = ctx.repo
    table = repo.get(NAMED, "SL_STATUS_MAP")
    out = [k[1] for k, v in table.items() if v.value != 0]
    es, sl = statuses(ctx)
    out += [es["ERR_FATAL"], es["INVALID_CALL"] if "INVALID_CALL" in es else es["BAD_ARGUMENT"], sl["FAIL"], sl["NOT_FOUND"], sl["INVALID_INDEX"], sl["INVALID_PARAMETER"]]
    # a status byte this library has no name for (zigpy yields an `undefined_0x..` pseudo-member)
    out += [Member(repo.cls(NAMED, "EmberStatus"), "undefined_0xee", 0xEE), Member(repo.cls(NAMED, "sl_Status"), "undefined_0x0bad", 0x0BAD)]
    seen, uniq = set(), []
    for m in out:
        if (m.cls.name, m.value) not in seen:
            seen.add((m.cls.name, m.value))
            uniq.append(m)
    return uniq


def entry_obj(ctx, endpoint, group, tag="entry"):
    c = ctx.repo.cls("bellows.types.struct", "EmberMulticastTableEntry")
    return Obj(c, {"endpoint": endpoint, "multicastId": group, "networkIndex": 0}, tag=tag)


def is_ok(ctx, v):
    sl = ctx.repo.cls(NAMED, "sl_Status")
    return isinstance(v, Member) and v.value == 0 and v.name in ("OK", "SUCCESS")


def group_of(key):
    return getattr(key, "tag", repr(key))


@rule("R15.1", ["C15"], "T-PAIR", floor=12)
def r15_1(ctx):
    """subscribe, for a free set of one or two indices and the table write answered {accepted (legacy and unified
    success), rejected, TimeoutError, EzspError, cancellation}: the index taken from the free set is, on every
    exit, either recorded for the group (write accepted; the recorded index is the one written to the NCP and the
    entry carries the group and a non-zero endpoint) or back in the free set - never both, never neither; the
    returned status is OK exactly when the write was accepted."""
    anchor_attrs(ctx, "Multicast", "_multicast", "_available", "_ezsp")
    repo = ctx.repo
    f = repo.func(f"{MC}:Multicast.subscribe")
    ctx.fn(f)
    cls = repo.cls(MC, "Multicast")
    es, sl = statuses(ctx)
    outs = Outcomes(OK((es["SUCCESS"],)), OK((sl["OK"],)), *[OK((m,)) for m in rejections(ctx)],
                    RAISE("TimeoutError"), RAISE("EzspError"), RAISE("CancelledError"))
    def write_model(px_, t, a, k, fr):
        # is the index being programmed still in the free set while the command is in flight?  (another subscribe running
        # during this await would then pick the same index)
        me = fr.self_obj
        av = me.fields.get("_available") if isinstance(me, Obj) else None
        idx_ = a[0] if a else k.get("index")
        if isinstance(av, set):
            px_.emit("mark", "index-still-free-during-write" if idx_ in av else "index-claimed-before-write", frame=fr)
        return outs

    for free in ({5}, {5, 9}, {0, 1, 2}):
        px = PX(repo, models=[("self._ezsp.setMulticastTableEntry", write_model)], inline=same_class())

        def setup():
            return self_obj(cls, {"_multicast": {}, "_available": set(free)}), {"group_id": Sym("g")}

        paths = px.explore(f, setup)
        ctx.paths += len(paths)
        for p in paths:
            st = p.store["self"]
            avail, mc = st.get("_available"), st.get("_multicast")
            wr = [e for e in p.events if e.kind == "await" and e.what.endswith("setMulticastTableEntry")]
            key = f"free={sorted(free)},write={str(wr[0].extra)[:40] if wr else None}"
            bad = None
            if not isinstance(avail, set) or not isinstance(mc, dict):
                raise AnalysisError("multicast collections are not a set / dict after subscribe")
            used = {v[1] for v in mc.values() if isinstance(v, tuple) and len(v) == 2}
            if len(wr) != 1:
                bad = f"{len(wr)} table writes for one subscribe"
            else:
                idx = wr[0].args[0] if wr[0].args else wr[0].kwargs.get("index")
                ent = wr[0].args[1] if len(wr[0].args) > 1 else wr[0].kwargs.get("value")
                accepted = isinstance(wr[0].extra, tuple) and is_ok(ctx, wr[0].extra[0])
                marks = [e.what for e in p.events if e.kind == "mark"]
                if idx not in free:
                    bad = f"index {idx!r} written to the NCP was not a free index {sorted(free)}"
                elif "index-claimed-before-write" not in marks:
                    bad = (f"index {idx!r} is still in the free set while its table write is awaited: a second subscribe started meanwhile takes the same "
                           "index and the two groups overwrite each other in the NCP (claim the index before the await, give it back on failure)")
                elif (avail | used) != set(free) or (avail & used):
                    bad = (f"free indices {sorted(free)} -> free {sorted(avail)}, used {sorted(used)}: every index must stay either free or used "
                           f"by exactly one group ({'leaked' if (avail | used) != set(free) else 'both free and used'})")
                elif accepted:
                    if used != {idx} or len(mc) != 1 or "g" not in group_of(next(iter(mc))):
                        bad = f"accepted write of index {idx}: host records {mc!r}"
                    elif not (isinstance(ent, Obj) and wr[0].fields_then(ent).get("endpoint") not in (0, None) and "g" in group_of(wr[0].fields_then(ent).get("multicastId"))):
                        bad = f"entry written is {ent!r}: it must carry the group and a non-zero endpoint"
                    elif not (p.terminal == "return" and is_ok(ctx, p.value)):
                        bad = f"accepted write but subscribe gives {p.terminal} {p.value!r}"
                else:
                    if mc:
                        bad = f"write not accepted but the host records the group: {mc!r}"
                    elif p.terminal == "return" and is_ok(ctx, p.value):
                        bad = "write not accepted but subscribe reports OK"
            if bad:
                cat = "leak" if "leaked" in bad else ("double" if "both free and used" in bad else ("claim" if "still in the free set" in bad else "other"))
                ctx.violation(f"subscribe:{'raise' if p.terminal == 'raise' else 'return'}:{cat}", f"{key}: {bad}", func=f,
                              trace=p.trace(30), construct=key)
            else:
                ctx.ok(1, key)


@rule("R15.2", ["C15"], "T-FUN", floor=3)
def r15_2(ctx):
    """Subscribing to an already subscribed group reports OK without any table write and changes nothing; with
    no free index it reports a non-OK status without any table write and changes nothing."""
    repo = ctx.repo
    f = repo.func(f"{MC}:Multicast.subscribe")
    cls = repo.cls(MC, "Multicast")
    px = PX(repo, inline=same_class())
    for name, mc, free in (("already", {0x10: (Sym("entry"), 3)}, {5}), ("already-full", {0x10: (Sym("entry"), 3)}, set()), ("full", {}, set()),
                           ("full-other", {0x11: (Sym("entry"), 0)}, set())):
        paths = px.explore(f, lambda: (self_obj(cls, {"_multicast": dict(mc), "_available": set(free)}), {"group_id": 0x10}))
        for p in paths:
            aw = [e for e in p.events if e.kind == "await"]
            st = p.store["self"]
            same = st.get("_multicast") == mc and st.get("_available") == free
            if name.startswith("already"):
                ok = p.terminal == "return" and is_ok(ctx, p.value) and not aw and same
            else:
                ok = p.terminal == "return" and isinstance(p.value, Member) and not is_ok(ctx, p.value) and not aw and same
            ctx.require(ok, f"subscribe:{name}", f"{name}: {p.terminal} {p.value!r}, table writes {[e.what for e in aw]}, state "
                        f"{st.get('_multicast')!r}/{st.get('_available')!r}", func=f, trace=p.trace())


@rule("R15.4", ["C15"], "T-PAIR", floor=6)
def r15_4(ctx):
    """unsubscribe writes endpoint 0 at the index stored for the group; accepted -> the group is forgotten and
    exactly that index becomes free; rejected or failed (timeout, EZSP error, cancellation) -> the group stays
    subscribed and the free set is unchanged; an unknown group reports a non-OK status without a table write."""
    repo = ctx.repo
    f = repo.func(f"{MC}:Multicast.unsubscribe")
    ctx.fn(f)
    cls = repo.cls(MC, "Multicast")
    es, sl = statuses(ctx)
    outs = Outcomes(OK((es["SUCCESS"],)), OK((sl["OK"],)), *[OK((m,)) for m in rejections(ctx)], RAISE("TimeoutError"), RAISE("EzspError"), RAISE("CancelledError"))
    px = PX(repo, models=[("self._ezsp.setMulticastTableEntry", outs)], inline=same_class())

    for gi in (3, 250):  # a small and a large table index (the table holds up to 255 entries)
        def setup():
            return (self_obj(cls, {"_multicast": {Sym("g"): (entry_obj(ctx, 1, Sym("g")), gi), Sym("h"): (entry_obj(ctx, 1, Sym("h"), "entry_h"), 4)},
                                   "_available": {7}}), {"group_id": Sym("g")})

        for p in px.explore(f, setup):
            ctx.paths += 1
            st = p.store["self"]
            mc, avail = st.get("_multicast"), st.get("_available")
            wr = [e for e in p.events if e.kind == "await"]
            key = f"unsubscribe:write={str(wr[0].extra)[:40] if wr else None}"
            bad = None
            if len(wr) != 1:
                bad = f"{len(wr)} table writes"
            else:
                idx, ent = wr[0].args[0], wr[0].args[1] if len(wr[0].args) > 1 else None
                accepted = isinstance(wr[0].extra, tuple) and is_ok(ctx, wr[0].extra[0])
                if idx != gi or not (isinstance(ent, Obj) and wr[0].fields_then(ent).get("endpoint") == 0):
                    bad = f"clears index {idx!r} with entry {ent!r}; must write endpoint 0 at the group's index {gi}"
                elif Sym("h") not in mc or mc[Sym("h")][1] != 4:
                    bad = "another group's record is disturbed"
                elif accepted:
                    if Sym("g") in mc or avail != {7, gi} or not (p.terminal == "return" and is_ok(ctx, p.value)):
                        bad = f"accepted: groups {list(mc)}, free {sorted(avail)}, result {p.terminal} {p.value!r}"
                else:
                    if Sym("g") not in mc or mc[Sym("g")][1] != gi or avail != {7}:
                        bad = (f"write {'failed' if p.terminal == 'raise' else 'rejected'}: host now reports groups {[group_of(k) for k in mc]} and free "
                               f"indices {sorted(avail)}; nothing may change (the NCP still has the group)")
                    elif p.terminal == "return" and is_ok(ctx, p.value):
                        bad = "rejected write reported as OK"
            if bad:
                ctx.violation(f"unsubscribe:{'raise' if p.terminal == 'raise' else 'return'}", f"{key}: {bad}", func=f, trace=p.trace(30))
            else:
                ctx.ok(1, key)
    for p in PX(repo, inline=same_class()).explore(f, lambda: (self_obj(cls, {"_multicast": {}, "_available": {1}}), {"group_id": Sym("g")})):
        aw = [e for e in p.events if e.kind == "await"]
        ctx.require(p.terminal == "return" and isinstance(p.value, Member) and not is_ok(ctx, p.value) and not aw, "unsubscribe:unknown",
                    f"unknown group: {p.terminal} {p.value!r}, writes {len(aw)}", func=f)


@rule("R15.5", ["C15"], "T-FUN", floor=27)
def r15_5(ctx):
    """_initialize (table scan) resets both collections and, for a table of three entries each answered {in use,
    free, unreadable}, puts every readable index in exactly one of them: in-use entries are recorded under their
    group with *their own table index*, free ones go to the free set, unreadable ones to neither; an unreadable
    table size leaves both empty."""
    repo = ctx.repo
    f = repo.func(f"{MC}:Multicast._initialize")
    ctx.fn(f)
    cls = repo.cls(MC, "Multicast")
    es, sl = statuses(ctx)

    def get_entry(px, t, a, k, fr):
        i = a[0] if a else k.get("index")
        return Outcomes(OK((es["SUCCESS"], entry_obj(ctx, 1, Sym(f"g{i}"), f"e{i}"))), OK((es["SUCCESS"], entry_obj(ctx, 0, Sym(f"z{i}"), f"e{i}"))),
                        OK((es["ERR_FATAL"], entry_obj(ctx, 1, Sym(f"x{i}"), f"e{i}"))))

    px = PX(repo, models=[("self._ezsp.getConfigurationValue", Outcomes(OK((es["SUCCESS"], 3)))), ("self._ezsp.getMulticastTableEntry", get_entry)],
            inline=same_class())

    def setup():
        return self_obj(cls, {"_multicast": {Sym("stale"): (Sym("e"), 9)}, "_available": {8}}), {}

    paths = px.explore(f, setup)
    ctx.paths += len(paths)
    unread = sorted({0, 1, 2} - {(e.args[0] if e.args else e.kwargs.get("index")) for p in paths for e in p.events
                               if e.kind == "await" and e.what.endswith("getMulticastTableEntry")})
    if unread:
        ctx.violation("scan:unread-index", f"the table scan never reads index {unread} of a table of size 3: those indices are neither free nor used afterwards",
                      func=f, trace=paths[0].trace(20) if paths else None)
        return
    ctx.anchor(len(paths) == 27, f"_initialize explored {len(paths)} of 27 answer combinations")
    for p in paths:
        st = p.store["self"]
        mc, avail = st.get("_multicast"), st.get("_available")
        rd = [e for e in p.events if e.kind == "await" and e.what.endswith("getMulticastTableEntry")]
        want_used, want_free = {}, set()
        for e in rd:
            i = e.args[0] if e.args else e.kwargs.get("index")
            stt, ent = e.extra
            if is_ok(ctx, stt):
                if ent.fields["endpoint"] != 0:
                    want_used[ent.fields["multicastId"]] = i
                else:
                    want_free.add(i)
        got_used = {k: v[1] for k, v in mc.items()} if isinstance(mc, dict) else None
        key = "scan:" + "".join("U" if is_ok(ctx, e.extra[0]) and e.extra[1].fields["endpoint"] else ("F" if is_ok(ctx, e.extra[0]) else "X") for e in rd)
        ctx.require(p.terminal == "return" and got_used == want_used and avail == want_free and len(rd) == 3, key,
                    f"{key}: host ends with groups {got_used!r} and free indices {avail!r}; the scan implies groups {want_used!r} and free {sorted(want_free)}",
                    func=f, trace=p.trace(30))
    # a full-size table (the NCP's table holds up to 255 entries): every index is read and ends up either used or free
    big = 255

    def get_entry_big(px_, t, a, k, fr):
        i = a[0] if a else k.get("index")
        return (es["SUCCESS"], entry_obj(ctx, 1 if i % 2 == 0 else 0, Sym(f"g{i}"), f"e{i}"))

    pxb = PX(repo, models=[("self._ezsp.getConfigurationValue", Outcomes(OK((es["SUCCESS"], big)))), ("self._ezsp.getMulticastTableEntry", get_entry_big)],
             inline=same_class())
    for p in pxb.explore(f, lambda: (self_obj(cls, {"_multicast": {}, "_available": set()}), {})):
        ctx.paths += 1
        st = p.store["self"]
        mc, avail = st.get("_multicast"), st.get("_available")
        used = sorted(v[1] for v in mc.values()) if isinstance(mc, dict) else None
        ctx.require(p.terminal == "return" and used == list(range(0, big, 2)) and avail == set(range(1, big, 2)), "scan:full-size-table",
                    f"a table of {big} entries (even indices in use, odd ones free): host ends with {len(used or [])} used and {len(avail or [])} free indices "
                    f"(used {str(used)[:60]}..); every index of the table must be accounted for", func=f, trace=p.trace(8))
    # a subscribe that runs to completion while a re-scan is suspended at one of its reads (the scan awaits once per table entry;
    # zigpy adds groups whenever the application asks).  The NCP table is [free, g1, free]; the host view before the re-scan agrees
    # with it.  The concurrent subscribe takes an index from whatever free set the object holds at that moment, programs it and
    # records the group.  When the scan ends the host view must still agree with the NCP table.
    for at in (1, 2):
        for pick in (min, max):
            world = {}

            def scan_read(px_, t, a, k, fr, at=at, pick=pick):
                i = a[0] if a else k.get("index")
                ncp = world["ncp"]
                me = fr.self_obj
                if i == at and not world.get("done") and isinstance(me, Obj):
                    world["done"] = True
                    av, mc_ = me.fields.get("_available"), me.fields.get("_multicast")
                    if not isinstance(av, set) or not isinstance(mc_, dict):
                        raise AnalysisError("multicast collections are not a set / dict during the scan")
                    if av:
                        j = pick(av)
                        av.discard(j)
                        ncp[j] = (1, Sym("G"))
                        mc_[Sym("G")] = (entry_obj(ctx, 1, Sym("G"), "entryG"), j)
                        world["took"] = j
                ep, g = ncp[i]
                return Outcomes(OK((es["SUCCESS"], entry_obj(ctx, ep, g, f"e{i}"))))

            px3 = PX(repo, models=[("self._ezsp.getConfigurationValue", Outcomes(OK((es["SUCCESS"], 3)))), ("self._ezsp.getMulticastTableEntry", scan_read)],
                     inline=same_class())

            def setup3():
                world.clear()
                world["ncp"] = {0: (0, Sym("z0")), 1: (1, Sym("g1")), 2: (0, Sym("z2"))}
                return self_obj(cls, {"_multicast": {Sym("g1"): (entry_obj(ctx, 1, Sym("g1"), "old1"), 1)}, "_available": {0, 2}}), {}

            for p in px3.explore(f, setup3):
                ctx.paths += 1
                st = p.store["self"]
                mc, avail = st.get("_multicast"), st.get("_available")
                ncp = world["ncp"]
                want_used = {g: i for i, (ep, g) in ncp.items() if ep != 0}
                want_free = {i for i, (ep, g) in ncp.items() if ep == 0}
                got_used = {k: v[1] for k, v in mc.items()} if isinstance(mc, dict) else None
                ctx.require(p.terminal == "return" and got_used == want_used and avail == want_free, "scan:subscribe-during-scan",
                            f"a subscribe completed while the scan was suspended at the read of index {at} (it took index {world.get('took')!r}): the host ends with groups "
                            f"{got_used!r} and free indices {avail!r}, the NCP table holds groups {want_used!r} and free {sorted(want_free)}", func=f, trace=p.trace(30))
    px2 = PX(repo, models=[("self._ezsp.getConfigurationValue", Outcomes(OK((es["ERR_FATAL"], 3))))], inline=same_class())
    for p in px2.explore(f, setup):
        st = p.store["self"]
        ctx.require(p.terminal == "return" and st.get("_multicast") == {} and st.get("_available") == set(), "scan:size-unreadable",
                    f"unreadable table size leaves {st.get('_multicast')!r} / {st.get('_available')!r}", func=f)


@rule("R15.6", ["C15"], "T-WMW", floor=4)
def r15_6(ctx):
    """Both collections are modified only inside Multicast; the group endpoints act on the returned status: a
    non-OK subscribe/unsubscribe raises before the zigpy group membership is changed."""
    repo = ctx.repo
    for attr in ("_multicast", "_available"):
        for g, n, kind in index(repo).writers(attr):
            if g.mod.startswith("bellows.cli"):
                continue
            if attr == "_multicast" and g.cls is not None and g.cls.name != "Multicast" and kind == "store" and g.short == "ControllerApplication.__init__":
                ctx.ok(1)  # ControllerApplication._multicast is the Multicast object itself, not the table
                continue
            if attr == "_multicast" and g.short in ("ControllerApplication.start_network",):
                ctx.ok(1)
                continue
            # a private helper class of the multicast module (a guard object that returns a claimed index on failure) acts for the controller:
            # what it does is decided where it is used (R15.1 / R15.4 evaluate it as part of subscribe / unsubscribe)
            helper = g.cls is not None and g.cls.name.startswith("_") and g.mod == MC
            ctx.require(g.cls is not None and (g.cls.name == "Multicast" or helper), f"{attr}:writer:{g.short}", f"{attr} modified in {g.short} ({kind})", func=g, node=n)
    es, sl = statuses(ctx)
    dev = "bellows.zigbee.device"
    # the calls are identified by the value they are made on (self.device.application.multicast), whatever local it is held in
    for meth, call in (("add_to_group", "self.device.application.multicast.subscribe"), ("remove_from_group", "self.device.application.multicast.unsubscribe")):
        f = repo.func(f"{dev}:EZSPEndpoint.{meth}")
        ctx.fn(f)
        # Multicast.subscribe / unsubscribe hand back the NCP's raw status: the legacy success code below v14, the unified one from v14
        px = PX(repo, models=[(call, Outcomes(OK(sl["OK"]), OK(es["SUCCESS"]), OK(sl["FAIL"]), OK(sl["INVALID_INDEX"]), OK(es["ERR_FATAL"])))], inline=same_class(),
                facts={"(grp_id in self.member_of)": meth == "remove_from_group"})
        c = repo.cls(dev, "EZSPEndpoint")
        for p in px.explore(f, lambda: (self_obj(c, {}), {"grp_id": Sym("grp_id"), **({"name": None} if meth == "add_to_group" else {})})):
            aw = [e for e in p.events if e.kind == "await" and (e.what == call or e.callee == call)]
            if not aw:
                raise AnalysisError(f"{meth}: no call of {call}")
            okst = is_ok(ctx, aw[0].extra)
            member_calls = [e for e in p.events if e.kind == "call" and e.what.split(".")[-1] in ("add_group", "add_member", "remove_member")]
            good = (okst and p.terminal == "return" and member_calls) or (not okst and p.terminal == "raise" and not member_calls)
            ctx.require(good, f"{meth}:{'ok' if okst else 'refused'}", f"{meth} with status {aw[0].extra!r}: {p.terminal} {p.value!r}, membership calls "
                        f"{[e.what for e in member_calls]}", func=f, trace=p.trace())


@rule("R15.7", ["C15"], "T-ORD", floor=1)
def r15_7(ctx):
    """Start-up: the table is scanned first, then every group of every coordinator endpoint other than endpoint 0 (ZDO)
    is subscribed exactly once; groups of endpoint 0 are not."""
    repo = ctx.repo
    f = repo.func(f"{MC}:Multicast.startup")
    ctx.fn(f)
    cls = repo.cls(MC, "Multicast")
    es, sl = statuses(ctx)
    def scan(px_, t, a, k, fr):
        # what the table scan found in the NCP (which was not power-cycled): group 20 (still a member) at index 2 and group 99
        # (no longer in the stored membership) at index 4; indices 0, 1, 3 free
        me = fr.self_obj
        me.fields["_multicast"] = {20: (Sym("entry20"), 2), 99: (Sym("entry99"), 4)}
        me.fields["_available"] = {0, 1, 3}
        return Outcomes(OK(None))

    px = PX(repo, models=[("self._initialize", scan), ("self.subscribe", Outcomes(OK(sl["OK"]), OK(sl["FAIL"]))),
                          ("self._ezsp.setMulticastTableEntry", Outcomes(OK((es["SUCCESS"],))))], inline=same_class())

    def setup():
        eps = {0: Obj(TypeRef("Endpoint"), {"member_of": {10: "g10"}}, tag="ep0"), 1: Obj(TypeRef("Endpoint"), {"member_of": {20: "g20", 30: "g30"}}, tag="ep1"),
               242: Obj(TypeRef("Endpoint"), {"member_of": {40: "g40"}}, tag="ep242")}
        return self_obj(cls, {"_multicast": {}, "_available": set()}), {"coordinator": Obj(TypeRef("Device"), {"endpoints": eps}, tag="coordinator")}

    for p in px.explore(f, setup):
        ctx.paths += 1
        aw = [e for e in p.events if e.kind == "await"]
        subs = [e.args[0] for e in aw if e.what == "self.subscribe"]
        ok = p.terminal == "return" and aw and aw[0].what == "self._initialize" and sorted(subs) == [20, 30, 40]
        ctx.require(ok, "startup", f"startup awaits {[e.what for e in aw[:1]]} first and subscribes groups {subs}; must scan the table first and then "
                    "subscribe exactly the groups of the non-ZDO endpoints [20, 30, 40]", func=f, trace=p.trace(12))
        # the host's view keeps mirroring the NCP: an entry found programmed in the NCP stays recorded (with its index, which
        # stays out of the free set) unless start-up cleared it in the NCP with an accepted table write
        mc, av = p.store["self"].get("_multicast"), p.store["self"].get("_available")
        cleared = {e.args[0] for e in aw if e.what.endswith("setMulticastTableEntry") and e.args}
        if isinstance(mc, dict) and isinstance(av, set):
            for grp, idx in ((20, 2), (99, 4)):
                kept = grp in mc and isinstance(mc[grp], tuple) and mc[grp][1] == idx and idx not in av
                ctx.require(kept or idx in cleared, f"startup:mirror:{'member' if grp == 20 else 'stale'}-entry",
                            f"the NCP has group {grp} programmed at index {idx}; after start-up the host records {mc.get(grp)!r}, free set {sorted(av)}, and no "
                            "table write cleared that index: the host's view no longer matches the NCP (the index is free for the host but in use in the NCP)",
                            func=f, trace=p.trace(14))


@rule("R15.8", ["C15"], "T-FUN", floor=4)
def r15_8(ctx):
    """Operation sequences on one controller object (subscribe g, unsubscribe g answered {accepted, rejected}, subscribe g
    again; subscribe g, subscribe h): every table write of a subscribe carries that group, a non-zero endpoint and a free
    index - also the second time round (an entry object shared between calls and zeroed by unsubscribe would program
    endpoint 0 and report success) - and after each step every index is free or used by exactly one group."""
    repo = ctx.repo
    cls = repo.cls(MC, "Multicast")
    es, sl = statuses(ctx)
    sub_f, unsub_f = repo.func(f"{MC}:Multicast.subscribe"), repo.func(f"{MC}:Multicast.unsubscribe")
    ctx.fn(sub_f)
    for unsub_answer in (es["SUCCESS"], es["ERR_FATAL"]):
        answers = {"n": 0}

        def model(px_, t, a, k, fr):
            answers["n"] += 1
            ent = a[1] if len(a) > 1 else None
            px_.emit("snapshot", "table-write", (answers["n"], a[0] if a else None, dict(ent.fields) if isinstance(ent, Obj) else ent))  # fields as they are now
            return Outcomes(OK((unsub_answer if answers["n"] == 2 else es["SUCCESS"],)))

        px = PX(repo, models=[("self._ezsp.setMulticastTableEntry", model)], inline=same_class())
        px.inline.root = sub_f

        def entry():
            answers["n"] = 0
            answers["writes"] = []
            me = self_obj(cls, {"_multicast": {}, "_available": {0, 1}})
            px.top_frame = None
            px.emit("mark", "subscribe g")
            px.call_function(sub_f, me, [0x10], {}, None)
            px.emit("mark", "unsubscribe g")
            px.call_function(unsub_f, me, [0x10], {}, None)
            px.emit("mark", "subscribe g again")
            px.call_function(sub_f, me, [0x10], {}, None)
            px.emit("mark", "subscribe h")
            px.call_function(sub_f, me, [0x20], {}, None)
            return me

        for p in px._run(entry):
            ctx.paths += 1
            me = p.value
            bad = None
            steps = {1: ("subscribe g", 0x10), 3: ("subscribe g again", 0x10), 4: ("subscribe h", 0x20)}
            if unsub_answer.value != 0:
                steps = {1: ("subscribe g", 0x10), 3: ("subscribe h", 0x20)}  # g is still subscribed: the second subscribe g writes nothing
            for n_, idx_, fields in [e.args for e in p.events if e.kind == "snapshot"]:
                if n_ in steps:
                    step, want_group = steps[n_]
                    if not (isinstance(fields, dict) and fields.get("endpoint") not in (0, None) and int(fields.get("multicastId", -1)) == want_group):
                        bad = f"step '{step}' writes entry {fields!r} at index {idx_!r} (group 0x{want_group:x} with a non-zero endpoint expected)"
            if not bad and p.terminal == "return":
                used = {v[1] for v in me.fields["_multicast"].values()}
                avail = me.fields["_available"]
                groups = sorted(int(k) for k in me.fields["_multicast"])
                want_groups = [0x10, 0x20]
                if (used | avail) != {0, 1} or (used & avail) or groups != want_groups:
                    bad = f"after the sequence the host reports groups {groups} on indices {sorted(used)} with free {sorted(avail)}; expected groups {want_groups}"
            ctx.require(not bad and p.terminal == "return", f"sequence:unsubscribe-{'accepted' if unsub_answer.value == 0 else 'rejected'}",
                        f"subscribe g / unsubscribe g ({unsub_answer!r}) / subscribe g / subscribe h: {bad or p.value!r}", func=sub_f, trace=p.trace(30))
    # longer histories against a simulated NCP table (every accepted write is applied to it with the entry's fields as they are at
    # the time of the call): after every step the groups the host reports are exactly the entries programmed with a non-zero endpoint,
    # at the indices the host records, and the free set is exactly the rest
    G, H = 0x10, 0x20
    histories = {"g+ g- h+ g+": [("s", G), ("u", G), ("s", H), ("s", G)],
                 "g+ h+ g- h- h+ g+": [("s", G), ("s", H), ("u", G), ("u", H), ("s", H), ("s", G)],
                 "g+ g- g+ h+ h- h+": [("s", G), ("u", G), ("s", G), ("s", H), ("u", H), ("s", H)]}
    if ctx.run.tier == "thorough":
        # every sequence of up to five operations over two groups (all table writes accepted)
        import itertools

        alphabet = [("s", G), ("u", G), ("s", H), ("u", H)]
        for n_ in range(1, 6):
            for combo in itertools.product(range(4), repeat=n_):
                histories["all:" + "".join("gGhH"[c] for c in combo)] = [alphabet[c] for c in combo]
    for hname, ops in histories.items():
        world = {}

        def wmodel(px_, t, a, k, fr):
            idx_ = a[0] if a else k.get("index")
            ent = a[1] if len(a) > 1 else k.get("value")
            if isinstance(ent, Obj) and isinstance(idx_, int):
                world["ncp"][idx_] = (ent.fields.get("endpoint"), ent.fields.get("multicastId"))
            return Outcomes(OK((es["SUCCESS"],)))

        pxh = PX(repo, models=[("self._ezsp.setMulticastTableEntry", wmodel)], inline=same_class())
        pxh.inline.root = sub_f

        def hentry():
            world["ncp"] = {0: (0, 0), 1: (0, 0)}
            world["log"] = []
            me = self_obj(cls, {"_multicast": {}, "_available": {0, 1}})
            pxh.top_frame = None
            for op, g in ops:
                pxh.emit("mark", f"{'subscribe' if op == 's' else 'unsubscribe'} 0x{g:x}")
                pxh.call_function(sub_f if op == "s" else unsub_f, me, [g], {}, None)
                mc_, av_ = me.fields.get("_multicast"), me.fields.get("_available")
                if not isinstance(mc_, dict) or not isinstance(av_, set):
                    raise AnalysisError("multicast collections are not a dict / set after an operation")
                host = {int(k_): v_[1] for k_, v_ in mc_.items()}
                ncp_used = {int(gg): i for i, (ep, gg) in world["ncp"].items() if ep not in (0, None)}
                ncp_free = {i for i, (ep, gg) in world["ncp"].items() if ep in (0, None)}
                if host != ncp_used or set(av_) != ncp_free:
                    world["log"].append(f"after '{'subscribe' if op == 's' else 'unsubscribe'} 0x{g:x}': host reports {host} free {sorted(av_)}, "
                                        f"the NCP table holds {ncp_used} free {sorted(ncp_free)}")
            world["final"] = list(world["log"])
            return me

        for p in pxh._run(hentry):
            ctx.paths += 1
            bad = "; ".join(world.get("final", [])[:2]) if p.terminal == "return" else f"raises {p.value!r}"
            ctx.require(not bad, f"history:{'exhaustive' if hname.startswith('all:') else hname}", f"history {hname}: {bad}", func=sub_f, trace=p.trace(40))
