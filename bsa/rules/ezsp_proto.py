"""EZSP protocol layer: command/response matching (C06), codec consistency (C07), containment (C08)."""
from __future__ import annotations

import ast

from ..core import rule
from ..errors import AnalysisError, FormNotRecognised
from ..idx import index
from ..px import OK, PX, RAISE, Outcomes
from ..pxv import Obj, Sym
from ..te import ClassRef, FuncRef, Member, TypeRef
from .util import anchor_attrs
from .util import acquire_release_use, const, fut, same_class, self_obj, text, who_may_call

PROTO = "bellows.ezsp.protocol"
from ..su import VERSIONS  # noqa: E402  (shared list, filled from EZSP._BY_VERSION)


def vcls(ctx, v):
    return ctx.repo.cls(f"bellows.ezsp.v{v}", f"EZSPv{v}")


def commands(ctx, v):
    c = ctx.repo.get(f"bellows.ezsp.v{v}.commands", "COMMANDS")
    if not isinstance(c, dict) or len(c) < 100:
        raise AnalysisError(f"COMMANDS of v{v} did not resolve to a table")
    return c


def handler_commands(ctx, v):
    """COMMANDS as seen through the handler class (what the running code uses)."""
    c = vcls(ctx, v).lookup("COMMANDS")
    if not isinstance(c, dict):
        raise AnalysisError(f"EZSPv{v}.COMMANDS did not resolve")
    return c


def inline_proto(stop=()):
    def pol(f: FuncRef, awaited):
        if f.name in stop:
            return False
        if f.cls is not None and any(n in ("ProtocolHandler",) for n in f.cls.base_names()) and not f.is_async:
            return True
        if f.cls is not None and any(n in ("ProtocolHandler",) for n in f.cls.base_names() + [f.cls.name]) and f.is_async and awaited \
                and f.name.startswith("_") and f.cls.name == "ProtocolHandler":
            return True  # a private coroutine of the base handler that command() was split into (awaited in place: no extra suspension)
        return f.mod == "bellows.types" and f.cls is None

    return pol


def codec_models():
    return [("t.serialize_dict", lambda px, t, a, k, fr: Sym("payload")), ("*.serialize", lambda px, t, a, k, fr: Sym("payload"))]


# =============================================================================== C06
def f_cmd(ctx):
    return ctx.repo.func(f"{PROTO}:ProtocolHandler.command")


def explore_command(ctx, v, seq, name, send=None, wait=None, cancel=False, stale=()):
    repo = ctx.repo
    f = repo.func(f"{PROTO}:ProtocolHandler.command")
    c = vcls(ctx, v)
    models = [("t.serialize_dict", lambda px, t, a, k, fr: Sym("payload")),
              ("await:future", wait or Outcomes(OK(Sym("reply")))),
              ("self._gw.send_data", send or Outcomes(OK(None))),
              ("*.create_future", lambda px, t, a, k, fr: fut("future")),
              ("*.locked", lambda px, t, a, k, fr: False)]
    px = PX(repo, models=models, inline=inline_proto(), cancel=cancel, max_depth=5)

    def setup():
        return self_obj(c, {"_seq": seq, "_awaiting": {k: (0, {}, fut(f"stale{k}")) for k in stale}}), {"name": name, "args": (), "kwargs": {}}

    return f, px, px.explore(f, setup)


def header_of(p, want_event=False):
    for e in p.events:
        if e.kind == "ret" and e.what.endswith("_ezsp_frame_tx") and e.args and isinstance(e.args[0], (bytes, bytearray)):
            return e if want_event else bytes(e.args[0])
    return None


@rule("R06.1", ["C06", "C07", "C08"], "T-ORD", floor=768)
def r06_1(ctx):
    """In ProtocolHandler.command, for every sequence value 0..255 and each of the three header layouts: the
    header carries the current sequence number, the pending entry is registered under that same number with the
    command's own frame ID and response schema, the number then advances to (n+1) % 256 - all in one event-loop
    turn and before the frame is handed to the link - and the registered future is the one awaited."""
    anchor_attrs(ctx, "ProtocolHandler", "_seq", "_awaiting", "_gw", "_send_semaphore")
    for v in (4, 5, 8):
        name = "version"
        cid, _, rx = handler_commands(ctx, v)[name]
        for s in range(256):
            f, px, paths = explore_command(ctx, v, s, name)
            ctx.paths += len(paths)
            if len(paths) != 1:
                raise AnalysisError(f"command(): {len(paths)} paths with single outcomes")
            p = paths[0]
            ctx.fn(f)
            hdr = header_of(p)
            reg = [e for e in p.events if e.kind == "write" and e.what == "self._awaiting[]"]
            adv = [e for e in p.events if e.kind == "write" and e.what == "self._seq"]
            snd = [e for e in p.events if e.kind == "await" and e.what.endswith("send_data")]
            wt = [e for e in p.events if e.kind == "await" and e.what == "future"]
            bad = None
            if hdr is None:
                raise AnalysisError("header writer result not observed in command()")
            if hdr[0] != s:
                bad = f"header carries sequence {hdr[0]}, current number is {s}"
            elif len(reg) != 1 or reg[0].args[0] != s:
                bad = f"pending entry registered under {[e.args[0] for e in reg]!r}, header carries {s}"
            elif not (isinstance(reg[0].args[1], tuple) and len(reg[0].args[1]) == 3 and reg[0].args[1][0] == cid
                      and reg[0].args[1][1] is rx and isinstance(reg[0].args[1][2], Obj) and reg[0].args[1][2].tag == "future"):
                bad = f"pending entry is {reg[0].args[1]!r:.120}, must be (frame id {cid}, its rx schema, the awaited future)"
            elif len(adv) != 1 or adv[0].args[0] != (s + 1) % 256:
                bad = f"sequence number becomes {[e.args[0] for e in adv]!r}, must become {(s + 1) % 256}"
            elif len(snd) != 1 or len(wt) != 1:
                bad = f"{len(snd)} sends / {len(wt)} waits"
            else:
                i_reg, i_adv, i_snd = p.events.index(reg[0]), p.events.index(adv[0]), p.events.index(snd[0])
                if not (i_reg < i_snd and i_adv < i_snd):
                    bad = "frame handed to the link before the pending entry is registered / the number advanced"
                elif len({reg[0].epoch, adv[0].epoch, header_of(p, True).epoch}) != 1 or snd[0].epoch != reg[0].epoch + 1:
                    bad = "an await separates header construction, registration and sequence advance"
                elif not (isinstance(snd[0].args[0], Sym) and repr(hdr)[1:] in snd[0].args[0].tag or snd[0].args[0] == hdr):
                    bad = f"data sent {snd[0].args[0]!r:.80} is not header+payload built for this call"
                elif not (wt[0].args and isinstance(wt[0].args[0], Obj) and wt[0].args[0] is reg[0].args[1][2]):
                    bad = "the awaited future is not the registered one"
                elif p.value != Sym("reply"):
                    bad = f"command returns {p.value!r}, not the reply delivered to its future"
            key = f"v{v},seq={s}"
            if bad:
                ctx.violation(f"command:{bad.split(',')[0][:40]}", f"{key}: {bad}", func=f, trace=p.trace(40))
            else:
                ctx.ok(1, key)
    # entries left behind by commands that timed out do not shift the numbering: the request still goes out and is awaited
    # under the same number (which then belongs to the new call)
    for v in (4, 8):
        for s, stale in ((0, (0,)), (7, (7, 8)), (255, (255, 0)), (100, (101,))):
            f, px, paths = explore_command(ctx, v, s, "version", stale=stale)
            for p in paths:
                hdr = header_of(p)
                reg = [e for e in p.events if e.kind == "write" and e.what == "self._awaiting[]"]
                ok = (p.terminal == "return" and hdr is not None and hdr[0] == s and len(reg) == 1 and reg[0].args[0] == s
                      and p.store["self"].get("_seq") == (s + 1) % 256)
                ctx.require(ok, f"stale-entries:v{v}:seq={s}", f"v{v}, sequence {s} with timed-out entries {stale} still pending: header carries "
                            f"{hdr[0] if hdr else None}, registered under {[e.args[0] for e in reg]}, counter -> {p.store['self'].get('_seq')!r}", func=f, trace=p.trace(20))
    ctx.sample({"v8 header for seq 255": "ff0001" + "0000"})


@rule("R06.4", ["C06", "C10", "C08", "C07", "C19", "C09"], "T-PAIR", floor=10)
def r06_4(ctx):
    """The single in-flight slot: send and wait happen inside `async with self._send_semaphore(priority=...)`,
    which is a PriorityDynamicBoundedSemaphore of MAX_COMMAND_CONCURRENCY = 1 and is touched in no other way, so it
    is released on return, timeout, send failure and cancellation alike; the reply wait is bounded by
    asyncio_timeout(EZSP_CMD_TIMEOUT); on every failing exit the call raises."""
    repo = ctx.repo
    P = ("C06", "C10", "C08")  # everything but the header/registration agreement, which is also a codec matter (C07)
    n = const(ctx, PROTO, "MAX_COMMAND_CONCURRENCY", int)
    ctx.require(n == 1, "MAX_COMMAND_CONCURRENCY", f"MAX_COMMAND_CONCURRENCY = {n}; one-in-flight needs 1", props=P)
    tmo = const(ctx, PROTO, "EZSP_CMD_TIMEOUT")
    ctx.require(0 < tmo <= 60, "EZSP_CMD_TIMEOUT", f"EZSP_CMD_TIMEOUT = {tmo}", props=P)
    send = Outcomes(OK(None), RAISE("NcpFailure"), RAISE("CancelledError"))
    wait = Outcomes(OK(Sym("reply")), RAISE("TimeoutError"), RAISE("CancelledError"))
    # what a failing call raises is what its callers act on: the reply timeout must surface as TimeoutError (the watchdog counts it,
    # send_packet reports it), a link failure as the link's exception, a cancellation as CancelledError - at every sequence number,
    # the wrap-around included
    for seq0 in (0, 254, 255):
        for v0 in (4, 8):
            _, _, ps = explore_command(ctx, v0, seq0, "nop", send, wait, cancel=True)
            ctx.paths += len(ps)
            for p in ps:
                aw = [e for e in p.events if e.kind == "await"]
                last = str(aw[-1].extra) if aw else ""
                if last.startswith("raises ") and aw[-1].what in ("future",) or (last.startswith("raises ") and aw and aw[-1].what.endswith("send_data")):
                    want = last.split()[1]
                    got = getattr(p.value, "cls_name", None) if p.terminal == "raise" else None
                    ctx.require(got == want, f"command:exception:{want}:seq={seq0}",
                                f"v{v0}, sequence number {seq0}: {aw[-1].what} ends with {want} but the command ends with {p.terminal} {p.value!r}; callers "
                                f"(watchdog, send_packet) act on {want}", func=f_cmd(ctx), trace=p.trace(30), props=("C06", "C19", "C10"))
    # the reply is dispatched (its entry popped by the receive path) in the very loop turn in which the time limit fires: the
    # command has already lost the race and ends with TimeoutError - a clean-up that assumes the entry is still there must not
    # turn that into another exception
    def popped_then_timeout(px_, t, a, k, fr):
        me_ = fr.self_obj
        aw_ = me_.fields.get("_awaiting") if isinstance(me_, Obj) else None
        if isinstance(aw_, dict):
            aw_.clear()
        return Outcomes(RAISE("TimeoutError"))

    for seq0 in (7, 255):
        _, _, ps = explore_command(ctx, 8, seq0, "nop", Outcomes(OK(None)), popped_then_timeout)
        ctx.paths += len(ps)
        for p in ps:
            got = getattr(p.value, "cls_name", None) if p.terminal == "raise" else None
            ctx.require(got == "TimeoutError", f"command:exception:reply-popped-at-timeout:seq={seq0}",
                        f"sequence number {seq0}: the reply's entry is popped by the receive path in the turn in which the time limit fires; the command ends with "
                        f"{p.terminal} {p.value!r}, callers act on TimeoutError", func=f_cmd(ctx), trace=p.trace(30), props=("C06", "C19", "C10"))
    f, px, paths = explore_command(ctx, 8, 7, "nop", send, wait, cancel=True)
    ctx.paths += len(paths)
    ctx.anchor(len(paths) >= 6, "command() outcome paths")
    for p in paths:
        aw = [e for e in p.events if e.kind == "await"]
        pid = "/".join(str(e.extra)[:22] for e in aw) or "cancelled-at-enter"
        bad = None
        for e in aw:
            if not any(c == "self._send_semaphore" for c in e.ctx):
                bad = f"await {e.what} outside the send semaphore"
            if e.what == "future" and not any(c.endswith("asyncio_timeout") for c in e.ctx):
                bad = "reply wait is not inside asyncio_timeout"
            if e.what.endswith("send_data") and any(c.endswith("asyncio_timeout") for c in e.ctx):
                # the link has its own retry budget (up to ACK_TIMEOUTS transmissions, several seconds each); the command timeout bounds
                # the wait for the *reply* and starts when the link has taken the frame (C10: command timeout + link timeouts)
                ctx.violation("command:send-inside-timeout", f"path [{pid}]: the frame is handed to the link inside the reply timeout: a frame that the link "
                              "gets through on a later retransmission (lossy line during bring-up) fails its command although it was delivered and "
                              "will be answered", func=f, trace=p.trace(20), props=("C06", "C09", "C10"))
        ent = [e for e in p.events if e.kind == "enter" and e.what == "self._send_semaphore"]
        ext = [e for e in p.events if e.kind == "exit" and e.what == "self._send_semaphore"]
        ok_reply = aw and aw[-1].what == "future" and aw[-1].extra == Sym("reply")
        if not bad:
            if len(ent) > 1 or (ent and len(ext) != 1):
                bad = f"semaphore entered {len(ent)}x, exited {len(ext)}x"
            elif p.terminal == "return" and not ok_reply:
                bad = "command returns normally without a reply"
            elif p.terminal == "raise" and ok_reply:
                bad = f"command raises {p.value!r} although its reply arrived"
        for e in p.events:
            if e.kind == "enter" and e.what.endswith("asyncio_timeout") and e.args[:1] != (tmo,):
                bad = f"reply wait bounded by {e.args!r}, not EZSP_CMD_TIMEOUT"
        if not bad and header_of(p) is not None and p.store["self"].get("_seq") != 8:
            bad = (f"a request was built with sequence number 7 but the counter ends at {p.store['self'].get('_seq')!r} on this exit: the number must be "
                   "consumed exactly once whatever the outcome (a reused number lets a late reply complete another call)")
        if bad:
            ctx.violation("command:slot", f"path [{pid}]: {bad}", func=f, trace=p.trace(40), props=("C06", "C10", "C08"))
        else:
            ctx.ok(1, pid)
        # every frame handed to the link carries, in its header, the number under which the call is waiting at that moment (also
        # when the frame is sent again after a timeout: a frame built once and re-sent under a new registration is answered under
        # the old number, which nobody waits for any more)
        hdr = header_of(p)
        last_reg = None
        for e in p.events:
            if e.kind == "write" and e.what == "self._awaiting[]":
                last_reg = e.args[0]
            elif e.kind == "await" and e.what.endswith("send_data") and hdr is not None and isinstance(last_reg, int):
                want = bytes([last_reg]) + hdr[1:]
                d = e.args[0] if e.args else None
                ok = (isinstance(d, Sym) and repr(want)[1:] in d.tag) or (isinstance(d, (bytes, bytearray)) and bytes(d).startswith(want))
                ctx.require(ok, "command:header-vs-registration", f"path [{pid}]: the call waits under sequence number {last_reg} but the frame sent is {d!r:.70} "
                            f"(header must start with {want.hex()})", func=f, trace=p.trace(40), props=("C06", "C10", "C08", "C07"))
    # construction and uses of the semaphore
    for g, nnode, kind in index(repo).writers("_send_semaphore"):
        st = [s for s in ast.walk(g.node) if isinstance(s, ast.Assign) and any(t is nnode for t in s.targets)]
        v = st[0].value if st else None
        ok = (g.short == "ProtocolHandler.__init__" and isinstance(v, ast.Call) and text(v.func).endswith("PriorityDynamicBoundedSemaphore")
              and [(k.arg, repo.te.ev(k.value, repo.module(PROTO), PROTO)) for k in v.keywords] + [repo.te.ev(a, repo.module(PROTO), PROTO) for a in v.args]
              in ([("value", n)], [n]))
        ctx.require(ok, f"semaphore-store:{g.short}", f"send semaphore assigned in {g.short}: {text(v) if v else '?'}", func=g, node=nnode, props=P)
    for g, nnode in index(repo).references("_send_semaphore"):
        ok = False
        for q in ast.walk(g.node):
            if isinstance(q, ast.AsyncWith) and any(isinstance(it.context_expr, ast.Call) and it.context_expr.func is nnode for it in q.items):
                # (which method holds the `async with` is decided by the exploration above: send and wait must be inside it)
                ok = g.cls is not None and "ProtocolHandler" in g.cls.base_names()
            if isinstance(q, ast.Attribute) and q.value is nnode and q.attr not in ("acquire", "release", "_waiters", "_value", "__aenter__", "__aexit__") \
                    and isinstance(q.ctx, ast.Load):
                ok = True  # a read-only query (locked(), value, num_waiting ...): diagnostics, not slot management
            if isinstance(q, ast.Call) and isinstance(q.func, ast.Attribute) and q.func.attr == "enter_async_context" and any(
                    isinstance(a_, ast.Call) and a_.func is nnode for a_ in q.args):
                # entered through a contextlib.AsyncExitStack: the same acquire / release-on-every-exit pairing as `async with`
                ok = g.cls is not None and "ProtocolHandler" in g.cls.base_names() + [g.cls.name]
        if not ok and g.cls is not None and "ProtocolHandler" in g.cls.base_names() + [g.cls.name] and acquire_release_use(g.node, nnode):
            ok = True  # `await sem.acquire(priority)` + try/finally `sem.release()`: the explicit spelling of `async with sem(priority=...)`
        ctx.require(ok, f"semaphore-use:{g.short}", f"send semaphore used in {g.short} line {nnode.lineno} other than `async with` in command()",
                    func=g, node=nnode, props=P)
    from .ash_link import confined_writers

    confined_writers(ctx, "_seq", {q for q in px.visited}, {"ProtocolHandler.__init__"}, "R06.1/R06.4 (command)", props=("C06", "C10", "C08", "C07"))


KEEPALIVE = ("nop", "readCounters", "readAndClearCounters")
PACKET = ("sendUnicast", "sendMulticast", "sendBroadcast", "setSourceRoute", "setExtendedTimeout")
PRIORITY_EXEMPT = {"getValue": "read by the watchdog for the free-buffer counter; classed with the keep-alives"}


@rule("R06.6", ["C06"], "T-TAB", floor=2000)
def r06_6(ctx):
    """Priority classes: every keep-alive / counter-read command has a priority above every ordinary command,
    every ordinary command of every version has the default priority 0, every packet-send command is below 0; the
    value is what command() passes as `priority=` when it takes the slot."""
    repo = ctx.repo
    f = repo.func(f"{PROTO}:ProtocolHandler._get_command_priority")
    ctx.fn(f)
    px = PX(repo, inline=inline_proto())
    names = set()
    for v in VERSIONS:
        names |= set(commands(ctx, v))
    for g in KEEPALIVE + PACKET:
        ctx.anchor(g in names, f"command {g} exists in some version")
    # evaluated per version, on that version's handler class with that version's table (a priority looked up through anything
    # version-specific - a frame ID, say - must come out right in every version)
    pri = {}
    for v in VERSIONS:
        c = vcls(ctx, v)
        for nm in sorted(commands(ctx, v)):
            ps = px.explore(f, lambda: (self_obj(c, {}), {"name": nm}))
            if len(ps) != 1 or ps[0].terminal != "return" or not isinstance(ps[0].value, int):
                raise AnalysisError(f"_get_command_priority({nm!r}) not evaluable in version {v}")
            val = ps[0].value
            pri.setdefault(nm, val)
            ctx.case(1)
            if nm in KEEPALIVE:
                ctx.require(val > 0, f"priority:{nm}", f"v{v}: keep-alive command {nm} has priority {val} (must be above the default 0)", func=f)
            elif nm in PACKET:
                ctx.require(val < 0, f"priority:{nm}", f"v{v}: packet-send command {nm} has priority {val} (must be below the default 0)", func=f)
            elif nm in PRIORITY_EXEMPT:
                ctx.require(val >= 0, f"priority:{nm}", f"v{v}: {nm} has priority {val}", func=f)
            else:
                ctx.require(val == 0, f"priority:{nm}", f"v{v}: ordinary command {nm} has priority {val} (must be the default 0)", func=f)
    # the value is what is passed to the semaphore
    for nm in ("nop", "sendUnicast", "version"):
        g, px2, paths = explore_command(ctx, 8, 3, nm)
        for p in paths:
            ent = [e for e in p.events if e.kind == "enter" and e.what == "self._send_semaphore"]
            ctx.require(len(ent) == 1 and ent[0].kwargs.get("priority") == pri[nm], f"priority-passed:{nm}",
                        f"command({nm}) takes the slot with {ent[0].kwargs if ent else None!r}, table says {pri[nm]}", func=g)
    ctx.sample({k: pri[k] for k in KEEPALIVE + PACKET + ("version", "getValue")})


def init_handler(ctx, v):
    """Run ProtocolHandler.__init__ abstractly for version v; returns the instance fields."""
    repo = ctx.repo
    c = vcls(ctx, v)
    f = c.method("__init__")
    px = PX(repo, inline=inline_proto(), max_depth=4)
    holder = {}

    def setup():
        holder["o"] = self_obj(c, {})
        return holder["o"], {"cb_handler": Sym("cb_handler"), "gateway": Sym("gateway")}

    paths = px.explore(f, setup)
    if len(paths) != 1 or paths[0].terminal != "return":
        raise AnalysisError(f"EZSPv{v}.__init__ is not a single straight path")
    ctx.fn(f)
    return paths[0].store["self"]


@rule("R06.7", ["C06", "C08", "C19", "C07"], "T-FUN", floor=60)
def r06_7(ctx):
    """Reply / callback demultiplexing in ProtocolHandler.__call__ over {pending, not pending} x {expected frame,
    another known frame with the same or a different response schema, invalidCommand, unknown ID} x {decodes,
    decode raises} x {future open, already done}: a pending future is completed only by the entry popped under the
    frame's own sequence number, only after the frame-ID equality test, and with that frame's decoded values; an
    unknown ID returns before any decode, completion or callback; a decode failure is re-raised before any
    completion or callback; a frame that matches no pending sequence yields exactly one callback; one that matched
    yields none; a completed/cancelled future is tolerated."""
    anchor_attrs(ctx, "ProtocolHandler", "_awaiting", "COMMANDS_BY_ID", "_handle_callback")
    repo = ctx.repo
    f = repo.func(f"{PROTO}:ProtocolHandler.__call__")
    ctx.fn(f)
    visited_call = set()
    for v in (VERSIONS[0], 8, VERSIONS[-1]):
        fields = init_handler(ctx, v)
        by_id = fields.get("COMMANDS_BY_ID")
        cmds = handler_commands(ctx, v)
        if not isinstance(by_id, dict):
            raise AnalysisError("COMMANDS_BY_ID not built by __init__ in a recognised way")
        # choose frames
        expected = "networkInit" if "networkInit" in cmds else "nop"
        same = next((n for n, (i, tx, rx) in cmds.items() if n != expected and isinstance(rx, dict) and rx == cmds[expected][2]
                     and n != "invalidCommand"), None)
        diff = next((n for n, (i, tx, rx) in cmds.items() if isinstance(rx, dict) and rx != cmds[expected][2] and rx
                     and n != "invalidCommand"), None)
        struct_rx = next((n for n, (i, tx, rx) in cmds.items() if isinstance(rx, ClassRef)), None)
        ctx.anchor(same and diff and "invalidCommand" in cmds, "frames for the demultiplexing scenarios")
        unknown_id = max(i for i, _, _ in cmds.values()) + 1
        frames = [("expected", cmds[expected][0]), ("same-schema", cmds[same][0]), ("other-schema", cmds[diff][0]),
                  ("invalidCommand", cmds["invalidCommand"][0]), ("unknown", unknown_id)]
        if struct_rx:
            frames.append(("struct-schema", cmds[struct_rx][0]))
        configs = [(expected, frames)]
        # two commands whose response schema is one shared object (tables built with a cache of migrated schemas): a test by
        # schema identity instead of frame ID would let one complete the other
        shared = next(((a, b) for a, (ia, _, ra) in cmds.items() for b, (ib, _, rb) in cmds.items()
                       if a != b and ra is rb and isinstance(ra, dict) and ra and "invalidCommand" not in (a, b)), None)
        if shared:
            configs.append((shared[0], [("same-schema", cmds[shared[1]][0])]))
        for expected, frames in configs:
            for kind, fid in frames:
                for pending in (True, False):
                    for decode_ok in (True, False):
                        for done in (False, True, "trailing"):
                            if done and not pending:
                                continue
                            # "trailing": the expected reply decodes and leaves bytes over (firmware newer than the tables appends fields):
                            # it is still the reply that carries the call's sequence number and completes it
                            trailing = done == "trailing"
                            if trailing and not (decode_ok and kind == "expected"):
                                continue
                            done = False if trailing else done
                            models = [("self._ezsp_frame_rx", lambda px, t, a, k, fr: (5, fid, Sym("payload"))),
                                      ("t.deserialize_dict", Outcomes(OK(({"f0": Sym("v0"), "f1": Sym("v1")}, Sym("rest")))) if decode_ok
                                       else Outcomes(RAISE("ValueError"))),
                                      ("*.deserialize", Outcomes(OK((Sym("structval"), Sym("rest")))) if decode_ok
                                       else Outcomes(RAISE("ValueError"))),
                                      ("*.set_result", Outcomes(RAISE("InvalidStateError")) if done else Outcomes(OK(None))),
                                      ("*.set_exception", Outcomes(RAISE("InvalidStateError")) if done else Outcomes(OK(None))),
                                      # a done future here is one whose caller timed out or was cancelled: asking it for its outcome raises
                                      ("*.exception", Outcomes(RAISE("CancelledError"))), ("*.result", Outcomes(RAISE("CancelledError"))),
                                      ("*.cancelled", lambda px, t, a, k, fr: done), ("*.done", lambda px, t, a, k, fr: done),
                                      ("binascii.hexlify", lambda px, t, a, k, fr: "hex")]
                            px = PX(repo, models=models, inline=same_class(),
                                    facts={"rest": trailing, "(5 in keys({5}))": True})
                            exp_entry = (cmds[expected][0], cmds[expected][2], fut("pending_future"))

                            def setup():
                                return (self_obj(vcls(ctx, v), {"COMMANDS_BY_ID": by_id, "_awaiting": ({5: exp_entry, 6: (0, {}, fut("other"))} if pending else {6: (0, {}, fut("other"))}),
                                                               "_handle_callback": Sym("cb")}),
                                        {"data": Sym("data")})

                            paths = px.explore(f, setup)
                            ctx.paths += len(paths)
                            for p in paths:
                                scen = f"v{v}:{kind},pending={pending},decode={'ok' if decode_ok else 'raises'},done={done}{',trailing-bytes' if trailing else ''}"
                                calls = [e for e in p.events if e.kind == "call"]
                                dec = [e for e in calls if e.what == "t.deserialize_dict" or e.what.endswith(".deserialize")]
                                visited_call.update(px.visited)
                                sr = [e for e in calls if e.what.endswith(".set_result")]
                                sx = [e for e in calls if e.what.endswith(".set_exception")]
                                cb = [e for e in calls if e.what == "self._handle_callback"]
                                aw = p.store["self"].get("_awaiting")
                                foreign = [e for e in sr + sx if e.callee and not e.callee.startswith("pending_future.")]
                                bad = None
                                if foreign:
                                    bad = f"a future other than the one pending under the frame's sequence number is completed: {foreign[0].callee}"
                                elif kind == "unknown":
                                    if dec or sr or sx or cb or p.terminal != "return" or (pending and 5 not in aw):
                                        bad = f"unknown frame ID is not dropped cleanly: {[e.what for e in dec + sr + sx + cb]}, {p.terminal}"
                                elif not decode_ok:
                                    if not p.raised() or sr or sx or cb:
                                        bad = f"undecodable payload: {p.terminal} {p.value!r}, completions/callbacks {[e.what for e in sr + sx + cb]}"
                                else:
                                    if len(dec) != 1 or dec[0].args[0] != Sym("payload") or (dec[0].what == "t.deserialize_dict" and dec[0].args[1] is not by_id[fid][2]):
                                        bad = "payload is not decoded with the schema of the frame's own ID"
                                    elif not pending:
                                        want = [Sym("v0"), Sym("v1")] if isinstance(by_id[fid][2], dict) else Sym("structval")
                                        if sr or sx or len(cb) != 1 or p.terminal != "return":
                                            bad = f"frame answering no pending call: {len(cb)} callbacks, completions {[e.what for e in sr + sx]}, {p.terminal}"
                                        elif cb[0].args != (by_id[fid][0], want):
                                            bad = f"callback delivered as {cb[0].args!r}, must be ({by_id[fid][0]!r}, decoded values)"
                                    else:
                                        if cb:
                                            bad = "a frame that matched a pending call is also delivered as a callback"
                                        elif 5 in aw:
                                            bad = "matched pending entry is not removed (a later frame with the same number would complete it again)"
                                        elif kind == "expected":
                                            if len(sr) != 1 or sx or sr[0].args != ([Sym("v0"), Sym("v1")],) or p.terminal != "return":
                                                bad = f"expected reply: set_result {[e.args for e in sr]!r}, {p.terminal} {p.value!r}"
                                        elif kind == "invalidCommand":
                                            if sr or len(sx) != 1 or not (isinstance(sx[0].args[0], Obj) and sx[0].args[0].cls_name == "InvalidCommandError") or p.terminal != "return":
                                                bad = f"invalidCommand reply: {[e.brief() for e in sr + sx]}, {p.terminal}"
                                        else:
                                            if sr:
                                                bad = (f"a pending call expecting frame 0x{cmds[expected][0]:04X} is completed with the payload of frame "
                                                       f"0x{fid:04X} ({by_id[fid][0]})")
                                if bad:
                                    ctx.violation(f"__call__:{kind},pending={pending},decode={'ok' if decode_ok else 'raises'}" + (",trailing-bytes" if trailing else ""),
                                                  f"{scen}: {bad}", func=f, trace=p.trace(30), construct=scen, props=("C06",) if trailing else None)
                                else:
                                    ctx.ok(1, scen)
    from .ash_link import confined_writers

    g_, pxc, _paths = explore_command(ctx, 8, 1, "nop")
    confined_writers(ctx, "_awaiting", visited_call | pxc.visited, {"ProtocolHandler.__init__"}, "R06.1 (command) / R06.7 (__call__)")


@rule("R06.8", ["C06", "C08", "C10"], "T-FUN", floor=4)
def r06_8(ctx):
    """Callback fan-out: EZSP.handle_callback invokes every registered callback exactly once with the frame, and
    an exception raised by one callback neither escapes nor stops the others."""
    anchor_attrs(ctx, "EZSP", "_callbacks")
    repo = ctx.repo
    f = repo.func("bellows.ezsp:EZSP.handle_callback")
    ctx.fn(f)
    cls = repo.cls("bellows.ezsp", "EZSP")
    outs = Outcomes(OK(None), RAISE("ValueError"), RAISE("KeyError"))
    px = PX(repo, models=[("cb1", outs), ("cb2", outs), ("cb3", outs)], inline=same_class(stop=()))  # keyed on the callbacks themselves, whatever the loop variable is called

    def setup():
        return self_obj(cls, {"_callbacks": {1: Sym("cb1"), 2: Sym("cb2"), 3: Sym("cb3")}}), {"args": (Sym("name"), Sym("values"))}

    paths = px.explore(f, setup)
    ctx.paths += len(paths)
    ctx.anchor(len(paths) >= 9, "handle_callback outcome paths")
    for p in paths:
        cs = [e for e in p.events if e.kind == "call" and (e.what in ("cb1", "cb2", "cb3") or e.callee in ("cb1", "cb2", "cb3"))]
        ok = (p.terminal == "return" and [(e.callee or e.what) for e in cs] == ["cb1", "cb2", "cb3"]
              and all(e.args == (Sym("name"), Sym("values")) for e in cs))
        pid = "/".join(str(e.extra)[:18] for e in cs)
        ctx.require(ok, f"fanout:{pid}", f"callbacks invoked {[(e.callee or e.what) for e in cs]} with outcomes [{pid}] -> {p.terminal} {p.value!r}; every "
                    "registered callback must run exactly once and no exception may escape", func=f, trace=p.trace())


# =============================================================================== C07
@rule("R07.1", ["C07", "C17", "C13", "C12"], "T-TAB", floor=2700)
def r07_1(ctx):
    """In every protocol version the map command name -> frame ID is injective, every ID fits that version's
    header (<= 0xFF for 4..7, <= 0xFFFF for 8..14), and the handler class uses its own version's table."""
    total = 0
    # a damaged table entry convicts the codec property (C07) and those properties whose own commands / callbacks are involved
    uses = {"C12": {"sendUnicast", "sendMulticast", "sendBroadcast", "messageSentHandler", "setSourceRoute", "setExtendedTimeout", "getExtendedTimeout",
                    "lookupNodeIdByEui64", "lookupEui64ByNodeId", "setAddressTableRemoteEui64", "setAddressTableRemoteNodeId", "getAddressTableRemoteEui64",
                    "getAddressTableRemoteNodeId", "replaceAddressTableEntry", "setAddressTableInfo", "getAddressTableInfo", "getConfigurationValue"},
            "C13": {"incomingMessageHandler", "trustCenterJoinHandler"},
            "C17": {"formNetwork", "leaveNetwork", "networkInit", "networkState", "stackStatusHandler", "startScan", "energyScanResultHandler",
                    "networkFoundHandler", "scanCompleteHandler", "stopScan"}}

    def scope(*names):
        return ("C07",) + tuple(p_ for p_, cs in uses.items() if cs & set(names))

    for v in VERSIONS:
        cmds = commands(ctx, v)
        hc = handler_commands(ctx, v)
        ctx.require(hc is cmds or hc == cmds, f"v{v}:handler-table", f"EZSPv{v}.COMMANDS is not bellows.ezsp.v{v}.commands.COMMANDS")
        ver = vcls(ctx, v).lookup("VERSION")
        ctx.require(ver == v, f"v{v}:VERSION", f"EZSPv{v}.VERSION = {ver!r}")
        seen = {}
        limit = 0xFF if v < 8 else 0xFFFF
        for name, entry in cmds.items():
            total += 1
            if not (isinstance(entry, tuple) and len(entry) == 3 and isinstance(entry[0], int)):
                ctx.violation(f"v{v}:{name}:entry", f"v{v} {name}: entry {entry!r:.80} is not (id, tx_schema, rx_schema)", props=scope(name))
                continue
            cid = entry[0]
            if cid in seen:
                ctx.violation(f"v{v}:duplicate-id:{name}", f"v{v}: frame ID 0x{cid:04X} belongs to both {seen[cid]} and {name}",
                              file=f"bellows/ezsp/v{v}/commands.py", construct=f"0x{cid:04X}", props=scope(name, seen[cid]))
            elif not (0 <= cid <= limit):
                ctx.violation(f"v{v}:id-range:{name}", f"v{v} {name}: frame ID 0x{cid:X} does not fit the version's header", props=scope(name))
            else:
                ctx.ok(1)
            seen.setdefault(cid, name)
        ctx.distinct.add(f"v{v}")
    ctx.sample({"entries": total, "versions": VERSIONS})


@rule("R07.2", ["C07", "C08", "C06"], "T-TAB", floor=11)
def r07_2(ctx):
    """The receive-side table built by the handler's initialiser (COMMANDS_BY_ID) is exactly the inverse of the
    active version's COMMANDS in all 11 versions: a frame ID unknown in the active version is unknown to the
    receive path, and a known one is decoded with that version's schema."""
    for v in VERSIONS:
        cmds = commands(ctx, v)
        by_id = init_handler(ctx, v).get("COMMANDS_BY_ID")
        want = {cid: (name, tx, rx) for name, (cid, tx, rx) in cmds.items()}
        ok = isinstance(by_id, dict) and by_id.keys() == want.keys() and all(
            by_id[k][0] == want[k][0] and by_id[k][1] is want[k][1] and by_id[k][2] is want[k][2] for k in want)
        extra = sorted(set(by_id or {}) - set(want))[:5] if isinstance(by_id, dict) else None
        ctx.require(ok, f"v{v}:COMMANDS_BY_ID", f"v{v}: the receive-side table COMMANDS_BY_ID is not the inverse of the version's COMMANDS "
                    f"(extra IDs {[hex(x) for x in extra] if extra else extra})", func=vcls(ctx, v).method("__init__"))


def spec_header(v, seq, cid):
    if v == 4:
        return bytes([seq, 0x00, cid])
    if v < 8:
        return bytes([seq, 0x00, 0xFF, 0x00, cid])
    return bytes([seq, 0x00, 0x01, cid & 0xFF, cid >> 8])


@rule("R07.3", ["C07", "C09", "C08", "C06"], "T-FUN", floor=100)
def r07_3(ctx):
    """Header writer and reader of every version against the specified layouts (v4: seq,00,id; v5-7:
    seq,00,FF,00,id; v8-14: seq,00,01,id_lo,id_hi): the writer emits exactly the header for the smallest, largest
    and boundary IDs of the version's table and for sequence numbers 0/0xAB/0xFF; the reader recovers sequence, ID
    and payload from it, and raises on every frame shorter than the header."""
    repo = ctx.repo
    px = PX(repo, inline=lambda f, aw: not f.is_async, max_depth=6)
    for v in VERSIONS:
        c = vcls(ctx, v)
        cmds = handler_commands(ctx, v)
        ids = sorted((cid, n) for n, (cid, _, _) in cmds.items())
        pick = {ids[0], ids[-1]} | {x for x in ids if x[0] in (0xFF, 0x100, 0x7D, 0x7E)} | {x for x in ids if x[1] == "version"}
        tx = c.method("_ezsp_frame_tx")
        rxm = c.method("_ezsp_frame_rx")
        ctx.fn(tx)
        ctx.fn(rxm)
        for cid, name in sorted(pick):
            for seq in (0, 0xAB, 0xFF):
                ps = px.explore(tx, lambda: (self_obj(c, {"_seq": seq}), {"name": name}))
                if len(ps) != 1:
                    raise AnalysisError(f"v{v} header writer: {len(ps)} paths")
                got = ps[0].value if ps[0].terminal == "return" else None
                want = spec_header(v, seq, cid)
                ctx.require(isinstance(got, (bytes, bytearray)) and bytes(got) == want, f"v{v}:tx:{name}:{seq}",
                            f"v{v} header for {name} (0x{cid:04X}) seq {seq}: {bytes(got).hex() if isinstance(got, (bytes, bytearray)) else ps[0].value!r}, "
                            f"specification {want.hex()}", func=tx)
                for payload in (b"", b"\x01\x02\x03"):
                    # responses carry frame-control bits that the reader must ignore: use the response control byte 0x80
                    hdr = bytearray(want)
                    hdr[1] = 0x80
                    ps = px.explore(rxm, lambda: (self_obj(c, {}), {"data": bytes(hdr) + payload}))
                    if len(ps) != 1:
                        raise AnalysisError(f"v{v} header reader: {len(ps)} paths")
                    r = ps[0].value
                    ok = (ps[0].terminal == "return" and isinstance(r, tuple) and len(r) == 3 and r[0] == seq and r[1] == cid
                          and isinstance(r[2], (bytes, bytearray)) and bytes(r[2]) == payload)
                    ctx.require(ok, f"v{v}:rx:{name}:{seq}:{len(payload)}", f"v{v} header reader on {bytes(hdr).hex()}+{payload.hex()} -> {r!r:.80}; "
                                f"must be ({seq}, 0x{cid:X}, payload)", func=rxm)
        # the frame-control byte of a response carries status bits (overflow, truncated, callback pending, callback type,
        # network index): whatever they are, the reader recovers the same sequence number, frame ID and payload
        cid0, name0 = ids[len(ids) // 2]
        base = bytearray(spec_header(v, 0x5C, cid0))
        for fc in range(256):
            base[1] = fc
            ps = px.explore(rxm, lambda: (self_obj(c, {}), {"data": bytes(base) + b"\x09"}))
            if len(ps) != 1:
                raise AnalysisError(f"v{v} header reader: {len(ps)} paths")
            r = ps[0].value
            ok = (ps[0].terminal == "return" and isinstance(r, tuple) and len(r) == 3 and r[0] == 0x5C and r[1] == cid0
                  and isinstance(r[2], (bytes, bytearray)) and bytes(r[2]) == b"\x09")
            ctx.require(ok, f"v{v}:rx-frame-control:{'response' if fc & 0x80 else 'other'}", f"v{v} header reader with frame control 0x{fc:02X}: {r!r:.80}; must be "
                        f"(0x5C, 0x{cid0:X}, payload) for every value of the control byte (a response with status bits set still answers its command)", func=rxm)
        hl = len(spec_header(v, 0, 0))
        for cid in (0x05, 0x06, 0x9D, 0xF1, 0x00):
            full = bytearray(spec_header(v, 9, cid))
            full[1] = 0x80
            for n in range(hl):
                ps = px.explore(rxm, lambda: (self_obj(c, {}), {"data": bytes(full[:n])}))
                ctx.require(len(ps) == 1 and ps[0].terminal == "raise", f"v{v}:rx-truncated:{n}",
                            f"v{v} header reader accepts a {n}-byte frame ({bytes(full[:n]).hex()}) as {ps[0].value!r:.60}: truncated headers must raise "
                            "(inside the contained region)", func=rxm)
    ctx.sample({"v4": spec_header(4, 0xAB, 0).hex(), "v5": spec_header(5, 0xAB, 0).hex(), "v9 getTokenCount": spec_header(9, 0xAB, 0x100).hex()})


@rule("R07.7", ["C07", "C08"], "T-FUN", floor=4)
def r07_7(ctx):
    """Overriding decoders of wire structs are transparent for well-formed input: every struct class of bellows.types that
    overrides ``deserialize`` decodes a full-length encoding - whatever its leading bitmask / field values and whether or
    not further bytes follow - from exactly the bytes it is given (the work-around for the 24-byte short form of
    EmberKeyStruct may rewrite only that short form); otherwise the encoding of a value fed back through the receive path
    would not yield that value."""
    repo = ctx.repo
    found = 0
    for rel in repo.files():
        mod = repo.modname(rel)
        if not mod.startswith("bellows.types"):
            continue
        for st in repo.tree(mod).body:
            if not isinstance(st, ast.ClassDef):
                continue
            c = repo.cls(mod, st.name)
            if not c.is_struct or not isinstance(c.attrs.get("deserialize"), FuncRef):
                continue
            m = c.attrs["deserialize"]
            found += 1
            ctx.fn(m)
            sizes = []
            for fn_, fty, _d in c.struct_fields():
                w = _wire_width(fty)
                if w is None:
                    raise FormNotRecognised(f"{c.name}.{fn_}: field of variable width in a struct with an overriding decoder")
                sizes.append(w)
            full = sum(sizes)
            px = PX(repo, inline=lambda g, aw: not g.is_async, max_depth=6,
                    models=[("super().deserialize", lambda px_, t, a, k, fr: (Sym("decoded"), b""))])
            for lead in (0x0000, 0x0080, 0x0100, 0x0180, 0x00F4, 0x8000, 0xFFFF):
                for extra in (0, 3):
                    body = lead.to_bytes(2, "little") + bytes((17 * i + 3) & 0xFF for i in range(full - 2 + extra))
                    paths = px.explore(m, lambda: (c, {"data": body}))
                    ctx.case(1)
                    for p in paths:
                        sup = [e for e in p.events if e.kind == "call" and e.what == "super().deserialize"]
                        ok = p.terminal == "return" and len(sup) == 1 and isinstance(sup[0].args[0], (bytes, bytearray)) and bytes(sup[0].args[0]) == body
                        if ok:
                            # ... and what the struct decoder returns is handed back as it is: a hook that edits a field of the decoded value
                            # (masks bits, normalises an address) makes the value read differ from the value sent
                            edits = [e for e in p.events if e.kind == "write" and "." in str(e.what) and not str(e.what).startswith(("self.", "cls."))]
                            res0 = p.value[0] if isinstance(p.value, tuple) and p.value else p.value
                            if edits or not (isinstance(res0, Sym) and res0.tag.startswith(("decoded", "super().deserialize#"))):
                                ctx.violation(f"decoded-value-edited:{c.name}", f"{c.name}.deserialize changes the decoded value after the struct decoder produced it "
                                              f"({[e.brief() for e in edits][:2] or res0!r}): decode(encode(v)) is no longer v", func=m, trace=p.trace(12), props=("C07",))
                                continue
                        ctx.require(ok, f"transparent:{c.name}:{lead:#06x}:{'+trailing' if extra else 'exact'}",
                                    f"{c.name}.deserialize on a full-length encoding ({len(body)} bytes, leading field {lead:#06x}) hands "
                                    f"{bytes(sup[0].args[0]).hex() if sup and isinstance(sup[0].args[0], (bytes, bytearray)) else [e.args for e in sup]!r:.90} to the struct decoder instead of the "
                                    "bytes received: a valid value does not survive the receive path", func=m, trace=p.trace(12), props=("C07",))
            # truncated encodings: the override hands on what it was given (the struct decoder then rejects it); the one documented
            # exception is the 24-byte short form of EmberKeyStruct (PSA key reference), which is completed to the full length
            allowed_short = {("EmberKeyStruct", 24)}
            for cutlen in range(0, full):
                body = (0x0000).to_bytes(2, "little")[:cutlen] + bytes((17 * i + 3) & 0xFF for i in range(max(cutlen - 2, 0)))
                if (c.name, cutlen) in allowed_short:
                    continue
                for p in px.explore(m, lambda: (c, {"data": body})):
                    sup = [e for e in p.events if e.kind == "call" and e.what == "super().deserialize"]
                    if p.terminal == "raise" or not sup:
                        ctx.ok(1, f"short:{c.name}:{cutlen}")
                        continue
                    passed = sup[0].args[0] if sup[0].args else None
                    ok = isinstance(passed, (bytes, bytearray)) and bytes(passed) == body
                    ctx.require(ok, f"truncated-completed:{c.name}", f"{c.name}.deserialize on an encoding cut to {cutlen} of {full} bytes hands "
                                f"{len(passed) if isinstance(passed, (bytes, bytearray)) else passed!r} bytes to the struct decoder: a truncated structure is completed "
                                "instead of rejected, so a truncated frame decodes and reaches a pending command or the callbacks", func=m, trace=p.trace(10),
                                props=("C07", "C08"))
    ctx.anchor(found >= 1, "a struct class with an overriding deserialize (EmberKeyStruct)")


def _wire_width(t):
    """Byte width of a fixed-width wire type (zigpy ints, enums/bitmaps, EUI64, 16-byte keys), else None."""
    import re

    from ..px import int_type_of

    names = []
    if isinstance(t, ClassRef):
        names = t.base_names()
    elif isinstance(t, TypeRef):
        names = [t.short]
    for n in names:
        m = re.fullmatch(r"(?:u?int|enum|bitmap)(\d+)(?:_t|s)?", n)
        if m:
            return int(m.group(1)) // 8
        if n in ("EUI64", "ExtendedPanId"):
            return 8
        if n in ("Channels",):
            return 4  # zigpy's channel mask: a 32-bit bitmap
        if n in ("NWK", "PanId", "EmberNodeId", "EmberPanId", "EmberMulticastId", "Group"):
            return 2
        if n in ("KeyData",):
            return 16
    return None


@rule("R07.8", ["C07", "C08"], "T-FUN", floor=20)
def r07_8(ctx):
    """The primitive wire codecs are zigpy's (trusted base): no class of bellows.types re-implements ``serialize`` /
    ``deserialize`` of a primitive type.  Where one does (a subclass of a length-prefixed byte string with its own
    decoder), it is no longer covered by the trusted base and is compared with a reference codec on complete, trailing
    and truncated inputs: same value and remainder, and an exception for *every* truncated input (the containment of
    malformed frames relies on field decoders raising on short data).  Struct decoders are R07.7's."""
    repo = ctx.repo
    px = PX(repo, inline=lambda g, aw: not g.is_async, max_depth=6)
    for mod in ("bellows.types.basic", "bellows.types.named", "bellows.types.struct"):
        for st in repo.tree(mod).body:
            if not isinstance(st, ast.ClassDef):
                continue
            c = repo.cls(mod, st.name)
            own = [n for n in ("serialize", "deserialize") if isinstance(c.attrs.get(n), FuncRef)]
            if not own or c.is_struct:
                ctx.ok(1, (mod, st.name))
                continue
            if "LVBytes" not in c.base_names()[1:] and "_LVBytes" not in [text(b) for b in st.bases]:
                raise AnalysisError(f"{mod}.{st.name} re-implements {own} of a primitive wire type this analysis has no reference codec for")
            if "deserialize" not in own:
                raise AnalysisError(f"{mod}.{st.name} re-implements {own}; only decoders of length-prefixed byte strings have a reference here")
            m = c.attrs["deserialize"]
            ctx.fn(m)
            for sub in [c] + [repo.cls(mod, s2.name) for s2 in repo.tree(mod).body if isinstance(s2, ast.ClassDef) and s2.name != st.name
                              and st.name in [text(b) for b in s2.bases]]:
                try:
                    pl = sub.lookup("_prefix_length")
                except KeyError:
                    pl = 1
                if not isinstance(pl, int):
                    raise AnalysisError(f"{sub.name}._prefix_length does not resolve")
                for n in (0, 1, 5, 40):
                    payload = bytes((7 * i + 1) & 0xFF for i in range(n))
                    full = n.to_bytes(pl, "little") + payload
                    cases = [(full, payload, b""), (full + b"xy", payload, b"xy")] + [(full[:k], None, None) for k in sorted({0, pl - 1, pl, len(full) - 1}) if 0 <= k < len(full)]
                    if n == 5:
                        # length prefixes at the edges of the prefix width (top bit set, all ones, one more than present): far more than
                        # the bytes that follow - a signed reading of the prefix turns them into small or negative lengths
                        for big in (1 << (8 * pl - 1), (1 << (8 * pl)) - 1, (1 << (8 * pl - 1)) + 2, n + 1):
                            cases.append((big.to_bytes(pl, "little") + payload, None, None))
                    for data, want_v, want_rest in cases:
                        paths = px.explore(m, lambda: (sub, {"data": data}))
                        ctx.case(1)
                        if len(paths) != 1:
                            raise AnalysisError(f"{sub.name}.deserialize: {len(paths)} paths on concrete input")
                        p = paths[0]
                        if want_v is None:
                            ctx.require(p.terminal == "raise", f"codec:{sub.name}:truncated", f"{sub.name}.deserialize accepts the truncated input {data.hex()} "
                                        f"(length prefix {n}, {max(len(data) - pl, 0)} bytes present) as {p.value!r:.60}: a frame cut inside this field then decodes and "
                                        "reaches the callbacks", func=m, trace=p.trace(8))
                        else:
                            v = p.value if p.terminal == "return" else None
                            got = None
                            if isinstance(v, tuple) and len(v) == 2:
                                first = v[0]
                                raw = first.fields.get("args", (None,))[0] if isinstance(first, Obj) and first.fields.get("args") else first
                                got = (bytes(raw) if isinstance(raw, (bytes, bytearray)) else raw, bytes(v[1]) if isinstance(v[1], (bytes, bytearray)) else v[1])
                            ctx.require(got == (want_v, want_rest), f"codec:{sub.name}:complete", f"{sub.name}.deserialize({data.hex()}) = {p.value!r:.80}, reference "
                                        f"({want_v.hex()}, {want_rest.hex()})", func=m, trace=p.trace(8))


@rule("R07.9", ["C07", "C13"], "T-FUN", floor=1)
def r07_9(ctx):
    """Enum-typed fields keep the value that was on the wire: zigpy's fixed-width enums (trusted base) decode an undefined
    value into a member carrying that very value; an enum class of bellows.types that hooks the lookup (``_missing_``) is
    evaluated for undefined values of its width - the member it returns must carry the value it was given (a hook that folds
    unknown values into one catch-all member makes decode(encode(v)) != v for every undefined v)."""
    repo = ctx.repo
    n_cls = 0
    for mod in ("bellows.types.named", "bellows.types.struct", "bellows.types.basic"):
        for st in repo.tree(mod).body:
            if not isinstance(st, ast.ClassDef):
                continue
            c = repo.cls(mod, st.name)
            if not c.is_enum:
                continue
            n_cls += 1
            try:
                miss = c.method("_missing_")
            except KeyError:
                ctx.ok(1, st.name)
                continue
            if miss.cls is None or not miss.mod.startswith("bellows"):
                ctx.ok(1, st.name)
                continue
            ctx.fn(miss)
            defined = {m.value for m in c.members().values() if isinstance(m.value, int)}
            if "bitmap" in " ".join(c.base_names()).lower():
                continue  # flags: combinations are ordinary values, not "undefined" ones
            cand = [v for v in list(range(0, 256)) + [0x1234, 0xFFFE] if v not in defined]
            cand = [v for v in (cand[:2] + cand[len(cand) // 2:len(cand) // 2 + 1] + [v for v in cand if v >= 0x80][:1] + cand[-1:])
                    if v <= (0xFF if any(b.endswith("8") for b in c.base_names()) else 0xFFFF)]
            px = PX(repo, inline=lambda g, aw: not g.is_async, max_depth=5)
            for v in sorted(set(cand)):
                def entry():
                    return px.construct(c, st.name, [v], {}, None, None)

                for p in px._run(entry):
                    ctx.paths += 1
                    got = p.value.value if p.terminal == "return" and isinstance(p.value, Member) else None
                    ctx.require(got == v, f"enum-value:{st.name}", f"{st.name}(0x{v:02X}) - an undefined value as it can arrive in a frame - evaluates to "
                                f"{p.value!r} ({p.terminal}); the decoded member must carry 0x{v:02X} so that the value read is the value sent", func=miss,
                                trace=p.trace(8), props=("C07", "C13") if st.name in ("EmberIncomingMessageType", "EmberDeviceUpdate", "EmberJoinDecision") else ("C07",))
    ctx.anchor(n_cls >= 50, f"enum classes of bellows.types examined: {n_cls}")


@rule("R07.5", ["C07", "C09", "C16", "C08"], "T-FUN", floor=16)
def r07_5(ctx):
    """Declared order and form equivalence: serialize_dict emits fields in schema order whatever mix or order of
    positional and keyword arguments is used; deserialize_dict consumes in schema order, each field from the
    remainder left by the previous one, and returns the final remainder; _ezsp_frame uses them with the command's
    own tx schema appended to the version's header."""
    import itertools

    repo = ctx.repo
    px = PX(repo, inline=lambda f, aw: not f.is_async, max_depth=5)
    ser = repo.func("bellows.types:serialize_dict")
    des = repo.func("bellows.types:deserialize_dict")
    ctx.fn(ser)
    ctx.fn(des)
    u8, u16 = TypeRef("zigpy.types.uint8_t"), TypeRef("zigpy.types.uint16_t")
    schema = {"a": u8, "b": u16, "c": u8}
    vals = {"a": 0x11, "b": 0x2233, "c": 0x44}
    want = bytes([0x11, 0x33, 0x22, 0x44])
    keys = list(schema)
    for npos in range(4):
        for perm in itertools.permutations(keys[npos:]):
            args = tuple(vals[k] for k in keys[:npos])
            kwargs = {k: vals[k] for k in perm}
            ps = px.explore(ser, lambda: (None, {"args": args, "kwargs": dict(kwargs), "schema": dict(schema)}))
            if len(ps) != 1:
                raise AnalysisError("serialize_dict: several paths on concrete input")
            got = ps[0].value
            if ps[0].terminal == "return" and not isinstance(got, (bytes, bytearray)):
                raise AnalysisError(f"serialize_dict result not evaluable: {got!r:.80}")
            ctx.require(ps[0].terminal == "return" and bytes(got) == want, f"serialize:{npos}:{'-'.join(perm)}",
                        f"serialize_dict(args={args}, kwargs order {perm}) = {bytes(got).hex() if ps[0].terminal == 'return' else ps[0].value!r}, "
                        f"declared order gives {want.hex()}", func=ser)
    # the schema decides the wire type: a value that is already a typed integer of another width (an 8-bit bitmap member
    # handed to a 16-bit field) is converted to the field's type, not serialised with its own width
    from ..px import ZInt

    typed = {"a": ZInt(0x11, 8, False), "b": ZInt(0x33, 8, False), "c": ZInt(0x44, 8, False)}
    ps = px.explore(ser, lambda: (None, {"args": (), "kwargs": dict(typed), "schema": dict(schema)}))
    if len(ps) != 1:
        raise AnalysisError("serialize_dict: several paths on typed concrete input")
    got = ps[0].value
    ctx.require(ps[0].terminal == "return" and isinstance(got, (bytes, bytearray)) and bytes(got) == bytes([0x11, 0x33, 0x00, 0x44]), "serialize:typed-value-of-other-width",
                f"serialize_dict with an 8-bit typed value for the 16-bit field b = {bytes(got).hex() if isinstance(got, (bytes, bytearray)) else got!r}, the schema's "
                "type gives 11330044 (e.g. the bitmap8 default CONFIG_APPLICATION_ZDO_FLAGS written through setConfigurationValue(value: uint16))", func=ser)
    # ... also when the value's class is a *subclass* of the field's type with another wire form (bellows' LVBytes32, a four-byte
    # length prefix, handed to a field declared LVBytes): "already an instance" is not "already in the field's wire form"
    from ..px import ZBytes

    lv = TypeRef("zigpy.types.LVBytes")
    ps = px.explore(ser, lambda: (None, {"args": (), "kwargs": {"a": 0x11, "d": ZBytes(b"\xaa\xbb", 4, ("LVBytes32", "LVBytes"))}, "schema": {"a": u8, "d": lv}}))
    if len(ps) != 1:
        raise AnalysisError("serialize_dict: several paths on typed concrete input")
    got = ps[0].value
    if ps[0].terminal == "return" and not isinstance(got, (bytes, bytearray)):
        raise AnalysisError(f"serialize_dict result not evaluable for a length-prefixed value: {got!r:.80}")
    ctx.require(ps[0].terminal == "return" and bytes(got) == bytes([0x11, 0x02, 0xAA, 0xBB]), "serialize:typed-value-of-subclass",
                f"serialize_dict with an LVBytes32 value for a field declared LVBytes = {bytes(got).hex() if isinstance(got, (bytes, bytearray)) else got!r}; the field's "
                "type gives 1102aabb (one-byte length prefix)", func=ser)
    for tail in (b"", b"\x99\x98"):
        ps = px.explore(des, lambda: (None, {"data": want + tail, "schema": dict(schema)}))
        r = ps[0].value
        ok = (len(ps) == 1 and ps[0].terminal == "return" and isinstance(r, tuple) and isinstance(r[0], dict) and list(r[0].items()) == list(vals.items())
              and bytes(r[1]) == tail)
        ctx.require(ok, f"deserialize:{len(tail)}", f"deserialize_dict({(want + tail).hex()}) = {r!r:.100}; must give {vals} and remainder {tail.hex()!r}", func=des)
    # every proper prefix of the encoding - the empty one included (a frame cut right after its header) - is rejected
    for cut in range(len(want)):
        ps = px.explore(des, lambda: (None, {"data": want[:cut], "schema": dict(schema)}))
        ctx.require(len(ps) == 1 and ps[0].terminal == "raise", f"deserialize:short:{cut}", f"deserialize_dict on data truncated to {cut} of {len(want)} bytes "
                    f"returns {ps[0].value!r:.60}: a truncated frame then decodes (with fields missing) and reaches a pending command or the callbacks", func=des)
    # _ezsp_frame = header ++ serialize_dict(args, kwargs, tx_schema of that command)
    f = repo.func(f"{PROTO}:ProtocolHandler._ezsp_frame")
    ctx.fn(f)
    for v in (4, 7, 14):
        c = vcls(ctx, v)
        cmds = handler_commands(ctx, v)
        name = "getConfigurationValue"
        p2 = PX(repo, inline=inline_proto(), models=[("t.serialize_dict", lambda px_, t, a, k, fr: Sym("payload"))], max_depth=5)
        ps = p2.explore(f, lambda: (self_obj(c, {"_seq": 1}), {"name": name, "args": (Sym("x"),), "kwargs": {"k": Sym("y")}}))
        for p in ps:
            sd = [e for e in p.events if e.kind == "call" and e.what == "t.serialize_dict"]
            hdr = header_of(p)
            ok = (p.terminal == "return" and len(sd) == 1 and sd[0].args[0] == (Sym("x"),) and sd[0].args[1] == {"k": Sym("y")}
                  and sd[0].args[2] is cmds[name][1] and hdr == spec_header(v, 1, cmds[name][0]) and isinstance(p.value, Sym)
                  and p.value.tag == f"({hdr!r} + payload)")
            ctx.require(ok, f"_ezsp_frame:v{v}", f"v{v} _ezsp_frame({name}) = {p.value!r:.80} via {[e.brief()[:80] for e in sd]}", func=f, trace=p.trace())


FIXED_T = {"EUI64", "NWK", "KeyData", "BroadcastAddress", "Channels", "ExtendedPanId", "PanId", "Bool"}


def wire_kind(ctx, ty, depth=0):
    """FIXED / PREFIXED / GREEDY / OPTIONAL-tail classification of a schema type (frozen table, DESIGN R07.6)."""
    import re

    if depth > 8:
        raise AnalysisError("type nesting too deep")
    if isinstance(ty, TypeRef):
        n = ty.short
        if re.fullmatch(r"u?int\d+(_t|s)|enum\d+|bitmap\d+|uint_t|Single|Double", n) or n in FIXED_T:
            return "FIXED"
        if n in ("LVBytes", "LVBytes32", "LongOctetString", "CharacterString") or (n == "LVList" and ty.args):
            return "PREFIXED"
        if n == "FixedList" and len(ty.args) == 2:
            return "FIXED" if wire_kind(ctx, ty.args[0], depth + 1) == "FIXED" else "BAD"
        if n in ("List", "Bytes", "SerializableBytes"):
            return "GREEDY"
        return "UNKNOWN:" + ty.name
    if isinstance(ty, ClassRef):
        if ty.is_struct:
            fields = ty.struct_fields()
            kind = "FIXED"
            for i, (fn, fty, default) in enumerate(fields):
                k = wire_kind(ctx, fty, depth + 1)
                opt = default is not None and getattr(default, "ctor_name", "") == "StructField" and (
                    default.kwargs.get("optional") or "requires" in default.kwargs)
                if k.startswith(("UNKNOWN", "BAD")):
                    return k
                last = i == len(fields) - 1
                if (k == "GREEDY" or opt) and not last:
                    return f"BAD:{ty.name}.{fn} is {'optional' if opt else 'greedy'} but not last"
                if k == "GREEDY":
                    kind = "GREEDY"
                elif opt:
                    kind = "OPTIONAL"
                elif k == "PREFIXED" and kind == "FIXED":
                    kind = "PREFIXED"
                elif k == "OPTIONAL":
                    kind = "OPTIONAL" if last else f"BAD:{ty.name}.{fn} has an optional tail but is not last"
                    if kind.startswith("BAD"):
                        return kind
            return kind
        for b in ty.mro()[1:]:
            if isinstance(b, (TypeRef, ClassRef)) and b != ty:
                k = wire_kind(ctx, b, depth + 1)
                if not k.startswith("UNKNOWN"):
                    return k
        return "UNKNOWN:" + ty.name
    return "UNKNOWN:" + repr(ty)


@rule("R07.6", ["C07"], "T-TAB", floor=2700)
def r07_6(ctx):
    """Prefix-decodability (necessary for 'no bytes left over'): every tx/rx schema of every version is a dict of
    known wire types or a struct class; a greedy (List, Bytes) or optional element occurs only in last position,
    recursively through structs."""
    n = 0
    for v in VERSIONS:
        for name, (cid, tx, rx) in commands(ctx, v).items():
            for side, sch in (("tx", tx), ("rx", rx)):
                n += 1
                key = f"v{v}:{name}:{side}"
                if isinstance(sch, dict):
                    items = list(sch.items())
                elif isinstance(sch, ClassRef) and sch.is_struct:
                    items = [("<struct>", sch)]
                else:
                    ctx.violation(f"schema-form:{name}:{side}", f"v{v} {name}: {side} schema is {sch!r}, neither a field dict nor a struct class - the "
                                  "command cannot be encoded / its response cannot be decoded", file=f"bellows/ezsp/v{v}/commands.py", construct=name)
                    continue
                bad = None
                for i, (fn, ty) in enumerate(items):
                    k = wire_kind(ctx, ty)
                    if k.startswith("UNKNOWN"):
                        raise AnalysisError(f"{key}.{fn}: wire kind of {ty!r} is not in the frozen table")
                    if k.startswith("BAD"):
                        bad = k[4:]
                    elif k in ("GREEDY", "OPTIONAL") and i != len(items) - 1 and side == "rx":
                        bad = f"field {fn} ({ty!r}) consumes the rest of the frame but is followed by {items[i + 1][0]}"
                if bad:
                    ctx.violation(f"prefix:{name}:{side}", f"v{v} {name} {side}: {bad}", file=f"bellows/ezsp/v{v}/commands.py", construct=name)
                else:
                    ctx.ok(1)
        ctx.distinct.add(f"v{v}")
    ctx.sample({"schemas": n})


# =============================================================================== C08
SAFE_CALLS = {"len", "bool", "bytes", "bytearray", "isinstance", "int", "str", "repr", "hex", "memoryview", "min", "max", "type", "id",
              "time.monotonic", "time.time", "time.perf_counter", "binascii.hexlify", "data.hex", "asyncio.get_running_loop"}


@rule("R08.1", ["C08", "C02", "C06", "C07"], "T-ESC", floor=20)
def r08_1(ctx):
    """Nothing escapes EZSP.frame_received: the entry point is evaluated for frames of length 0..8 and 64, with no
    protocol handler installed and with a handler that returns or raises each of the exception classes the decoding path
    can produce (KeyError, ValueError, IndexError, AssertionError, AttributeError, TypeError, a plain Exception): every
    path must return normally, and a frame at least as long as the version's header (3 bytes for version 4, 5 afterwards) is handed to
    the installed handler exactly once, unchanged (shorter ones may be dropped). Calls the evaluation cannot see into (neither logging, nor a total builtin, nor a function of
    the repository that is evaluated with the rest) must lie inside a try whose handler catches Exception; the handler body
    itself may only log. Gateway.data_received only forwards."""
    from ..esc import enclosing_try, handler_contains_all

    repo = ctx.repo
    f = repo.func("bellows.ezsp:EZSP.frame_received")
    ctx.fn(f)
    cls = repo.cls("bellows.ezsp", "EZSP")
    proto_calls = [n for n in ast.walk(f.node) if isinstance(n, ast.Call) and text(n.func) == "self._protocol"]
    ctx.anchor(proto_calls, "EZSP.frame_received hands the frame to self._protocol(...)")
    excs = ("Exception", "KeyError", "ValueError", "IndexError", "AssertionError", "AttributeError", "TypeError")
    outs = Outcomes(OK(None), *[RAISE(x) for x in excs])
    base = same_class(stop=())

    def pol(g, awaited):
        # methods of EZSP and plain (synchronous) helpers of the handler classes are evaluated with the rest
        if g.cls is not None and not g.is_async and g.name != "__call__" and any(n == "ProtocolHandler" for n in g.cls.base_names() + [g.cls.name]):
            return True
        return base(g, awaited)

    px = PX(repo, models=[("self._protocol", outs)], inline=pol)
    base.root = f
    frames = [bytes(range(1, n + 1)) for n in (0, 1, 2, 3, 4, 5, 6, 8, 64)]
    for proto in ["none"] + list(VERSIONS):
        hcls = None if proto == "none" else vcls(ctx, proto)
        for data in frames:
            def setup():
                h = None if hcls is None else self_obj(hcls, {"COMMANDS_BY_ID": {}}, tag="handler")
                return self_obj(cls, {"_protocol": h}), {"data": data}

            paths = px.explore(f, setup)
            ctx.paths += len(paths)
            for p in paths:
                calls = [e for e in p.events if e.kind == "call" and e.what == "self._protocol"]
                how = "/".join(str(e.extra)[:24] for e in calls) or "-"
                pv = proto if proto == "none" else f"v{proto}"
                if p.terminal != "return":
                    ctx.violation(f"frame_received:raises:{pv}:len={len(data)}:{how}",
                                  f"frame of {len(data)} bytes, protocol handler {pv} ({how}): the receive entry point ends with {p.terminal} {p.value!r}; "
                                  "whatever arrives, EZSP.frame_received must return", func=f, trace=p.trace(), props=("C08", "C02"))
                else:
                    ctx.ok(1, f"returns:{pv}:{len(data)}")
                # a complete frame is at least the version's header long (3 bytes in the legacy format, 5 afterwards): it must reach the
                # handler exactly once and unchanged, or the command it answers never completes / the callback is lost or doubled
                if proto != "none" and len(data) >= (3 if proto == 4 else 5):
                    if not (len(calls) == 1 and calls[0].args and calls[0].args[0] == data):
                        ctx.violation(f"frame_received:dispatch:{pv}:len={len(data)}",
                                      f"a {len(data)}-byte frame (at least a full {pv} header) is handed to the protocol handler {len(calls)} times / with "
                                      "other bytes: a response without parameters would never complete its command", func=f, trace=p.trace(),
                                      props=("C08", "C06", "C07"))
                    else:
                        ctx.ok(1, f"dispatch:{pv}:{len(data)}")

    def opaque_calls(root):
        for n in ast.walk(root):
            if isinstance(n, ast.Call):
                tx = text(n.func)
                if tx.startswith(("LOGGER.", "_LOGGER.")) or tx in SAFE_CALLS or tx == "self._protocol":
                    continue
                if tx.startswith("self.") and tx.count(".") == 1:
                    try:
                        cls.method(tx[5:])
                        continue  # a method of EZSP: evaluated with the rest above
                    except KeyError:
                        pass
                if tx.startswith("self._protocol.") and tx.count(".") == 2:
                    try:
                        if not vcls(ctx, VERSIONS[-1]).method(tx.split(".")[2]).is_async:
                            continue  # a plain method of the handler classes: evaluated with the rest above, per version
                    except KeyError:
                        pass
                yield n

    for n in opaque_calls(f.node):
        ctx.call_sites += 1
        encl = enclosing_try(f.node, n)
        in_handler = any(part != "body" for t, part in encl)
        ok = any(part == "body" and handler_contains_all(t) for t, part in encl)
        if in_handler:
            raise AnalysisError(f"the catch-all handler of EZSP.frame_received calls {text(n.func)}: whether it can raise is outside the modelled subset")
        if not ok:
            raise AnalysisError(f"EZSP.frame_received calls {text(n.func)} (line {n.lineno}) outside a catch-all handler: whether it can raise is outside "
                                "the modelled subset")
    # Gateway.data_received only forwards
    g = repo.func("bellows.uart:Gateway.data_received")
    calls = [n for n in ast.walk(g.node) if isinstance(n, ast.Call) and not text(n.func).startswith(("LOGGER.", "_LOGGER."))]
    ctx.require(len(calls) == 1 and text(calls[0].func) == "self._application.frame_received", "gateway-forward",
                f"Gateway.data_received does {[text(c.func) for c in calls]} instead of only forwarding to frame_received", func=g)


@rule("R08.4", ["C08", "C06", "C13", "C17"], "T-WMW", floor=1)
def r08_4(ctx):
    """A malformed or unexpected frame cannot affect later commands: the only protocol state the receive path
    (EZSP.frame_received, ProtocolHandler.__call__ and the helpers they call) modifies is the pending entry popped under
    the frame's sequence number - it never writes an attribute that the command path or the receive path itself reads
    (sequence counter, pending table, tables, gateway, callbacks). New bookkeeping attributes that nothing on those paths
    reads (statistics, timestamps) are not state in this sense."""
    from ..su import reachable_names

    repo = ctx.repo
    rx_roots = [repo.func(f"{PROTO}:ProtocolHandler.__call__"), repo.func("bellows.ezsp:EZSP.frame_received")]
    tx_roots = [repo.func(f"{PROTO}:ProtocolHandler.command"), repo.func("bellows.ezsp:EZSP._command")]

    def family(names, extra_ok=()):
        return [g for g in repo.all_functions() if g.name in names and g.cls is not None and (
            any(b == "ProtocolHandler" for b in g.cls.base_names()) or g.cls.name == "EZSP")]

    rx_funcs = family(reachable_names(repo, rx_roots) - {"_ezsp_frame_rx"})
    rx_funcs = [g for g in rx_funcs if not (g.cls.name == "EZSP" and g.name not in ("frame_received",))]
    tx_funcs = family(reachable_names(repo, tx_roots))
    read = set()
    mutators = ("append", "extend", "add", "update", "setdefault", "insert", "appendleft")
    for g in rx_funcs + tx_funcs:
        parent = {}
        for n in ast.walk(g.node):
            for ch in ast.iter_child_nodes(n):
                parent[ch] = n
        for n in ast.walk(g.node):
            if isinstance(n, ast.Attribute) and isinstance(n.ctx, ast.Load) and text(n.value) == "self":
                up = parent.get(n)
                # bookkeeping that is only ever written - `self.x[k] = v`, `self.x[k] += 1`, `self.x.append(v)` as a statement - loads
                # the container only to store into it: that is not a read of protocol state
                if isinstance(up, ast.Subscript) and up.value is n and isinstance(up.ctx, (ast.Store, ast.Del)):
                    continue
                if isinstance(up, ast.Attribute) and up.value is n and up.attr in mutators and isinstance(parent.get(up), ast.Call) \
                        and parent[up].func is up and isinstance(parent.get(parent[up]), ast.Expr):
                    continue
                read.add(n.attr)
    n_ok = 0
    for f in rx_funcs:
        ctx.fn(f)
        # local aliases of attributes (`awaiting = self._awaiting`): a mutation through the alias is a mutation of the attribute
        alias = {}
        for n in ast.walk(f.node):
            if isinstance(n, ast.Assign) and len(n.targets) == 1 and isinstance(n.targets[0], ast.Name) and isinstance(n.value, ast.Attribute) \
                    and text(n.value.value) == "self":
                alias[n.targets[0].id] = n.value.attr

        def owner(expr):
            t_ = text(expr)
            if t_.startswith("self."):
                return t_[5:].split(".")[0].split("[")[0]
            root = expr
            while isinstance(root, (ast.Attribute, ast.Subscript)):
                root = root.value
            if isinstance(root, ast.Name) and root.id in alias:
                return alias[root.id]
            return None

        for n in ast.walk(f.node):
            tgt = None
            if isinstance(n, ast.Attribute) and isinstance(n.ctx, (ast.Store, ast.Del)) and text(n.value) == "self":
                tgt = ("store", n.attr)
            elif isinstance(n, ast.Subscript) and isinstance(n.ctx, (ast.Store, ast.Del)) and owner(n.value):
                tgt = ("item", owner(n.value))
            elif isinstance(n, ast.Call) and isinstance(n.func, ast.Attribute) and owner(n.func.value) \
                    and n.func.attr in ("append", "extend", "add", "pop", "remove", "clear", "update", "setdefault", "discard", "insert", "popitem"):
                tgt = (n.func.attr, owner(n.func.value))
            if tgt is None:
                continue
            if tgt == ("pop", "_awaiting"):
                n_ok += 1
                ctx.ok(1)
                continue
            # a pure counter / timestamp that is only ever written (or read only by its own update) is not protocol state
            own_update = isinstance(n, ast.Attribute) and any(isinstance(q, ast.AugAssign) and q.target is n for q in ast.walk(f.node))
            other_reads = tgt[1] in read and not (own_update and _only_read_by_own_update(repo, rx_funcs + tx_funcs, tgt[1]))
            ctx.require(not other_reads, f"receive-path-write:{tgt[1]}:{tgt[0]}", f"{f.short} (on the receive path) modifies self.{tgt[1]} ({tgt[0]}) at line {n.lineno}, "
                        "which the command / receive path reads: an unexpected frame can then affect later commands", func=f, node=n)
    ctx.anchor(n_ok >= 1, "the receive path pops the matched pending entry")


def _only_read_by_own_update(repo, funcs, attr):
    for g in funcs:
        for n in ast.walk(g.node):
            if isinstance(n, ast.Attribute) and isinstance(n.ctx, ast.Load) and text(n.value) == "self" and n.attr == attr:
                return False
    return True


@rule("R06.9", ["C06", "C09", "C07"], "T-FUN", floor=2)
def r06_9(ctx):
    """EZSP._command resolves the command on the handler that is installed *now*: after the handler object has been
    replaced (version switch, reset) the same command name is sent through the new handler, not through a
    remembered one - a request registered in a discarded handler would never see its reply."""
    repo = ctx.repo
    f = repo.func("bellows.ezsp:EZSP._command")
    ctx.fn(f)
    ez = repo.cls("bellows.ezsp", "EZSP")
    for ver_a, ver_b in ((8, 8), (4, 8), (8, 4)):
        px = PX(repo, models=[("*.is_set", lambda px_, t, a, k, fr: True)], inline=same_class(stop=("handle_callback",)))
        px.inline.root = f

        def entry():
            me = self_obj(ez, {"_protocol": Obj(TypeRef("Handler"), {}, tag="handlerA"), "_ezsp_version": ver_a})
            px.top_frame = None
            px.call_function(f, me, ["nop"], {}, None)
            me.fields["_protocol"] = Obj(TypeRef("Handler"), {}, tag="handlerB")
            me.fields["_ezsp_version"] = ver_b
            px.call_function(f, me, ["nop"], {}, None)
            return None

        for p in px._run(entry):
            aw = [e for e in p.events if e.kind == "await"]
            got = [e.callee for e in aw]
            ctx.require(p.terminal == "return" and got == ["handlerA.nop", "handlerB.nop"], f"current-handler:{ver_a}->{ver_b}",
                        f"two nop commands around a handler replacement (version {ver_a} -> {ver_b}) are sent through {got}; the second must use the "
                        "new handler", func=f, trace=p.trace(10))


@rule("R06.10", ["C06", "C09"], "T-FUN", floor=1)
def r06_10(ctx):
    """A command issued while EZSP is stopped (a reset is in progress) either fails at once with EzspError, or - if the
    implementation waits for the restart - goes through the handler the restart installed (legacy framing until the
    version has been negotiated again); it never goes through the handler that was current when the call began."""
    repo = ctx.repo
    f = repo.func("bellows.ezsp:EZSP._command")
    ctx.fn(f)
    ez = repo.cls("bellows.ezsp", "EZSP")
    state = {}

    def restart(px_, t, a, k, fr):
        me = state["me"]
        me.fields["_protocol"] = Obj(TypeRef("Handler"), {}, tag="handlerB")
        me.fields["_ezsp_version"] = 4
        state["running"] = True
        return Outcomes(OK(True))

    px = PX(repo, inline=same_class(stop=("handle_callback",)),
            models=[("*.is_set", lambda px_, t, a, k, fr: state.get("running", False)), ("*.wait", restart), ("asyncio.wait_for", restart), ("await:*wait*", restart)])
    px.inline.root = f

    def entry():
        state.clear()
        state["me"] = self_obj(ez, {"_protocol": Obj(TypeRef("Handler"), {}, tag="handlerA"), "_ezsp_version": 8})
        px.top_frame = None
        px.call_function(f, state["me"], ["nop"], {}, None)
        return None

    for p in px._run(entry):
        sent = [e.callee for e in p.events if e.kind == "await" and e.callee and e.callee.endswith(".nop")]
        ok = (p.raised("EzspError") and not sent) or (p.terminal == "return" and sent == ["handlerB.nop"])
        ctx.require(ok, "restart-during-command", f"a command begun while EZSP is stopped and resumed after the restart is sent through {sent} "
                    f"({p.terminal} {p.value if p.terminal == 'raise' else ''}); it must fail with EzspError or use the handler installed by the restart", func=f,
                    trace=p.trace(12))
