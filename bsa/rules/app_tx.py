"""C12: a unicast is reported delivered only on its own delivery confirmation."""
from __future__ import annotations

import ast

from ..core import rule
from ..errors import AnalysisError
from ..idx import index
from ..px import OK, PX, RAISE, Outcomes
from ..pxv import Obj, Sym
from ..su import norm
from ..te import ClassRef, Member, TypeRef
from .app_rx import APP, NAMED, PARAMS_SENT, ROLES_SENT, VERSIONS, app_cls, explore_callback, roles_of_call, rx_fields
from .util import anchor_attrs
from .util import const, fut, same_class, self_obj, text

BUSY = ("ZIGBEE_MAX_MESSAGE_LIMIT_REACHED", "TRANSMIT_BUSY", "ALLOCATION_FAILED")


def mode(name):
    return TypeRef(f"zigpy.types.AddrMode.{name}")


def packet_obj(addr_mode, ext=False, sr=None):
    dst = Obj(TypeRef("zigpy.types.AddrModeAddress"), {"addr_mode": mode(addr_mode), "address": Sym("dest")}, tag="packet.dst")
    return Obj(TypeRef("zigpy.types.ZigbeePacket"), {"dst": dst, "extended_timeout": ext, "source_route": sr, "tsn": Sym("tsn"),
                                                     "profile_id": Sym("profile"), "cluster_id": Sym("cluster"), "src_ep": Sym("src_ep"),
                                                     "dst_ep": Sym("dst_ep"), "radius": Sym("radius"), "non_member_radius": Sym("nmr"),
                                                     "priority": Sym("prio"), "data": Sym("data")}, tag="packet")


def explore_send_packet(ctx, addr_mode, statuses, confirm, ext=False, sr=None, device_known=True, want_px=False):
    repo = ctx.repo
    f = repo.func(f"{APP}:ControllerApplication.send_packet")
    sl = repo.cls(NAMED, "sl_Status").members()
    send_out = Outcomes(*[OK((sl[s], Sym("aps_seq"))) for s in statuses])
    dev = Obj(TypeRef("zigpy.device.Device"), {"nwk": Sym("dev_nwk"), "ieee": Sym("dev_ieee")}, tag="device")

    def replace(px, t, a, k, fr):
        old = fr.locals["packet"]
        return Obj(old.cls, {**old.fields, **k}, tag="packet'")

    models = [("*.is_set", lambda px, t, a, k, fr: True),
              ("self.get_device_with_address", Outcomes(OK(dev)) if device_known else Outcomes(RAISE("KeyError"))),
              ("zigpy.types.AddrModeAddress", lambda px, t, a, k, fr: Obj(TypeRef("zigpy.types.AddrModeAddress"), dict(k), tag="addr")),
              ("packet.replace", replace),
              ("self.get_sequence", lambda px, t, a, k, fr: Sym("tag")),
              ("self._ezsp.send_unicast", send_out), ("self._ezsp.send_multicast", send_out), ("self._ezsp.send_broadcast", send_out),
              ("self._ezsp.set_extended_timeout", Outcomes(OK(None))), ("self._ezsp.set_source_route", Outcomes(OK(None))),
              ("asyncio.sleep", Outcomes(OK(None))),
              ("with:self._pending.new", lambda px, t, a, k, fr: Obj(TypeRef("Request"), {"result": fut("confirmation")}, tag="req")),
              ("await:confirmation", confirm)]
    px = PX(repo, models=models, inline=same_class(stop=("_handle_frame_sent",)),
            facts={"self.config[zigpy.config.CONF_SOURCE_ROUTING]": False}, max_paths=4000)
    cls = app_cls(ctx)

    def setup():
        ez = Obj(TypeRef("EZSP"), {"is_ezsp_running": True}, tag="self._ezsp")
        return self_obj(cls, {"_ezsp": ez}), {"packet": packet_obj(addr_mode, ext, sr)}

    paths = px.explore(f, setup)
    return (f, paths, px) if want_px else (f, paths)


def _visited_send(ctx):
    if "send_visited" not in ctx.run.shared:
        sl = ctx.repo.cls(NAMED, "sl_Status").members()
        f0, paths0, px0 = explore_send_packet(ctx, "NWK", ("OK",), Outcomes(OK((sl["OK"], "m"))), ext=True, sr=[1], want_px=True)
        ctx.run.shared["send_visited"] = set(px0.visited)
    return ctx.run.shared["send_visited"]


def sends(p):
    return [e for e in p.events if e.kind == "await" and e.what.startswith("self._ezsp.send_")]


@rule("R12.1", ["C12"], "T-FUN", floor=60)
def r12_1(ctx):
    """send_packet over enqueue statuses {OK, each busy status, another refusal} per attempt x address mode x
    confirmation {success, failure status, legacy failure status, timeout, cancellation}: at most
    len(RETRY_DELAYS) enqueue attempts, each busy answer followed by a sleep of that attempt's delay; another
    refusal raises DeliveryError at once; busy on every attempt raises DeliveryError; a normal return implies the
    last enqueue was accepted and - for unicast - that the confirmation was awaited inside
    asyncio_timeout(APS_ACK_TIMEOUT) and normalises to OK; a failed confirmation raises DeliveryError, a missing
    one a timeout; multicast and broadcast return after an accepted enqueue without waiting."""
    anchor_attrs(ctx, "ControllerApplication", "_pending", "_req_lock", "_ezsp")
    repo = ctx.repo
    delays = repo.get(APP, "RETRY_DELAYS")
    tmo = const(ctx, APP, "APS_ACK_TIMEOUT")
    ctx.anchor(isinstance(delays, list) and 1 <= len(delays) <= 6 and all(isinstance(d, (int, float)) and d > 0 for d in delays), "RETRY_DELAYS")
    sl = repo.cls(NAMED, "sl_Status").members()
    es = repo.cls(NAMED, "EmberStatus").members()
    for b in BUSY:
        ctx.anchor(b in sl, f"sl_Status.{b}")
    confirm = Outcomes(OK((sl["OK"], "m")), OK((sl["ZIGBEE_DELIVERY_FAILED"], "m")), OK((es["DELIVERY_FAILED"], "m")), OK((es["SUCCESS"], "m")),
                       RAISE("TimeoutError"), RAISE("CancelledError"))
    statuses = ("OK",) + BUSY + ("FAIL",)
    for am in ("NWK", "Group", "Broadcast", "IEEE"):
        f, paths = explore_send_packet(ctx, am, statuses if am == "NWK" else ("OK", BUSY[0], "FAIL"), confirm)
        ctx.fn(f)
        ctx.paths += len(paths)
        ctx.anchor(len(paths) >= 10, f"send_packet({am}) paths")
        unicast = am in ("NWK", "IEEE")
        for p in paths:
            ss = sends(p)
            sts = [e.extra[0].name for e in ss]
            sleeps = [e for e in p.events if e.kind == "await" and e.what == "asyncio.sleep"]
            conf = [e for e in p.events if e.kind == "await" and e.what == "confirmation"]
            pid = f"{am}:[{'/'.join(sts)}]" + (f"+confirm={str(conf[0].extra)[:34]}" if conf else "")
            bad = None
            want_cmd = {"NWK": "send_unicast", "IEEE": "send_unicast", "Group": "send_multicast", "Broadcast": "send_broadcast"}[am]
            if any(not e.what.endswith(want_cmd) for e in ss):
                bad = f"{am} packet sent with {[e.what for e in ss]}"
            elif len(ss) > len(delays):
                bad = f"{len(ss)} enqueue attempts, budget is {len(delays)}"
            elif any(s == "OK" for s in sts[:-1]):
                bad = "enqueue repeated after the NCP accepted the message"
            elif any(s == "FAIL" for s in sts[:-1]):
                bad = "enqueue repeated after an outright refusal"
            else:
                nbusy = sum(1 for s in sts if s in BUSY)
                last = sts[-1] if sts else None
                # spacing: one sleep of the attempt's delay after each busy answer that is followed by another attempt
                need = [delays[i] for i, s in enumerate(sts[:-1]) if s in BUSY]
                got = [e.args[0] for e in sleeps][: len(need)]
                if got != need:
                    bad = f"retry spacing {[e.args[0] for e in sleeps]} does not match the delays {need} of the busy attempts"
                elif last == "FAIL":
                    if not p.raised("DeliveryError") or conf:
                        bad = f"refused enqueue: {p.terminal} {p.value!r}"
                elif last in BUSY:
                    if len(ss) < len(delays):
                        bad = f"gives up after {len(ss)} busy attempts (budget {len(delays)})"
                    elif not p.raised("DeliveryError") or conf:
                        bad = (f"NCP busy on all {len(ss)} attempts: send_packet {'returns normally' if p.terminal == 'return' else 'raises ' + repr(p.value)}"
                               f"{' after waiting for a confirmation' if conf else ''}; it must raise DeliveryError")
                elif last == "OK":
                    if not unicast:
                        if conf or p.terminal != "return":
                            bad = f"{am}: {p.terminal} {p.value!r}, confirmation waits {len(conf)} (must return after the accepted enqueue)"
                    elif len(conf) != 1:
                        bad = f"unicast accepted but {len(conf)} confirmation waits"
                    else:
                        c = conf[0]
                        if not any(x.endswith("asyncio_timeout") for x in c.ctx):
                            bad = "confirmation wait is not bounded by asyncio_timeout"
                        else:
                            ent = [e for e in p.events if e.kind == "enter" and e.what.endswith("asyncio_timeout")]
                            if not ent or ent[-1].args[:1] != (tmo,):
                                bad = f"confirmation wait bounded by {ent[-1].args if ent else None!r}, not APS_ACK_TIMEOUT"
                        if not bad:
                            ex = c.extra
                            if isinstance(ex, tuple):
                                good = ex[0].value == 0
                                if good and p.terminal != "return":
                                    bad = f"successful confirmation but send_packet raises {p.value!r}"
                                elif not good and not p.raised("DeliveryError"):
                                    bad = f"confirmation reports {ex[0]!r} but send_packet {'returns normally' if p.terminal == 'return' else 'raises ' + repr(p.value)}"
                            elif "TimeoutError" in str(ex) and not p.raised("TimeoutError"):
                                bad = f"no confirmation within the timeout but send_packet gives {p.terminal} {p.value!r}"
                            elif "CancelledError" in str(ex) and not p.raised("CancelledError"):
                                bad = "cancellation swallowed"
                elif last is None:
                    bad = f"no enqueue attempt at all: {p.terminal} {p.value!r}"
            if not bad and p.terminal == "return" and (not sts or sts[-1] != "OK"):
                bad = "normal return although the NCP never accepted the message"
            if bad:
                ctx.violation(f"send_packet:{am}:{bad.split(':')[0][:38]}", f"path {pid}: {bad}", func=f, trace=p.trace(60), construct=pid)
            else:
                ctx.ok(1, pid)
    # every failure status a confirmation can carry (each defined unified status other than OK, each legacy status other than
    # SUCCESS): an accepted unicast whose confirmation reports it must raise DeliveryError - none of them counts as delivered
    fails = [m for m in sl.values() if m.value != 0] + [m for m in es.values() if m.value != 0]
    f, paths = explore_send_packet(ctx, "NWK", ("OK",), Outcomes(*[OK((m, "m")) for m in fails]))
    ctx.paths += len(paths)
    seen_conf = 0
    for p in paths:
        conf = [e for e in p.events if e.kind == "await" and e.what == "confirmation"]
        if len(conf) != 1 or not isinstance(conf[0].extra, tuple):
            continue
        seen_conf += 1
        st_ = conf[0].extra[0]
        ctx.require(p.raised("DeliveryError"), f"send_packet:NWK:confirmation-status:{st_.cls.name}.{st_.name}",
                    f"accepted unicast whose delivery confirmation reports {st_!r}: send_packet {'returns normally' if p.terminal == 'return' else 'raises ' + repr(p.value)}; "
                    "only a confirmation of success may count as delivered", func=f, trace=p.trace(30))
    ctx.anchor(seen_conf >= len(fails), f"confirmation statuses explored: {seen_conf} of {len(fails)}")
    ctx.sample({"RETRY_DELAYS": delays, "busy": BUSY})


@rule("R12.2", ["C12"], "T-PAIR", floor=8)
def r12_2(ctx):
    """Bookkeeping and serialisation: every enqueue and the confirmation wait happen inside
    `with self._pending.new((destination, tag))` (context-managed, so the entry is gone whatever the outcome); the
    registered destination is the one passed to the send wrapper as `nwk=` (also after an IEEE->NWK rewrite) and the
    tag is the one passed as `message_tag=`; the route / extended-timeout set-up commands and the send of one
    attempt lie inside one `async with self._req_lock` block, the confirmation wait lies outside it; nobody else
    calls the set-up commands or touches the pending table."""
    repo = ctx.repo
    sl = repo.cls(NAMED, "sl_Status").members()
    confirm = Outcomes(OK((sl["OK"], "m")), RAISE("TimeoutError"))
    for am, ext, sr in (("NWK", True, [0x1111, 0x2222]), ("NWK", False, None), ("IEEE", True, [0x1111]), ("Group", False, None), ("Broadcast", False, None)):
        f, paths = explore_send_packet(ctx, am, ("OK", BUSY[1]), confirm, ext=ext, sr=sr)
        ctx.paths += len(paths)
        for p in paths:
            pid = f"{am},ext={ext},route={'yes' if sr is not None else 'no'}"
            reg = [e for e in p.events if e.kind == "enter" and e.what == "self._pending.new"]
            ss = sends(p)
            setup_cmds = [e for e in p.events if e.kind == "await" and e.what in ("self._ezsp.set_extended_timeout", "self._ezsp.set_source_route")]
            conf = [e for e in p.events if e.kind == "await" and e.what == "confirmation"]
            bad = None
            if len(reg) != 1 or not (reg[0].args and isinstance(reg[0].args[0], tuple) and len(reg[0].args[0]) == 2):
                bad = f"pending entry registered {len(reg)} times / with key {[e.args for e in reg]!r}"
            else:
                key = reg[0].args[0]
                for e in ss + conf + setup_cmds:
                    if "self._pending.new" not in e.ctx:
                        bad = f"{e.what} happens outside the context-managed pending entry"
                for e in ss:
                    if e.kwargs.get("message_tag") != key[1]:
                        bad = f"message_tag sent is {e.kwargs.get('message_tag')!r}, registered tag is {key[1]!r}"
                    elif e.what.endswith("send_unicast") and e.kwargs.get("nwk") != key[0]:
                        bad = (f"the request is registered under destination {key[0]!r} but sent to {e.kwargs.get('nwk')!r}: its own confirmation "
                               "would not be matched")
                    elif "self._req_lock" not in e.ctx:
                        bad = f"{e.what} outside the request lock"
                for e in setup_cmds:
                    if "self._req_lock" not in e.ctx:
                        bad = f"set-up command {e.what.split('.')[-1]} is issued outside the request lock (another request's set-up/send can interleave)"
                for e in conf:
                    if "self._req_lock" in e.ctx:
                        bad = "the confirmation wait holds the request lock"
                if not bad and am in ("NWK", "IEEE") and ss:
                    # set-up of each attempt precedes that attempt's send inside the same lock block
                    want = (["set_extended_timeout"] if ext else []) + (["set_source_route"] if sr is not None else [])
                    got = [e.what.split(".")[-1] for e in setup_cmds]
                    if got != want * len(ss):
                        bad = f"set-up commands issued {got}, expected {want} before each of the {len(ss)} sends"
                    else:
                        lock_enters = [i for i, e in enumerate(p.events) if e.kind == "enter" and e.what == "self._req_lock"]
                        for k_, s_ in enumerate(ss):
                            i_send = p.events.index(s_)
                            blk = max(i for i in lock_enters if i < i_send)
                            mine = [e for e in setup_cmds if blk < p.events.index(e) < i_send]
                            if len(mine) != len(want):
                                bad = "set-up commands and their send are not inside one lock block"
            if bad:
                ctx.violation(f"send_packet:custody:{bad.split(' ')[0]}:{am}", f"{pid}: {bad}", func=f, trace=p.trace(50), construct=pid)
            else:
                ctx.ok(1, pid)
    # who touches the pending table / who calls the set-up wrappers
    import ast as _ast

    pending_table_class(ctx)

    for g, n in index(repo).references("_pending"):
        if g.mod != APP:
            continue
        # only uses that can add, complete or remove an entry matter (reading the table for diagnostics does not)
        touching = False
        for q in _ast.walk(g.node):
            if isinstance(q, _ast.Attribute) and q.value is n and q.attr in ("new", "pop", "clear", "update", "setdefault", "popitem", "__setitem__", "__delitem__"):
                touching = True
            if isinstance(q, _ast.Subscript) and q.value is n:
                touching = True  # an entry is fetched (to be completed) or stored
            if isinstance(q, (_ast.Assign, _ast.AugAssign)) and any(t is n for t in (q.targets if isinstance(q, _ast.Assign) else [q.target])):
                touching = True
            # entries fetched in bulk (items / values / get) in a function that also completes or cancels a future
            if isinstance(q, _ast.Attribute) and q.value is n and q.attr in ("items", "values", "get") and any(
                    isinstance(c, _ast.Call) and isinstance(c.func, _ast.Attribute) and c.func.attr in ("set_result", "set_exception", "cancel")
                    for c in _ast.walk(g.node)):
                touching = True
        if not touching:
            ctx.ok(1)
            continue
        ctx.require(g.short in ("ControllerApplication.__init__", "ControllerApplication._handle_frame_sent") or g.qual in _visited_send(ctx),
                    f"_pending:user:{g.short}", f"entries of the pending table are added, fetched, completed or removed in {g.short}, outside "
                    "send_packet (registration) and _handle_frame_sent (completion by the matching confirmation): a request could then be completed "
                    "by something other than its own delivery confirmation", func=g, node=n)
    # the set-up wrappers are called only from functions explored above (send_packet and the helpers it is split into)
    f0, paths0, px0 = explore_send_packet(ctx, "NWK", ("OK",), confirm, ext=True, sr=[1], want_px=True)
    for name in ("set_extended_timeout", "set_source_route"):
        for g, n in index(repo).callers(name):
            if g.mod.startswith("bellows.cli"):
                continue
            ctx.require(g.qual in px0.visited, f"{name}:caller:{g.short}", f"{name} is called from {g.short}, which is not part of send_packet's explored "
                        "set-up + send sequence under the request lock", func=g, node=n)


def pending_table_class(ctx):
    """What kind of object the pending table is.  zigpy.util.Requests is the trusted base (its ``new`` is a context manager that
    removes the entry on every exit).  A class of the repository in its place is evaluated: for a body that ends normally, raises an
    exception, or is cancelled (a BaseException), the entry ``new(key)`` registered must have been removed when the with-block is left."""
    import ast as _ast

    from ..px import PX
    from ..te import ClassRef, Repo, TypeRef

    repo = ctx.repo
    init = repo.func(f"{APP}:ControllerApplication.__init__")
    stores = [n for n in _ast.walk(init.node) if isinstance(n, _ast.Assign) and any(_ast.unparse(t) == "self._pending" for t in n.targets)]
    ctx.anchor(stores, "ControllerApplication.__init__ creates self._pending")
    val = stores[-1].value
    if not isinstance(val, _ast.Call):
        raise AnalysisError(f"self._pending = {_ast.unparse(val)}: not a constructor call")
    ctor = repo.te.ev(val.func, repo.module(APP), APP)
    if isinstance(ctor, TypeRef):
        if str(ctor) != "zigpy.util.Requests":
            raise AnalysisError(f"the pending table is a {ctor}, which is outside the modelled trusted base")
        ctx.ok(1, "pending-table:zigpy")
        return
    if not isinstance(ctor, ClassRef):
        raise AnalysisError(f"the pending table's constructor {_ast.unparse(val.func)} did not resolve")
    src = f"""
from {ctor.mod} import {ctor.name} as _Table


def drive(key, how):
    table = _Table()
    try:
        with table.new(key) as request:
            if how == "exception":
                raise ValueError()
            if how == "cancelled":
                raise BaseException()
    except BaseException:
        pass
    return None
"""
    rel = "bellows/_bsa_pending_driver.py"
    drv = Repo(repo.root, overlay={**repo.overlay, rel: src})
    f = drv.func("bellows._bsa_pending_driver:drive")
    for how in ("normal", "exception", "cancelled"):
        px = PX(drv, inline=lambda g, awaited: True)
        for p in px.explore(f, lambda: (None, {"key": ("destination", 1), "how": how})):
            ctx.paths += 1
            reg = [i for i, e in enumerate(p.events) if e.kind == "write" and e.what.endswith("[]") and e.args[:1] == (("destination", 1),)]
            if not reg:
                continue  # refused as a duplicate before anything was registered
            gone = [i for i, e in enumerate(p.events) if i > reg[-1] and e.args[:1] == (("destination", 1),) and (
                (e.kind == "write" and e.what.endswith("__delitem__")) or (e.kind in ("call", "write") and e.what.endswith(".pop")))]
            ctx.require(gone and p.terminal == "return", f"pending-table:{ctor.name}.new:{how}",
                        f"{ctor.name}.new (the pending table of send_packet): when the with-block ends by {how} the registered entry is "
                        f"{'removed' if gone else 'still in the table'} and the driver ends with {p.terminal} {p.value!r}; bookkeeping for a request must be gone "
                        "whatever its outcome (a left-over entry fails a later request with the same tag as a duplicate)", func=ctor.method("new"),
                        trace=p.trace(20))


ROLE_TX = {"indexordestination": "DEST", "nwk": "DEST", "messagetag": "TAG", "type": "TYPE", "messagetype": "TYPE", "apsframe": "APS",
           "messagecontents": "PAYLOAD", "message": "PAYLOAD"}


@rule("R12.3", ["C12"], "T-FLOW", floor=40)
def r12_3(ctx):
    """Tag / destination custody in each of the 11 versions: the resolved send_unicast wrapper forwards its nwk
    and message_tag to the request fields of role destination / tag of that version's sendUnicast schema and
    returns the normalised enqueue status first; ezsp_callback_handler binds the messageSentHandler fields of role
    destination / tag / status to _handle_frame_sent's parameters, normalising the legacy status; and
    _handle_frame_sent completes exactly the pending entry keyed (destination, tag), tolerating unknown keys and
    completed futures."""
    repo = ctx.repo
    sl = repo.cls(NAMED, "sl_Status").members()
    es = repo.cls(NAMED, "EmberStatus").members()
    for v in VERSIONS:
        c = repo.cls(f"bellows.ezsp.v{v}", f"EZSPv{v}")
        w = c.method("send_unicast")
        ctx.fn(w)
        tx = repo.get(f"bellows.ezsp.v{v}.commands", "COMMANDS")["sendUnicast"]
        rx0 = list(tx[2].values())[0]
        st_in = es["SUCCESS"] if getattr(rx0, "name", "") == "EmberStatus" else sl["OK"]
        st_busy = es["NETWORK_BUSY"] if getattr(rx0, "name", "") == "EmberStatus" else sl["ZIGBEE_MAX_MESSAGE_LIMIT_REACHED"]
        px = PX(repo, models=[("self.sendUnicast", Outcomes(OK((st_in, Sym("seq"))), OK((st_busy, Sym("seq")))))], inline=same_class())
        for p in px.explore(w, lambda: (self_obj(c, {}), {"nwk": Sym("dest"), "aps_frame": Sym("aps"), "message_tag": Sym("tag"), "data": Sym("data")})):
            ctx.paths += 1
            call = [e for e in p.events if e.kind == "await" and e.what == "self.sendUnicast"]
            bad = None
            if len(call) != 1 or p.terminal != "return":
                bad = f"{len(call)} sendUnicast commands, {p.terminal} {p.value!r}"
            else:
                kw = dict(call[0].kwargs)
                for i, a in enumerate(call[0].args):
                    kw[list(tx[1])[i]] = a
                for fn in tx[1]:
                    role = ROLE_TX.get(norm(fn))
                    val = kw.get(fn)
                    if isinstance(val, Sym) and val.tag.startswith("EmberNodeId("):
                        val = Sym(val.tag[len("EmberNodeId("):-1])
                    if role == "DEST" and val != Sym("dest"):
                        bad = f"request field `{fn}` (destination) is fed {kw.get(fn)!r}, not the wrapper's nwk"
                    elif role == "TAG" and val != Sym("tag"):
                        bad = f"request field `{fn}` (message tag) is fed {kw.get(fn)!r}, not the wrapper's message_tag"
                    elif role == "PAYLOAD" and val != Sym("data"):
                        bad = f"request field `{fn}` (payload) is fed {kw.get(fn)!r}"
                    elif role == "APS" and val != Sym("aps"):
                        bad = f"request field `{fn}` (APS frame) is fed {kw.get(fn)!r}"
                r = p.value
                accepted = call[0].extra[0].value == 0
                if not bad and not (isinstance(r, tuple) and isinstance(r[0], Member) and r[0].cls.name == "sl_Status" and (r[0].value == 0) == accepted):
                    bad = f"wrapper returns {r!r} for NCP status {call[0].extra[0]!r} (first element must be the normalised status)"
                if not bad and not accepted and r[0].name not in BUSY:
                    bad = f"busy status {call[0].extra[0]!r} is returned as {r[0]!r}, which send_packet does not retry"
            ctx.require(not bad, f"wrapper:v{v}", f"v{v} send_unicast: {bad}", func=w, trace=p.trace(10))
        # callback side
        fl = rx_fields(ctx, v, "messageSentHandler", ROLES_SENT)
        for st_name in ("ok", "failed"):
            vals = []
            for fn, r, ty in fl:
                if r == "STATUS":
                    legacy = getattr(ty, "name", "") == "EmberStatus"
                    vals.append((es["SUCCESS"] if st_name == "ok" else es["DELIVERY_FAILED"]) if legacy else (sl["OK"] if st_name == "ok" else sl["ZIGBEE_DELIVERY_FAILED"]))
                else:
                    vals.append(Sym(f"role:{r}"))
            f, paths = explore_callback(ctx, v, "messageSentHandler", vals)
            for p in paths:
                hs = [e for e in p.events if e.kind == "call" and e.what == "self._handle_frame_sent"]
                bad = None
                if len(hs) != 1 or p.terminal != "return":
                    bad = f"{len(hs)} calls of _handle_frame_sent, {p.terminal} {p.value!r}"
                else:
                    got_roles = roles_of_call(ctx, hs[0], "_handle_frame_sent", PARAMS_SENT)
                    for pn, role in PARAMS_SENT.items():
                        got = got_roles.get(role)
                        if role == "STATUS":
                            if not (isinstance(got, Member) and got.cls.name == "sl_Status" and (got.value == 0) == (st_name == "ok")):
                                bad = f"status reaches _handle_frame_sent as {got!r} for a {st_name} confirmation (must be the unified status)"
                        elif got != Sym(f"role:{role}"):
                            bad = f"_handle_frame_sent parameter `{pn}` receives {got!r}, the field of role {role} is {[fn for fn, r, _ in fl if r == role]}"
                ctx.require(not bad, f"callback:v{v}:{st_name}", f"v{v} messageSentHandler ({st_name}): {bad}", func=f, trace=p.trace(10))
    # _handle_frame_sent completes only its own entry
    f = repo.func(f"{APP}:ControllerApplication._handle_frame_sent")
    ctx.fn(f)
    mts = repo.cls(NAMED, "EmberOutgoingMessageType").members()
    # (whatever outgoing type the confirmation names: direct, via the address table, via a binding, ... - the pending entry is
    # identified by destination and tag alone, never by a looser match for some types)
    for mt_name, mt in [(n_, m_) for n_, m_ in mts.items()]:
      for scen, dest, tag in (  ("own", 0x1234, 7), ("other-tag", 0x1234, 8), ("other-dest", 0x9999, 7), ("unknown", 1, 2),
                              # tags are 16 bit wide from version 14 on, destinations always: equal low bytes are different requests
                              ("tag-equal-mod-256", 0x1234, 7 + 256), ("tag-equal-mod-128", 0x1234, 7 + 128), ("dest-equal-low-byte", 0x5634, 7),
                              ("dest-equal-high-byte", 0x1299, 7)):
          for done in (False, True):
              px = PX(repo, inline=same_class(), models=[("*.set_result", Outcomes(RAISE("InvalidStateError")) if done else Outcomes(OK(None)))])

              def setup():
                  reqs = {(0x1234, 7): Obj(TypeRef("Request"), {"result": fut("own_future")}, tag="own_req"),
                          (5, 6): Obj(TypeRef("Request"), {"result": fut("other_future")}, tag="other_req")}
                  return (self_obj(app_cls(ctx), {"_pending": reqs}), {"message_type": mt, "destination": dest, "aps_frame": Sym("aps"), "message_tag": tag,
                                                                      "status": repo.cls(NAMED, "sl_Status").members()["OK"], "message": Sym("m")})

              for p in px.explore(f, setup):
                  sr = [e for e in p.events if e.kind == "call" and e.what.endswith(".set_result")]
                  if scen == "own":
                      ok = p.terminal == "return" and [e.callee for e in sr] == ["own_future.set_result"]
                  else:
                      ok = p.terminal == "return" and not sr
                  ctx.require(ok, f"_handle_frame_sent:{scen}:done={done}" + ("" if mt_name == "OUTGOING_DIRECT" else f":{mt_name}"), f"confirmation for ({dest!r}, {tag!r}) [{scen}], future {'done' if done else 'open'}: "
                              f"completes {[e.callee for e in sr]}, {p.terminal} {p.value!r}", func=f, trace=p.trace(12))


@rule("R12.6", ["C12"], "T-FUN", floor=1)
def r12_6(ctx):
    """The extended-timeout set-up command, as a history on one handler object: the address-table size query fails once
    (the last-ditch path is taken), then the set-up runs again for another device.  The second run must not raise and
    must replace an entry at an index inside the table the NCP then reports: a failed query may not leave anything behind
    that later runs trust (a cached size of 0 makes every later extended-timeout unicast fail before it is sent)."""
    repo = ctx.repo
    es = repo.cls(NAMED, "EzspStatus").members()
    done = set()
    for v in VERSIONS:
        c = repo.cls(f"bellows.ezsp.v{v}", f"EZSPv{v}")
        try:
            m = c.method("set_extended_timeout")
        except KeyError:
            raise AnalysisError(f"anchor vanished: EZSPv{v}.set_extended_timeout")
        if id(m.node) in done:
            continue
        done.add(id(m.node))
        ctx.fn(m)
        state = {"q": 0}

        def size_query(px_, t, a, k, fr):
            state["q"] += 1
            return Outcomes(OK((es["ERROR_INVALID_ID"], 0))) if state["q"] == 1 else Outcomes(OK((es["SUCCESS"], 8)))

        def randint(px_, t, a, k, fr):
            lo, hi = a[0], a[1]
            if isinstance(lo, int) and isinstance(hi, int):
                return Outcomes(RAISE("ValueError")) if hi < lo else Outcomes(OK(hi))
            return Outcomes(OK(Sym("random_index")))

        px = PX(repo, inline=same_class(),
                models=[("self.getExtendedTimeout", Outcomes(OK((False,)))), ("self.lookupNodeIdByEui64", Outcomes(OK((0xFFFF,)))),
                        ("self.getConfigurationValue", size_query), ("random.randint", randint), ("random.randrange", lambda px_, t, a, k, fr: Outcomes(OK(0))),
                        ("self.setExtendedTimeout", Outcomes(OK((Sym("st"),)))), ("self.replaceAddressTableEntry", Outcomes(OK((Sym("st"), Sym("a"), Sym("b"), Sym("c")))))])
        px.inline.root = m

        def entry():
            state["q"] = 0
            me = self_obj(c, {"_address_table_size": None})
            px.top_frame = None
            px.call_function(m, me, [Sym("nwk1"), Sym("ieee1")], {}, None)
            px.emit("mark", "second-run")
            px.call_function(m, me, [Sym("nwk2"), Sym("ieee2")], {}, None)
            return None

        for p in px._run(entry):
            ctx.paths += 1
            i2 = next((i for i, e in enumerate(p.events) if e.kind == "mark"), len(p.events))
            second = [e for e in p.events[i2:] if e.kind == "await"]
            rep = [e for e in second if e.what.endswith("replaceAddressTableEntry")]
            bad = None
            if p.terminal != "return":
                bad = f"raises {p.value!r}"
            elif rep:
                idx = rep[0].kwargs.get("addressTableIndex", rep[0].args[0] if rep[0].args else None)
                if not (isinstance(idx, int) and 0 <= idx < 8):
                    bad = f"the second run replaces address-table entry {idx!r}, outside the 8-entry table the NCP reported"
            elif not any(e.what.endswith("setExtendedTimeout") for e in second):
                bad = f"the second run issues {[e.what for e in second]}: the extended timeout is never set"
            ctx.require(not bad, f"set_extended_timeout:failed-query-then-retry:v{v}", f"v{v} set_extended_timeout after a failed table-size query: {bad}", func=m,
                        trace=p.trace(20))
