"""C19: watchdog failure counting and keep-alive choice."""
from __future__ import annotations

from ..core import rule
from ..errors import AnalysisError
from ..idx import index
from ..px import OK, PX, RAISE, Outcomes
from ..pxv import Exc, Obj, Sym
from ..te import TypeRef
from .util import anchor_attrs
from .util import const, same_class, self_obj

APP = "bellows.zigbee.application"
KEEPALIVE_CALLS = ("self._ezsp.nop", "self._ezsp.read_counters", "self._ezsp.read_and_clear_counters")
FAIL = ("TimeoutError", "EzspError")


def app_cls(ctx):
    return ctx.repo.cls(APP, "ControllerApplication")


@rule("R19.1", ["C19"], "T-FUN", floor=100, anchor_fallback=("R19.5",))
def r19_1(ctx):
    """_watchdog_feed over keep-alive outcomes {ok, TimeoutError, EzspError, other exception, cancellation} x the
    failure count n in 0..MAX+3 x protocol version (the full grid for 4 and 8, the kind of keep-alive for every version 4..14 and a newer one) x the position in the counter-clear period: a failed
    keep-alive (timeout or EZSP error, on any of the feed's commands) makes the count n+1 and the feed raises iff
    n+1 > MAX_WATCHDOG_FAILURES; a fully successful feed sets the count to 0 and returns; any other exception
    propagates without being counted. On version 4 the keep-alive is exactly one nop; otherwise the feed counter
    advances by one on every feed and the first command is read_counters when counter % PERIOD > 0 and
    read_and_clear_counters when it is 0."""
    anchor_attrs(ctx, "ControllerApplication", "_watchdog_failures", "_watchdog_feed_counter", "_ezsp")
    repo = ctx.repo
    MAX = const(ctx, APP, "MAX_WATCHDOG_FAILURES", int)
    PERIOD = const(ctx, APP, "EZSP_COUNTERS_CLEAR_IN_WATCHDOG_PERIODS", int)
    ctx.anchor(MAX >= 0 and PERIOD >= 2, "watchdog constants")
    f = repo.func(f"{APP}:ControllerApplication._watchdog_feed")
    ctx.fn(f)
    cls = app_cls(ctx)
    outs = Outcomes(OK({}), RAISE("TimeoutError"), RAISE("EzspError"), RAISE("ValueError"), RAISE("CancelledError"))
    models = [(k, outs) for k in KEEPALIVE_CALLS] + [
        ("self._get_free_buffers", Outcomes(OK(None), OK(7), RAISE("TimeoutError"), RAISE("EzspError")))]
    from ..su import VERSIONS

    for ver in list(VERSIONS) + [VERSIONS[-1] + 1]:
        # the full grid for version 4 and one later version; the kind of keep-alive for every other version (and a newer NCP)
        for n in (range(0, MAX + 4) if ver in (4, 8) else (0,)):
            for c in ((0, 1, PERIOD - 2, PERIOD - 1, PERIOD, 2 * PERIOD - 1) if ver == 8 else (0, PERIOD - 1)):
                px = PX(repo, models=models, inline=same_class())
                # a time limit the feed puts around its own commands is modelled as asyncio does it (CancelledError inside, TimeoutError
                # where the block is left): a keep-alive cut short by it is a keep-alive that failed by time-out
                px.precise_timeouts = True

                def setup():
                    ez = Obj(TypeRef("EZSP"), {"ezsp_version": ver}, tag="self._ezsp")
                    return self_obj(cls, {"_ezsp": ez, "_watchdog_failures": n, "_watchdog_feed_counter": c}), {}

                paths = px.explore(f, setup)
                ctx.paths += len(paths)
                ctx.anchor(len(paths) >= 3, "_watchdog_feed outcome paths")
                for p in paths:
                    aw = [e for e in p.events if e.kind == "await"]
                    outc = [str(e.extra).replace("raises ", "") if isinstance(e.extra, str) else "ok" for e in aw]
                    failed = next((o for o in outc if o in FAIL), None)
                    other = next((o for o in outc if o not in FAIL and o != "ok"), None)
                    st = p.store["self"]
                    cnt, feedc = st.get("_watchdog_failures"), st.get("_watchdog_feed_counter")
                    key = f"v{ver},n={n},c={c},[{'/'.join(outc)}]"
                    bad = None
                    if other and (failed is None or outc.index(other) < outc.index(failed)):
                        if not p.raised(other) or cnt != n:
                            bad = f"a {other} is not propagated uncounted: {p.terminal} {p.value!r}, count {cnt}"
                    elif failed:
                        if cnt != n + 1:
                            bad = f"failed keep-alive ({failed}): count becomes {cnt!r}, must become {n + 1}"
                        elif (n + 1 > MAX) != p.raised():
                            bad = (f"failed keep-alive with count {n}->{n + 1} and tolerated maximum {MAX}: feed "
                                   f"{'raises' if p.raised() else 'returns'}; it must raise exactly when the count exceeds the maximum")
                        elif p.raised() and p.value.cls_name != failed:
                            bad = f"feed raises {p.value!r} instead of the keep-alive's {failed}"
                    else:
                        if p.terminal != "return" or cnt != 0:
                            bad = f"successful feed: {p.terminal} {p.value!r}, count {cnt!r} (must return with count 0)"
                    if not bad:
                        first = aw[0].what if aw else None
                        if ver == 4:
                            if [e.what for e in aw] != ["self._ezsp.nop"]:
                                bad = f"version 4 keep-alive is {[e.what for e in aw]}, must be exactly one nop"
                        else:
                            want = "self._ezsp.read_counters" if (c + 1) % PERIOD > 0 else "self._ezsp.read_and_clear_counters"
                            if first != want:
                                bad = f"feed #{c + 1} of period {PERIOD} starts with {first}, must be {want.split('.')[-1]}"
                            elif feedc != c + 1:
                                bad = f"feed counter goes {c} -> {feedc!r} on this path, must advance by one on every feed"
                            elif "self._ezsp.nop" in [e.what for e in aw]:
                                bad = "nop used as keep-alive on a version later than 4"
                    if bad:
                        ctx.violation(f"_watchdog_feed:{bad.split(':')[0][:40]}", f"{key}: {bad}", func=f, trace=p.trace(30), construct=key)
                    else:
                        ctx.ok(1, key)
    # the free-buffer read that follows the keep-alive is *answered* but refused (a status other than success; firmware that does not
    # know the value): the NCP is alive, so this is not a failed keep-alive - the feed succeeds and the count is cleared.  The real
    # EZSP facade is attached, so helpers the read goes through are followed.
    ezst = repo.cls("bellows.types.named", "EzspStatus").members()
    read = Outcomes(OK((ezst["SUCCESS"], b"\x07\x00")), OK((ezst["ERROR_INVALID_ID"], b"")), RAISE("TimeoutError"), RAISE("EzspError"))
    px2 = PX(repo, models=[(k, Outcomes(OK({}))) for k in KEEPALIVE_CALLS] + [("self._ezsp.getValue", read), ("self.getValue", read)],
             inline=lambda g, aw: g.cls is not None and (g.cls.name in ("ControllerApplication", "EZSP") and g.name not in ("_command", "__getattr__") or g.name == "from_ember_status"))
    for n in (0, MAX):
        def setup2():
            ez = self_obj(repo.cls("bellows.ezsp", "EZSP"), {"_ezsp_version": 8}, tag="self._ezsp")
            return self_obj(cls, {"_ezsp": ez, "_watchdog_failures": n, "_watchdog_feed_counter": 1}), {}

        for p in px2.explore(f, setup2):
            ctx.paths += 1
            rd = [e for e in p.events if e.kind == "await" and e.what in ("self._ezsp.getValue", "self.getValue")]
            if rd and str(rd[0].extra).startswith("raises "):
                # the read is *not answered* (time-out) or rejected at the protocol level (EZSP error): that is a failed keep-alive like any
                # other command of the feed - whichever helper the read goes through, the failure must be counted
                kind = str(rd[0].extra).split()[1]
                cnt = p.store["self"].get("_watchdog_failures")
                ok = cnt == n + 1 and ((n + 1 > MAX) == (p.terminal == "raise"))
                ctx.require(ok, f"_watchdog_feed:free-buffer-read-{kind}", f"v8, count {n}: keep-alive answered, the free-buffer read ends with {kind}: the feed "
                            f"{p.terminal}s with count {cnt!r}; it is a failed keep-alive (count {n + 1}, raising exactly above the maximum {MAX})", func=f,
                            trace=p.trace(20))
                continue
            answer = "refused" if rd and isinstance(rd[0].extra, tuple) and getattr(rd[0].extra[0], "name", "") != "SUCCESS" else "accepted"
            cnt = p.store["self"].get("_watchdog_failures")
            ctx.require(p.terminal == "return" and cnt == 0, f"_watchdog_feed:free-buffer-read-{answer}",
                        f"v8, count {n}: keep-alive answered, free-buffer read {answer} by the NCP: the feed {p.terminal}s {p.value if p.terminal == 'raise' else ''} with count "
                        f"{cnt!r} (an answered read is not a failed keep-alive: the feed must return with count 0)", func=f, trace=p.trace(20))
    ctx.sample({"MAX_WATCHDOG_FAILURES": MAX, "PERIOD": PERIOD})


@rule("R19.2", ["C19"], "T-WMW", floor=4, anchor_fallback=("R19.5",))
def r19_2(ctx):
    """The failure count and the feed counter are written only by the initialiser, _watchdog_feed and
    _watchdog_loop, and _watchdog_loop zeroes both before delegating to zigpy's loop."""
    repo = ctx.repo
    from .ash_link import confined_writers

    feed = repo.func(f"{APP}:ControllerApplication._watchdog_feed")
    loop = repo.func(f"{APP}:ControllerApplication._watchdog_loop")
    pxv = PX(repo, models=[(k, Outcomes(OK({}))) for k in KEEPALIVE_CALLS] + [("self._get_free_buffers", Outcomes(OK(None)))], inline=same_class())
    for ver in (4, 8):
        pxv.explore(feed, lambda: (self_obj(app_cls(ctx), {"_ezsp": Obj(TypeRef("EZSP"), {"ezsp_version": ver}, tag="self._ezsp"), "_watchdog_failures": 0,
                                                          "_watchdog_feed_counter": 0}), {}))
    pxv.explore(loop, lambda: (self_obj(app_cls(ctx), {"_watchdog_failures": 3, "_watchdog_feed_counter": 77}), {}))
    for attr in ("_watchdog_failures", "_watchdog_feed_counter"):
        confined_writers(ctx, attr, set(pxv.visited), {"ControllerApplication.__init__"}, "R19.1/R19.2 (feed, loop)")
    f = repo.func(f"{APP}:ControllerApplication._watchdog_loop")
    ctx.fn(f)
    px = PX(repo, inline=same_class())
    paths = px.explore(f, lambda: (self_obj(app_cls(ctx), {"_watchdog_failures": 3, "_watchdog_feed_counter": 77}), {}))
    for p in paths:
        i = p.index(lambda e: e.kind == "await" and e.what.startswith("super()."))
        ctx.anchor(i >= 0, "_watchdog_loop delegates to super()._watchdog_loop()")
        before = {e.what: e.args[0] for e in p.events[:i] if e.kind == "write"}
        ok = before.get("self._watchdog_failures") == 0 and before.get("self._watchdog_feed_counter") == 0
        ctx.require(ok, "_watchdog_loop:zero", f"_watchdog_loop starts zigpy's loop with counters {before} (both must be reset to 0 first, or a "
                    "restarted loop inherits the failures of the previous one)", func=f, trace=p.trace())


@rule("R19.4", ["C19", "C06"], "T-TAB", floor=3)
def r19_4(ctx):
    """What the watchdog counts as a failed keep-alive is what the command layer raises: InvalidCommandError is an
    EzspError (so a keep-alive the NCP rejects is counted, not propagated), EzspError derives from zigpy's API exception,
    and the feed counts exactly that exception as a failed keep-alive (evaluated, whichever way the counting is written)."""
    import ast as _ast

    repo = ctx.repo
    exc = "bellows.exception"
    ice = repo.cls(exc, "InvalidCommandError")
    ctx.require("EzspError" in ice.base_names(), "InvalidCommandError<EzspError", f"InvalidCommandError bases: {ice.base_names()}")
    ee = repo.cls(exc, "EzspError")
    ctx.require(any(b in ("APIException", "ZigbeeException") for b in ee.base_names()), "EzspError<APIException", f"EzspError bases: {ee.base_names()}")
    # ... and the feed treats that very exception (the subclass the command layer raises for a rejected command) as a failed
    # keep-alive, however the counting is written (an except clause, a guard object's __exit__)
    f = repo.func(f"{APP}:ControllerApplication._watchdog_feed")
    cls = app_cls(ctx)
    for ver in (4, 8):
        px = PX(repo, models=[(k, Outcomes(RAISE("InvalidCommandError"))) for k in KEEPALIVE_CALLS] + [("self._get_free_buffers", Outcomes(OK(None)))],
                inline=same_class())
        px.hier.learn(ice)
        for p in px.explore(f, lambda: (self_obj(cls, {"_ezsp": Obj(TypeRef("EZSP"), {"ezsp_version": ver}, tag="self._ezsp"), "_watchdog_failures": 0,
                                                       "_watchdog_feed_counter": 0}), {})):
            ctx.require(p.terminal == "return", f"feed-handler:v{ver}", f"v{ver}: a keep-alive the NCP rejects (InvalidCommandError, an EzspError) makes the first feed "
                        f"{p.terminal} {p.value!r}; it is a failed keep-alive to be counted, not propagated", func=f, trace=p.trace(12))


@rule("R19.5", ["C19"], "T-FUN", floor=6)
def r19_5(ctx):
    """Histories of feeds on one application object, judged only by what each feed does (wherever the count is kept - an
    attribute, a property, a zigpy diagnostics counter, whose reset() marks a roll-over and keeps the value): with F a failed
    keep-alive (timeout or EZSP error) and S a successful feed, a feed raises exactly when it is the (MAX+1)-th failure in a row;
    failures separated by a success never add up; the watchdog loop's start clears the run as well."""
    from ..pxv import ZCounterGroup

    repo = ctx.repo
    MAX = const(ctx, APP, "MAX_WATCHDOG_FAILURES", int)
    f = repo.func(f"{APP}:ControllerApplication._watchdog_feed")
    loop = repo.func(f"{APP}:ControllerApplication._watchdog_loop")
    ctx.fn(f)
    cls = app_cls(ctx)
    histories = {
        "run-of-failures": "F" * (MAX + 2),
        "success-in-between": "F" * (MAX // 2 + 1) + "S" + "F" * (MAX + 1),
        "alternating": "FS" * (MAX + 2),
        "almost-then-success": "F" * MAX + "S" + "F" * MAX + "S" + "F" * (MAX + 1),
        "loop-restart": "F" * MAX + "L" + "F" * (MAX + 1),
        "timeouts-and-errors": ("FE" * (MAX + 1))[:MAX + 1] + "S" + "E" * (MAX + 1),
    }
    if ctx.run.tier == "thorough":
        # every history of failed (timeout / EZSP error) and successful feeds up to length MAX + 3
        import itertools

        for n_ in range(1, MAX + 4):
            for combo in itertools.product("FES", repeat=n_):
                histories["all:" + "".join(combo)] = "".join(combo)
    for ver in (4, 8):
        for hname, hist in histories.items():
            if hname.startswith("all:") and ver == 4:
                continue
            step = {"i": 0}

            def keepalive(px_, t, a, k, fr):
                c = hist[step["i"]]
                return Outcomes(OK({})) if c == "S" else Outcomes(RAISE("EzspError" if c == "E" else "TimeoutError"))

            px = PX(repo, models=[(k, keepalive) for k in KEEPALIVE_CALLS] + [("self._get_free_buffers", Outcomes(OK(None))), ("await:super()._watchdog_loop", Outcomes(OK(None))),
                                                                             ("super()._watchdog_loop", Outcomes(OK(None)))], inline=same_class())
            px.inline.root = f
            got = []

            def entry():
                got.clear()
                ez = Obj(TypeRef("EZSP"), {"ezsp_version": ver}, tag="self._ezsp")
                state = Obj(TypeRef("State"), {"counters": ZCounterGroup(1)}, tag="state")
                me = self_obj(cls, {"_ezsp": ez, "_watchdog_failures": 0, "_watchdog_feed_counter": 0, "state": state})
                px.top_frame = None
                for i, c in enumerate(hist):
                    step["i"] = i
                    if c == "L":
                        px.call_function(loop, me, [], {}, None)
                        got.append("L")
                        continue
                    try:
                        px.call_function(f, me, [], {}, None)
                        got.append("-")
                    except Exc as ex:
                        if ex.cls_name not in ("TimeoutError", "EzspError"):
                            raise
                        got.append("R")
                return None

            want, run = [], 0
            for c in hist:
                if c == "L":
                    run = 0
                    want.append("L")
                elif c == "S":
                    run = 0
                    want.append("-")
                else:
                    run += 1
                    want.append("R" if run > MAX else "-")
            paths = px._run(entry)
            if len(paths) != 1:
                raise AnalysisError(f"watchdog history {hname}: {len(paths)} paths on fixed outcomes")
            p = paths[0]
            ctx.paths += 1
            ctx.require(p.terminal == "return" and got == want, f"history:{'exhaustive' if hname.startswith('all:') else hname}",
                        f"v{ver}, feeds {hist} (F/E failed keep-alive, S success, L loop restart; tolerated run {MAX}): feeds raise at {''.join(got)}, must raise at "
                        f"{''.join(want)} ({p.terminal} {p.value if p.terminal == 'raise' else ''})", func=f, trace=p.trace(30))
