"""ASH link rules: receiver (C04), sender (C05), link as a whole (C01)."""
from __future__ import annotations

import ast

from ..core import rule
from ..errors import AnalysisError
from ..idx import index
from ..px import OK, PX, RAISE, Outcomes
from ..pxv import Obj, Sym
from ..te import ClassRef, FuncRef, Member
from .util import anchor_attrs
from .util import acquire_release_use, const, fut, member, self_obj, text, who_may_call

ASH = "bellows.ash"


def ash_cls(ctx):
    return ctx.repo.cls(ASH, "AshProtocol")


def inline_ash(stop=()):
    def pol(f: FuncRef, awaited):
        if f.name in stop or (f.is_async and not awaited):
            return False
        if f.name == "replace" and f.mod == ASH:
            return True  # the frames' dataclass copy helper
        # methods of the protocol class, and module-level helpers of the ASH module (extracting one must not change a verdict)
        return (f.cls is not None and f.cls.name == "AshProtocol") or (f.cls is None and f.mod == ASH)

    return pol


def upward(e):
    return e.kind in ("call", "await") and e.what.startswith("self._ezsp_protocol.")


def frame_obj(ctx, cls_name, **fields):
    return Obj(ctx.repo.cls(ASH, cls_name), fields, tag="frame")


def is_frame(v, *names):
    return isinstance(v, Obj) and v.cls_name in names


def confined_writers(ctx, attr, visited, init_names, label, props=None):
    """Every function writing ``.attr`` is either an initialiser or was explored (inlined) by the rules that
    decide the attribute's behaviour; every other caller of such a helper is explored as well."""
    ws = index(ctx.repo).writers(attr)
    ctx.anchor(ws, f"no writer of .{attr}")
    for f, n, kind in ws:
        ctx.call_sites += 1
        short = f.short
        if short in init_names or getattr(f, "qual", None) in visited:
            ctx.ok(1, (attr, short))
        else:
            ctx.violation(f"{attr}:writer:{short}", f"'{attr}' is written ({kind}) in {short}, which is outside the "
                          f"functions whose behaviour {label} decides (explored: "
                          f"{sorted(q.split(':')[1] for q in visited)})", func=f, node=n, construct=text(n)[:100], props=props)


# =============================================================================== C04
@rule("R04.1", ["C04", "C01", "C02"], "T-FUN", floor=128)
def r04_1(ctx):
    """Receiver transfer function: for every frmNum, expected number (0..7) and reTx flag, the payload is handed
    up iff frmNum == expected; then expected' = (expected+1) % 8 else unchanged; exactly one ACK/NAK is written
    directly (no await, timer or task), it carries expected', and it is an ACK when the frame was accepted or is a
    retransmission (reTx set) of any other number."""
    anchor_attrs(ctx, "AshProtocol", "_rx_seq", "_ezsp_protocol")
    repo = ctx.repo
    f = repo.func(f"{ASH}:AshProtocol.data_frame_received")
    ctx.fn(f)
    cls = ash_cls(ctx)
    px = PX(repo, inline=inline_ash(stop=("_write_frame",)))
    # second explorer: the upper layer's data_received may raise while the accepted frame is handed up; the frame
    # has been handed up all the same, so the answer must still be the ACK and the expected number must advance
    # (a NAK / unchanged number makes the NCP retransmit and the payload is handed up twice)
    px_up = PX(repo, inline=inline_ash(stop=("_write_frame",)),
               models=[("self._ezsp_protocol.data_received", Outcomes(OK(None), RAISE("Exception")))])
    visited = ctx.run.shared.setdefault("rx_seq_visited", set())
    for frm in range(8):
        for rx in range(8):
            for re_tx in (0, 1):
                def setup():
                    return (self_obj(cls, {"_rx_seq": rx}),
                            {"frame": frame_obj(ctx, "DataFrame", frm_num=frm, re_tx=re_tx, ack_num=Sym("ack"),
                                                ezsp_frame=Sym("payload"))})

                paths = px.explore(f, setup)
                if frm == rx:
                    paths = paths + [q for q in px_up.explore(f, setup)
                                     if any(upward(e) and str(e.extra).startswith("raises") for e in q.events)]
                ctx.paths += len(paths)
                key = f"frm={frm},expected={rx},reTx={re_tx}"
                exp_rx = (rx + 1) % 8 if frm == rx else rx
                for p in paths:
                    bad = None
                    ups = [e for e in p.events if upward(e)]
                    deliver = [e for e in ups if e.what.endswith(".data_received")]
                    other = [e for e in ups if not e.what.endswith(".data_received")]
                    writes = [e for e in p.events if e.kind == "call" and e.what.endswith("_write_frame")]
                    up_raised = any(str(e.extra).startswith("raises") for e in deliver)
                    if up_raised:
                        key = f"frm={frm},expected={rx},reTx={re_tx},upper-layer-raises"
                    if p.terminal != "return" and not (up_raised and p.terminal == "raise" and getattr(p.value, "cls_name", "") == "Exception"):
                        bad = f"raises {p.value!r}"
                    elif other:
                        bad = f"unexpected upward call {other[0].what}"
                    elif frm == rx and len(deliver) != 1:
                        bad = f"in-sequence frame delivered {len(deliver)} times"
                    elif frm != rx and deliver:
                        bad = "out-of-sequence frame delivered upward"
                    elif deliver and not (deliver[0].args and deliver[0].args[0] == Sym("payload")):
                        bad = f"delivered value is not the frame's payload: {deliver[0].args!r}"
                    elif p.store["self"].get("_rx_seq") != exp_rx:
                        bad = f"expected number becomes {p.store['self'].get('_rx_seq')!r}, must be {exp_rx}"
                    elif len(writes) != 1:
                        bad = f"{len(writes)} ACK/NAK frames written, must be exactly 1"
                    else:
                        w = writes[0]
                        fr = w.args[0] if w.args else None
                        if not is_frame(fr, "AckFrame", "NakFrame"):
                            bad = f"written frame is {fr!r}, not an ACK/NAK"
                        elif fr.fields.get("ack_num") != exp_rx:
                            bad = f"{fr.cls_name} carries ackNum {fr.fields.get('ack_num')!r}, next expected is {exp_rx}"
                        elif frm == rx and fr.cls_name != "AckFrame":
                            bad = "accepted frame answered with a NAK"
                        elif frm != rx and re_tx and fr.cls_name != "AckFrame":
                            # UG101: a retransmitted frame that is out of sequence is acknowledged, whatever its number
                            # (the reference receiver of R04.5 / R02.6 does the same); a NAK makes the NCP repeat it again
                            bad = "retransmitted out-of-sequence frame answered with a NAK (the reference receiver acknowledges every retransmission)"
                        elif w.kwargs.get("prefix") or w.kwargs.get("suffix"):
                            bad = "ACK/NAK written with a non-default prefix/suffix"
                    reads = {k for k in p.store["self"] if isinstance(k, str)} - {"_rx_seq", "_ezsp_protocol"}
                    if reads:  # informational: the induction over frame sequences assumes the decision reads only the expected number
                        ctx.notes.append(f"data_frame_received also touches {sorted(reads)}") if len(ctx.notes) < 3 else None
                    if not bad:
                        for e in p.events:
                            if e.kind == "await" or any(s in e.what for s in ("call_later", "call_soon", "create_task", "ensure_future", "sleep")):
                                bad = f"answer is not written directly: {e.brief()}"
                                break
                    if bad:
                        ctx.violation(f"data_frame_received:{key}", f"{key}: {bad}", func=f, trace=p.trace(),
                                      construct=key)
                    else:
                        ctx.ok(1, key)
                if frm == 3 and rx == 3:
                    ctx.sample({"case": key, "trace": paths[0].trace()})
    visited |= px.visited


@rule("R04.2", ["C04", "C01", "C10", "C02"], "T-EXH", floor=7)
def r04_2(ctx):
    """frame_received routes each of the six frame classes: DATA -> at most one data_received and no reset
    notification; ACK/NAK/RST -> no upward call; RSTACK and ERROR -> exactly one reset_received(frame's code) on
    every path (whatever the link state); no class falls into the TypeError branch."""
    anchor_attrs(ctx, "AshProtocol", "_rx_seq", "_tx_seq", "_ncp_state", "_pending_data_frames")
    repo = ctx.repo
    f = repo.func(f"{ASH}:AshProtocol.frame_received")
    ctx.fn(f)
    cls = ash_cls(ctx)
    ns = repo.cls(ASH, "NcpState").members()
    px = PX(repo, inline=inline_ash(stop=("_write_frame", "_cancel_pending_data_frames", "_change_ack_timeout")))
    dispatch = dispatch_classes(ctx)
    for cname in dispatch:
        for st_name in ("CONNECTED", "FAILED"):
            def setup():
                fields = {"reset_code": Sym("code"), "frm_num": Sym("frm"), "re_tx": Sym("retx"), "ack_num": Sym("ack"),
                          "ezsp_frame": Sym("payload"), "version": 2}
                return (self_obj(cls, {"_rx_seq": Sym("rx"), "_tx_seq": Sym("tx"), "_pending_data_frames": {},
                                       "_ncp_state": ns[st_name]}),
                        {"frame": frame_obj(ctx, cname, **fields)})

            paths = px.explore(f, setup)
            ctx.paths += len(paths)
            for p in paths:
                ups = [e for e in p.events if upward(e)]
                dat = [e for e in ups if e.what.endswith(".data_received")]
                rst = [e for e in ups if e.what.endswith(".reset_received")]
                oth = [e for e in ups if e not in dat and e not in rst]
                bad = None
                if p.terminal != "return":
                    bad = f"raises {p.value!r}"
                elif oth:
                    bad = f"unexpected upward call {oth[0].what}"
                elif cname == "DataFrame":
                    if len(dat) > 1 or rst:
                        bad = f"DATA frame causes {len(dat)} deliveries / {len(rst)} reset notifications"
                elif cname in ("AckFrame", "NakFrame", "RstFrame"):
                    if ups:
                        bad = f"{cname} causes upward call {ups[0].what}"
                else:
                    if dat or len(rst) != 1:
                        bad = f"{cname} causes {len(rst)} reset notifications (must be exactly 1) and {len(dat)} deliveries"
                    elif not (rst[0].args and rst[0].args[0] == Sym("code")):
                        bad = f"reset notification carries {rst[0].args!r}, not the frame's reset code"
                key = f"{cname}@{st_name}"
                if bad:
                    ctx.violation(f"frame_received:{key}", f"{key}: {bad}", func=f, trace=p.trace(), construct=key)
                else:
                    ctx.ok(1, key)
    ctx.sample({"dispatch_classes": dispatch})


def dispatch_classes(ctx):
    """The frame classes of the ASH module: the concrete subclasses of AshFrame (each with its MASK / MASK_VALUE), in
    definition order - however parse_frame selects among them (list literal, module-level tuple, match statement)."""
    repo = ctx.repo
    names = []
    for st in repo.tree(ASH).body:
        if isinstance(st, ast.ClassDef) and st.name != "AshFrame":
            c = repo.cls(ASH, st.name)
            if "AshFrame" in c.base_names()[1:]:
                names.append(st.name)
    if len(names) < 6:
        raise AnalysisError(f"anchor vanished: the six ASH frame classes (found subclasses of AshFrame: {names})")
    return names


@rule("R04.3", ["C04", "C01", "C11", "C09", "C02"], "T-ORD", floor=1)
def r04_3(ctx):
    """RSTACK restarts numbering: on every path of rstack_frame_received both frame counters are set to zero
    before the upward notification, whose argument is the frame's own reset code, and the link state becomes
    CONNECTED.  Also as a history on one object: (reset requested or not) -> DATA frames 7..0 arrive, one of which is accepted -> RSTACK: both counters
    are 0 afterwards, from every expected number."""
    anchor_attrs(ctx, "AshProtocol", "_rx_seq", "_tx_seq", "_ncp_state")
    repo = ctx.repo
    f = repo.func(f"{ASH}:AshProtocol.rstack_frame_received")
    ctx.fn(f)
    cls = ash_cls(ctx)
    ns = repo.cls(ASH, "NcpState").members()
    px = PX(repo, inline=inline_ash(stop=("_write_frame", "_cancel_pending_data_frames", "_change_ack_timeout")))
    for tx in (0, 5):
        for st in ("CONNECTED", "FAILED"):
            def setup():
                return (self_obj(cls, {"_rx_seq": 7 - tx, "_tx_seq": tx, "_ncp_state": ns[st], "_pending_data_frames": {}}),
                        {"frame": frame_obj(ctx, "RStackFrame", reset_code=Sym("code"), version=2)})

            for p in px.explore(f, setup):
                ctx.paths += 1
                i = p.index(lambda e: upward(e) and e.what.endswith(".reset_received"))
                bad = None
                if p.terminal != "return":
                    bad = f"raises {p.value!r}"
                elif i < 0:
                    bad = "no upward reset notification"
                else:
                    before = p.events[:i]
                    z = {a: any(e.kind == "write" and e.what == f"self.{a}" and e.args and e.args[0] == 0 for e in before)
                         for a in ("_tx_seq", "_rx_seq")}
                    s = p.store["self"]
                    if not all(z.values()):
                        bad = f"counters not zeroed before the notification: {z}"
                    elif s.get("_tx_seq") != 0 or s.get("_rx_seq") != 0:
                        bad = f"counters end as tx={s.get('_tx_seq')!r} rx={s.get('_rx_seq')!r}"
                    elif s.get("_ncp_state") != ns["CONNECTED"]:
                        bad = f"link state ends as {s.get('_ncp_state')!r}"
                    elif p.events[i].args[:1] != (Sym("code"),):
                        bad = f"notification carries {p.events[i].args!r}"
                key = f"tx={tx},state={st}"
                if bad:
                    ctx.violation("rstack_frame_received", f"{key}: {bad}", func=f, trace=p.trace())
                else:
                    ctx.ok(1, key)
    ctx.run.shared.setdefault("rx_seq_visited", set()).update(px.visited)
    ctx.run.shared.setdefault("tx_seq_visited", set()).update(px.visited)
    # the handshake as a history on one object: the host asks for a reset, the NCP's frames that were already on the wire still
    # arrive (one of them is the expected one and is accepted), then the RSTACK arrives - numbering restarts at zero *then*, whatever
    # was done when the request was written (counters zeroed at the request are advanced again by the frames in between)
    fr_rx = repo.func(f"{ASH}:AshProtocol.frame_received")
    sr = repo.func(f"{ASH}:AshProtocol.send_reset")
    pxh = PX(repo, inline=inline_ash(stop=("_write_frame", "_cancel_pending_data_frames", "_change_ack_timeout")))
    pxh.inline_root = fr_rx
    for rx0 in range(8):
        for requested in (True, False):
            def entry():
                me = self_obj(cls, {"_rx_seq": rx0, "_tx_seq": (rx0 + 3) % 8, "_ncp_state": ns["CONNECTED"], "_pending_data_frames": {}})
                pxh.top_frame = None
                if requested:
                    pxh.call_function(sr, me, [], {}, None)
                for frm in reversed(range(8)):  # descending: exactly one of them is the expected one, whatever the expected number is
                    pxh.call_function(fr_rx, me, [frame_obj(ctx, "DataFrame", frm_num=frm, re_tx=0, ack_num=0, ezsp_frame=Sym(f"payload{frm}"))], {}, None)
                pxh.emit("mark", "rstack")
                pxh.call_function(fr_rx, me, [frame_obj(ctx, "RStackFrame", reset_code=Sym("code"), version=2)], {}, None)
                return (me.fields.get("_rx_seq"), me.fields.get("_tx_seq"))

            paths = pxh._run(entry)
            ctx.paths += len(paths)
            for p in paths:
                key = f"handshake:{'requested' if requested else 'unsolicited'}"
                ok = p.terminal == "return" and p.value == (0, 0)
                ctx.require(ok, f"rstack_frame_received:{key}", f"expected number {rx0} before; reset {'requested, ' if requested else 'not requested, '}"
                            f"DATA frames 7..0 arrive (one is accepted), then the RSTACK: counters (rx, tx) end as {p.value!r} ({p.terminal}); both must be 0 after the RSTACK",
                            func=f, trace=p.trace(30))


@rule("R04.4", ["C04", "C01", "C11"], "T-WMW", floor=3)
def r04_4(ctx):
    """The expected frame number is written only by the initialiser and by functions explored by R04.1 (accept
    branch) and R04.3 (RSTACK); the two handlers are invoked only from frame_received."""
    anchor_attrs(ctx, "AshProtocol", "_rx_seq")
    cls = ash_cls(ctx)
    px = PX(ctx.repo, inline=inline_ash(stop=("_write_frame", "_cancel_pending_data_frames", "_change_ack_timeout")))
    px.explore(ctx.repo.func(f"{ASH}:AshProtocol.data_frame_received"),
               lambda: (self_obj(cls, {"_rx_seq": 3}), {"frame": frame_obj(ctx, "DataFrame", frm_num=3, re_tx=0, ack_num=Sym("ack"), ezsp_frame=Sym("payload"))}))
    px.explore(ctx.repo.func(f"{ASH}:AshProtocol.rstack_frame_received"),
               lambda: (self_obj(cls, {"_pending_data_frames": {}}), {"frame": frame_obj(ctx, "RStackFrame", reset_code=Sym("code"), version=2)}))
    ctx.run.shared.setdefault("rx_seq_visited", set()).update(px.visited)
    visited = ctx.run.shared["rx_seq_visited"]
    confined_writers(ctx, "_rx_seq", visited, {"AshProtocol.__init__"}, "R04.1/R04.3")
    for name in ("data_frame_received", "rstack_frame_received"):
        who_may_call(ctx, name, {"AshProtocol.frame_received"})


# =============================================================================== C05
SEND = f"{ASH}:AshProtocol._send_data_frame"
ACK_OUTCOMES = Outcomes(OK(True), RAISE("NotAcked"), RAISE("NcpFailure"), RAISE("TimeoutError"), RAISE("CancelledError"))


def explore_send(ctx, tx_seq=5, outcomes=ACK_OUTCOMES, states=("CONNECTED", "FAILED"), extra_models=(), rx_values=None, extra_volatile=None):
    repo = ctx.repo
    f = repo.func(SEND)
    cls = ash_cls(ctx)
    ns = repo.cls(ASH, "NcpState").members()
    px = PX(repo, models=[("await:*", outcomes)] + list(extra_models), fork_loop_bound=const(ctx, ASH, "ACK_TIMEOUTS", int) + 2,
            inline=inline_ash(stop=("_write_frame", "_cancel_pending_data_frames", "_change_ack_timeout")))

    def setup():
        vol = {"_ncp_state": [ns[n] for n in states]}
        vol.update(extra_volatile or {})
        if rx_values:
            vol["_rx_seq"] = list(rx_values)  # frames from the NCP are accepted between the attempts: the expected number moves on
        s = self_obj(cls, {"_tx_seq": tx_seq, **({} if rx_values else {"_rx_seq": Sym("rx")}), "_pending_data_frames": {},
                           "_t_rx_ack": Sym("t_rx_ack")},
                     volatile=vol)
        return s, {"frame": frame_obj(ctx, "DataFrame", frm_num=Sym("caller.frm_num"), re_tx=Sym("caller.re_tx"), ack_num=Sym("caller.ack_num"),
                                      ezsp_frame=Sym("payload"))}

    paths = px.explore(f, setup)
    return f, px, paths, ns


def send_writes(p):
    return [e for e in p.events if e.kind == "call" and e.what.endswith("_write_frame")]


def send_awaits(p):
    return [e for e in p.events if e.kind == "await"]


def ncp_state_at(p, epoch):
    for k, v in p.assumes:
        if k == f"volatile:self._ncp_state@{epoch}":
            return v
    return None


@rule("R05.1", ["C05", "C01", "C10", "C11"], "T-FUN", floor=100)
def r05_send_skeleton(ctx):
    """One send, all paths over per-attempt outcomes {acked, NAK, NcpFailure, timeout, cancellation} and the
    failed-state flag at every gate: at most ACK_TIMEOUTS DATA writes (R05.1); every write carries the one frame
    number taken from the send counter, the written frame is the caller's frame with only
    frm_num/re_tx/ack_num replaced (R05.2); re_tx is false on the first write and true on every repeat (R05.3);
    every write happens in an event-loop turn in which the link state was read as CONNECTED, a FAILED reading
    raises without writing (R05.5); budget exhaustion by NAK or timeout leads to exactly one failed-state entry
    with upward notification and nothing else does (R05.7); normal return iff the last wait ended acknowledged,
    the pending entry is removed on every exit (R05.8); everything happens inside the single-slot semaphore
    (R05.9)."""
    anchor_attrs(ctx, "AshProtocol", "_tx_seq", "_rx_seq", "_ncp_state", "_pending_data_frames", "_t_rx_ack", "_send_data_frame_semaphore")
    N = const(ctx, ASH, "ACK_TIMEOUTS", int)
    ctx.anchor(N >= 1, "ACK_TIMEOUTS >= 1")
    # quick tier: the send counter at 5 (R05.2 covers the successor for every value); thorough tier: all paths for every counter value
    for tx0 in (range(8) if ctx.run.tier == "thorough" else (5,)):
        f, px, paths, ns = explore_send(ctx, tx_seq=tx0)
        ctx.fn(f)
        ctx.paths += len(paths)
        ctx.anchor(len(paths) >= 20, f"_send_data_frame explored only {len(paths)} paths")
        ctx.run.shared.setdefault("tx_seq_visited", set()).update(px.visited)
        for p in paths:
            ws, aw = send_writes(p), send_awaits(p)
            pid = "/".join(str(e.extra).replace("raises ", "") for e in aw) or "-"
            bad = None
            # R05.1
            if len(ws) > N:
                bad = f"R05.1 {len(ws)} DATA writes in one send (budget {N})"
            # R05.2 / R05.3
            for k, w in enumerate(ws):
                if bad:
                    break
                fr = w.args[0] if w.args else None
                if not is_frame(fr, "DataFrame"):
                    bad = f"R05.2 write #{k} sends {fr!r}, not a DATA frame built from the caller's frame"
                    break
                kw = fr.fields
                if kw.get("ezsp_frame") != Sym("payload"):
                    bad = f"R05.2 write #{k} carries payload {kw.get('ezsp_frame')!r}, not the caller's payload"
                elif kw.get("frm_num") != tx0:
                    bad = f"R05.2 write #{k} carries frame number {kw.get('frm_num')!r}, the send took {tx0}"
                elif bool(kw.get("re_tx")) != (k > 0) or isinstance(kw.get("re_tx"), Sym):
                    bad = f"R05.3 write #{k} has re_tx={kw.get('re_tx')!r}"
                elif kw.get("ack_num") != Sym("rx"):
                    bad = f"R05.2 write #{k} carries ack_num {kw.get('ack_num')!r}, not the current expected number"
            txw = [e for e in p.events if e.kind == "write" and e.what == "self._tx_seq"]
            if not bad and ws:
                if len(txw) != 1 or txw[0].args[0] != (tx0 + 1) % 8:
                    bad = f"R05.2 send counter written {[e.args[0] for e in txw]!r}, must advance once to {(tx0 + 1) % 8}"
                elif p.events.index(txw[0]) > p.events.index(ws[0]):
                    bad = "R05.2 send counter advanced after the first write"
            if not bad and not ws and txw:
                pass  # number consumed without a write is tolerated only if the path raises (checked below)
            # R05.5 gate
            if not bad:
                for k, w in enumerate(ws):
                    st = ncp_state_at(p, w.epoch)
                    if st is None:
                        bad = f"R05.5 write #{k} is not preceded, in the same event-loop turn, by a test of the link state"
                    elif st != ns["CONNECTED"]:
                        bad = f"R05.5 write #{k} happens although the link state was read as {st!r}"
                    if bad:
                        break
            if not bad:
                for k, v in p.assumes:
                    if k.startswith("volatile:self._ncp_state@") and v == ns["FAILED"]:
                        ep = int(k.rsplit("@", 1)[1])
                        later = [w for w in ws if w.epoch >= ep]
                        if later or not p.raised("NcpFailure"):
                            bad = f"R05.5 link state read as FAILED but the send {'writes again' if later else 'does not raise NcpFailure'}"
            # R05.7 exhaustion
            fails = [e for e in p.events if e.kind == "call" and e.what.endswith("_enter_failed_state")]
            notif = [e for e in p.events if upward(e) and e.what.endswith(".reset_received")]
            last = str(aw[-1].extra) if aw else ""
            exhausted = len(ws) == N and len(aw) == N and last in ("raises NotAcked", "raises TimeoutError")
            if not bad:
                if exhausted and (len(fails) != 1 or len(notif) != 1):
                    bad = f"R05.7 budget exhausted by {last[7:]} but failed state entered {len(fails)}x, upper layer told {len(notif)}x"
                elif exhausted and p.terminal != "raise":
                    bad = "R05.7 budget exhausted but the send returns normally"
                elif not exhausted and (fails or notif):
                    bad = f"R05.7 failed state entered although the budget is not exhausted ({len(ws)} writes, last outcome {last})"
            # R05.8
            if not bad:
                if p.terminal == "return" and not (aw and aw[-1].extra is True):
                    bad = f"R05.8 send returns normally although its last wait ended with {last or 'nothing'}"
                elif p.terminal == "raise" and aw and aw[-1].extra is True and not any(v == ns["FAILED"] for _, v in p.assumes):
                    bad = f"R05.8 acknowledged send raises {p.value!r}"
                elif p.store["self"].get("_pending_data_frames") != {}:
                    bad = f"R05.8 pending entry left behind: {p.store['self'].get('_pending_data_frames')!r}"
            # after a NAK or timeout (not last) the very next event of interest is another gate+write or a raise
            if not bad:
                for i, e in enumerate(aw[:-1]):
                    if str(e.extra) in ("raises NcpFailure", "raises CancelledError") or e.extra is True:
                        bad = f"R05.8 attempt continues after outcome {e.extra!r}"
            # R05.9 semaphore
            if not bad:
                for w in ws:
                    if not any(c.endswith("_send_data_frame_semaphore") for c in w.ctx):
                        bad = "R05.9 DATA write outside the transmit-window semaphore"
                for e in aw:
                    if not any(c.endswith("asyncio_timeout") for c in e.ctx):
                        bad = "R05.4 acknowledgement wait is not inside asyncio_timeout"
            if bad:
                ctx.violation(f"_send_data_frame:{bad.split(' ')[0]}", f"path [{pid}]: {bad}", func=f, trace=p.trace(90),
                              construct=bad.split(" ")[0])
            else:
                ctx.ok(1, pid)
        # paths abandoned by the explorer's loop bound: an attempt loop that is still writing DATA frames after the budget
        # is a violation in its own right (the loop is not bounded by ACK_TIMEOUTS)
        for p in px.truncated_paths:
            n_w = len(send_writes(p))
            if n_w > N:
                ctx.violation("_send_data_frame:R05.1", f"R05.1 the attempt loop is still writing after {n_w} DATA writes "
                              f"(budget {N}); outcomes so far: {[str(e.extra) for e in send_awaits(p)][:12]}", func=f,
                              trace=p.trace(60), construct="R05.1")
                break
    # the port is closed (a deliberate close, with this send queued behind another one): the write is refused.  The send fails with
    # NcpFailure; it must not report an NCP failure upward - a deliberate close produces no controller-reset request
    f, pxc, cpaths, ns = explore_send(ctx, states=("CONNECTED",), extra_models=[("self._write_frame", Outcomes(RAISE("NcpFailure")))])
    ctx.anchor(len(cpaths) >= 1, "closed-transport scenario explored no path")
    for p in cpaths:
        fails = [e for e in p.events if e.kind == "call" and e.what.endswith("_enter_failed_state")]
        notif = [e for e in p.events if upward(e)]
        st = [e for e in p.events if e.kind == "write" and e.what == "self._ncp_state"]
        bad = None
        if not p.raised("NcpFailure"):
            bad = f"ends with {p.terminal} {p.value!r} instead of raising NcpFailure"
        elif fails or notif or st:
            bad = f"reports a link failure ({[e.what for e in (fails + notif + st)][:3]}): after a deliberate close the application would get a controller-reset request"
        elif p.store["self"].get("_pending_data_frames") != {}:
            bad = f"pending entry left behind: {p.store['self'].get('_pending_data_frames')!r}"
        ctx.require(not bad, "_send_data_frame:closed-transport", f"write refused because the transport is closed: the send {bad}", func=f, trace=p.trace(40))
    # timeout argument is the adaptive timeout
    for p in paths[:50]:
        for e in p.events:
            if e.kind == "enter" and e.what.endswith("asyncio_timeout"):
                ctx.require(e.args[:1] == (Sym("t_rx_ack"),), "ack-timeout-arg",
                            f"R05.4 acknowledgement wait uses timeout {e.args!r}, not the clamped self._t_rx_ack", func=f)
    ctx.sample({"paths": len(paths), "example": paths[len(paths) // 2].trace(40)})


def _counters_reset_from_outside(ctx):
    """Bookkeeping the send keeps in *new* attributes of the protocol object (a failure counter, say) that a frame handler also
    writes - reset "because the NCP is alive" by any ACK frame - can change while the send waits: such attributes are explored as
    volatile (either untouched or reset to the handler's constant at every wait).  Whatever they do, a send whose every attempt
    meets silence ends by raising after exactly ACK_TIMEOUTS transmissions with the failed state entered once - it never
    returns normally without an acknowledgement."""
    from .util import _pinned_attrs, init_constants

    repo = ctx.repo
    cls = ash_cls(ctx)
    N = const(ctx, ASH, "ACK_TIMEOUTS", int)
    try:
        known = _pinned_attrs(cls)
        consts = init_constants(cls)
    except AnalysisError:
        return
    vol = {}
    for a, thunk in consts.items():
        if a in known or not isinstance(thunk(), int) or isinstance(thunk(), bool):
            continue
        vals = set()
        for g, n, kind in index(repo).writers(a):
            if g.cls is None or g.cls.name != "AshProtocol" or g.name in ("__init__", "_send_data_frame"):
                continue
            for st in ast.walk(g.node):
                if isinstance(st, ast.Assign) and any(t is n for t in st.targets) and isinstance(st.value, ast.Constant) and isinstance(st.value.value, int):
                    vals.add(st.value.value)
        if vals:
            vol[a] = sorted(vals) + ["__keep__"]
    if not vol:
        ctx.ok(1, "no-new-shared-counters")
        return
    f, px, paths, ns = explore_send(ctx, 5, Outcomes(RAISE("TimeoutError")), states=("CONNECTED",), extra_volatile=vol)
    for p in paths:
        ws, aw = send_writes(p), send_awaits(p)
        fails = [e for e in p.events if e.kind == "call" and e.what.endswith("_enter_failed_state")]
        ok = p.terminal == "raise" and len(ws) <= N and (len(ws) < N or len(fails) == 1)
        ctx.require(ok, "_send_data_frame:counter-reset-from-outside", f"every attempt meets silence while {sorted(vol)} is reset by a frame handler during the waits: the send "
                    f"writes {len(ws)} frames (budget {N}), {p.terminal}s {p.value if p.terminal == 'raise' else ''}, failed state entered {len(fails)}x; it must raise after "
                    "the budget with the failed state entered once", func=f, trace=p.trace(30), props=("C05", "C01"))


def _fresh_ack_numbers(ctx):
    """Every (re)transmission carries the acknowledgement number that is current when it is written: the expected number is
    made to change between attempts (the NCP's own frames keep arriving and are accepted while the host retransmits) and each
    written DATA frame must carry the value read in the very event-loop turn of that write - a frame built once and repeated
    with only the reTx flag flipped acknowledges less than the host has already acknowledged, which a validating NCP rejects."""
    f, px, paths, ns = explore_send(ctx, 5, Outcomes(OK(True), RAISE("TimeoutError")), states=("CONNECTED",), rx_values=(3, 6))
    n_w = 0
    for p in paths:
        for k, w in enumerate(send_writes(p)):
            fr = w.args[0] if w.args else None
            if not is_frame(fr, "DataFrame"):
                continue
            n_w += 1
            cur = next((v for key, v in p.assumes if key == f"volatile:self._rx_seq@{w.epoch}"), None)
            got = fr.fields.get("ack_num")
            ctx.require(cur is not None and got == cur, "_send_data_frame:stale-ack-number",
                        f"write #{k} of one send carries ackNum {got!r}; the expected number " +
                        (f"read in that turn is {cur!r}" if cur is not None else "is not read in the turn of the write (a value from an earlier attempt is repeated)"),
                        func=f, trace=p.trace(20), props=("C05", "C01", "C09"))
    ctx.anchor(n_w >= 4, "writes examined for fresh acknowledgement numbers")


@rule("R05.2", ["C05", "C01", "C09"], "T-FUN", floor=16)
def r05_2(ctx):
    """Frame numbers are consecutive modulo 8: for every value 0..7 of the send counter the send uses exactly
    that number and stores (value + 1) % 8; the counter is written only by initialisers and explored functions."""
    _fresh_ack_numbers(ctx)
    _counters_reset_from_outside(ctx)
    for t in range(8):
        f, px, paths, ns = explore_send(ctx, tx_seq=t, outcomes=Outcomes(OK(True)), states=("CONNECTED",))
        ctx.paths += len(paths)
        for p in paths:
            ws = send_writes(p)
            sent = ws[0].args[0] if ws and ws[0].args else None
            num = sent.fields.get("frm_num") if is_frame(sent, "DataFrame") else None
            ok = (len(ws) == 1 and num == t and p.store["self"].get("_tx_seq") == (t + 1) % 8)
            ctx.require(ok, f"tx_seq={t}", f"send counter {t}: frame number {num!r}, "
                        f"counter becomes {p.store['self'].get('_tx_seq')!r} (must be {t} and {(t + 1) % 8})",
                        func=f, trace=p.trace(), props=("C05", "C01"))
        ctx.run.shared.setdefault("tx_seq_visited", set()).update(px.visited)
    # RSTACK handling also (re)sets the counter: explore it here so that this rule does not depend on another rule's run
    rs = ctx.repo.func(f"{ASH}:AshProtocol.rstack_frame_received")
    pxr = PX(ctx.repo, inline=inline_ash(stop=("_write_frame", "_cancel_pending_data_frames", "_change_ack_timeout")))
    pxr.explore(rs, lambda: (self_obj(ash_cls(ctx), {"_pending_data_frames": {}}), {"frame": frame_obj(ctx, "RStackFrame", reset_code=Sym("code"), version=2)}))
    ctx.run.shared["tx_seq_visited"].update(pxr.visited)
    confined_writers(ctx, "_tx_seq", ctx.run.shared["tx_seq_visited"], {"AshProtocol.__init__"}, "R05.1/R05.2/R04.3", props=("C05", "C01"))


@rule("R05.4", ["C05"], "T-BND", floor=20)
def r05_4(ctx):
    """The adaptive acknowledgement timeout always lies in [T_RX_ACK_MIN, T_RX_ACK_MAX] = [0.4, 3.2]: the value
    stored by _change_ack_timeout equals clamp(x) on a grid containing every breakpoint, the initial value lies in
    the interval, and nothing else writes it."""
    repo = ctx.repo
    lo, hi, init = (const(ctx, ASH, n) for n in ("T_RX_ACK_MIN", "T_RX_ACK_MAX", "T_RX_ACK_INIT"))
    ctx.require((lo, hi) == (0.4, 3.2), "bounds", f"T_RX_ACK_MIN/MAX are {lo}/{hi}, the ASH specification says 0.4/3.2")
    ctx.require(lo <= init <= hi, "init", f"T_RX_ACK_INIT {init} outside [{lo}, {hi}]")
    f = repo.func(f"{ASH}:AshProtocol._change_ack_timeout")
    ctx.fn(f)
    cls = ash_cls(ctx)
    px = PX(repo, inline=inline_ash())
    grid = [-1e9, -1.0, 0.0, lo - 1e-6, lo, lo + 1e-6, (lo + hi) / 2, init, hi - 1e-6, hi, hi + 1e-6, 2 * hi, 1e9]
    for cur in (lo, init, hi):
        for x in grid:
            def setup():
                return self_obj(cls, {"_t_rx_ack": cur}), {"new_value": x}

            for p in px.explore(f, setup):
                ctx.case(1)
                v = p.store["self"].get("_t_rx_ack")
                want = max(lo, min(x, hi))
                ctx.require(p.terminal == "return" and v == want, f"clamp({x})",
                            f"_change_ack_timeout({x}) stores {v!r}, clamp gives {want}", func=f, trace=p.trace())
    confined_writers(ctx, "_t_rx_ack", px.visited, {"AshProtocol.__init__"}, "R05.4")
    # __init__ stores the initial constant
    initf = repo.func(f"{ASH}:AshProtocol.__init__")
    st = [n for n in ast.walk(initf.node) if isinstance(n, ast.Assign) and any(text(t) == "self._t_rx_ack" for t in n.targets)]
    ctx.anchor(st, "AshProtocol.__init__ assigns _t_rx_ack")
    v = repo.te.ev(st[0].value, repo.module(ASH), ASH)
    ctx.require(isinstance(v, (int, float)) and lo <= v <= hi, "init-store", f"__init__ stores {v!r} as the initial timeout")


@rule("R05.6", ["C05", "C10"], "T-WMW", floor=5)
def r05_6(ctx):
    """Link state: FAILED is stored only by error_frame_received and _enter_failed_state; CONNECTED only by the
    initialiser, rstack_frame_received and rst_frame_received (frozen exception: a conforming NCP never sends RST)."""
    repo = ctx.repo
    ns = repo.cls(ASH, "NcpState").members()
    allowed = {"FAILED": {"AshProtocol.error_frame_received", "AshProtocol._enter_failed_state"},
               "CONNECTED": {"AshProtocol.__init__", "AshProtocol.rstack_frame_received", "AshProtocol.rst_frame_received"}}
    ws = index(repo).writers("_ncp_state")
    ctx.anchor(ws, "writers of _ncp_state")
    for f, n, kind in ws:
        ctx.call_sites += 1
        # find the assigned value
        val = None
        for st in ast.walk(f.node):
            if isinstance(st, (ast.Assign, ast.AnnAssign)):
                tg = st.targets if isinstance(st, ast.Assign) else [st.target]
                if any(t is n for t in tg) and st.value is not None:
                    try:
                        val = repo.te.ev(st.value, repo.module(f.mod), f.mod)
                    except AnalysisError:
                        val = None
        name = val.name if isinstance(val, Member) and val.cls.name == "NcpState" else None
        if name is None:
            ctx.violation(f"_ncp_state:store:{f.short}", f"{f.short} stores a link state that cannot be resolved: {text(n)}",
                          func=f, node=n)
        else:
            # a private helper that stores the state counts as its callers: every way of reaching it must pass through a confirmed
            # writer (references other than calls - the method handed around as a value - count as unconfined callers)
            def confined(g, seen=()):
                if g.short in allowed[name]:
                    return True
                if g.short in seen or len(seen) > 4 or g.cls is None or g.cls.name != "AshProtocol" or not g.name.startswith("_") or g.name.startswith("__"):
                    return False
                calls = [c for c, _ in index(repo).callers(g.name) if not c.mod.startswith("bellows.cli")]
                refs = [c for c, _ in index(repo).references(g.name) if not c.mod.startswith("bellows.cli")]
                return bool(calls) and len(refs) == len(calls) and all(confined(c, seen + (g.short,)) for c in calls)

            ctx.require(confined(f), f"_ncp_state:{name}:{f.short}",
                        f"link state {name} is stored by {f.short}, which is not (only) reached from the confirmed writers of {name}: {sorted(allowed[name])}",
                        func=f, node=n)
    for name in ("error_frame_received", "rst_frame_received"):
        who_may_call(ctx, name, {"AshProtocol.frame_received"})


@rule("R05.7", ["C05", "C10", "C02"], "T-ORD", floor=4)
def r05_7(ctx):
    """Entering the failed state (and an ERROR frame) stores FAILED, fails every pending acknowledgement future
    that is still open with NcpFailure, and tells the upper layer exactly once with the reason, on every path and
    from every prior link state."""
    anchor_attrs(ctx, "AshProtocol", "_ncp_state", "_pending_data_frames")
    repo = ctx.repo
    cls = ash_cls(ctx)
    ns = repo.cls(ASH, "NcpState").members()
    px = PX(repo, inline=inline_ash(stop=("_write_frame", "_change_ack_timeout")),
            models=[("*.done", lambda px, t, a, k, fr: getattr(px, "_done", False))])
    for fname, args in (("_enter_failed_state", lambda: {"reset_code": Sym("code")}),
                        ("error_frame_received", lambda: {"frame": frame_obj(ctx, "ErrorFrame", reset_code=Sym("code"), version=2)})):
        f = repo.func(f"{ASH}:AshProtocol.{fname}")
        ctx.fn(f)
        for st in ("CONNECTED", "FAILED"):
            for done in (False, True):
                px._done = done

                def setup():
                    return (self_obj(cls, {"_ncp_state": ns[st], "_pending_data_frames": {3: fut("fut3"), 4: fut("fut4")}}),
                            args())

                for p in px.explore(f, setup):
                    ctx.paths += 1
                    notif = [e for e in p.events if upward(e)]
                    setx = [e for e in p.events if e.kind == "call" and e.what.endswith(".set_exception")]
                    bad = None
                    if p.terminal != "return":
                        bad = f"raises {p.value!r}"
                    elif len(notif) != 1 or not notif[0].what.endswith(".reset_received") or notif[0].args[:1] != (Sym("code"),):
                        bad = f"upper layer told {[e.brief() for e in notif]} (must be exactly one reset_received(code))"
                    elif p.store["self"].get("_ncp_state") != ns["FAILED"]:
                        bad = f"link state ends as {p.store['self'].get('_ncp_state')!r}"
                    elif not done and ({e.callee for e in setx} != {"fut3.set_exception", "fut4.set_exception"}
                                       or not all(isinstance(e.args[0], Obj) and e.args[0].cls_name == "NcpFailure" for e in setx)):
                        bad = f"open pending futures not failed with NcpFailure: {[e.brief() for e in setx]}"
                    elif done and setx:
                        bad = "a completed future is completed again"
                    key = f"{fname}@{st},done={done}"
                    if bad:
                        # a raise (or a second completion, which raises InvalidStateError) inside the receive callback also convicts C02
                        escapes = p.terminal != "return" or (done and setx)
                        ctx.violation(f"{fname}", f"{key}: {bad}", func=f, trace=p.trace(), props=None if escapes else ("C05", "C10"))
                    else:
                        ctx.ok(1, key)


@rule("R05.9", ["C05", "C01"], "T-PAIR", floor=3)
def r05_9(ctx):
    """One unacknowledged frame: the transmit-window semaphore is asyncio.Semaphore(TX_K) with TX_K = 1 and is
    used only as the `async with` around the attempt loop (plus the read-only locked() query)."""
    repo = ctx.repo
    k = const(ctx, ASH, "TX_K", int)
    ctx.require(k == 1, "TX_K", f"TX_K is {k}; the one-outstanding-frame clause needs 1")
    uses = index(repo).references("_send_data_frame_semaphore")
    stores = index(repo).writers("_send_data_frame_semaphore")
    ctx.anchor(stores, "semaphore is created")
    for f, n, kind in stores:
        ok = f.short == "AshProtocol.__init__"
        if ok:
            st = [s for s in ast.walk(f.node) if isinstance(s, ast.Assign) and any(t is n for t in s.targets)]
            v = st[0].value if st else None
            ok = (isinstance(v, ast.Call) and text(v.func).endswith("Semaphore") and len(v.args) == 1
                  and repo.te.ev(v.args[0], repo.module(ASH), ASH) == k)
        ctx.require(ok, f"semaphore-store:{f.short}", f"transmit-window semaphore assigned in {f.short}: {text(n)} "
                    f"(must be asyncio.Semaphore(TX_K) in __init__)", func=f, node=n)
    for f, n in uses:
        parent_ok = False
        for p in ast.walk(f.node):
            if isinstance(p, ast.AsyncWith) and any(it.context_expr is n for it in p.items):
                # (which function holds the `async with` is R05.1's business: every DATA write must happen inside it)
                parent_ok = f.cls is not None and f.cls.name == "AshProtocol"
            if isinstance(p, ast.Attribute) and p.value is n and p.attr not in ("acquire", "release", "_waiters", "_value", "__aenter__", "__aexit__") \
                    and isinstance(p.ctx, ast.Load):
                parent_ok = True  # a read-only query (locked() ...)
            if isinstance(p, ast.Call) and isinstance(p.func, ast.Attribute) and p.func.attr == "enter_async_context" and any(a is n for a in p.args):
                # entered through a contextlib.AsyncExitStack: the same acquire / release-on-every-exit pairing as `async with`
                parent_ok = f.cls is not None and f.cls.name == "AshProtocol"
        if not parent_ok and f.cls is not None and f.cls.name == "AshProtocol" and acquire_release_use(f.node, n):
            parent_ok = True  # `await sem.acquire()` + try/finally `sem.release()`: the explicit spelling of `async with`
        ctx.require(parent_ok, f"semaphore-use:{f.short}", f"transmit-window semaphore used in {f.short} other than as "
                    f"`async with` / locked(): line {n.lineno}", func=f, node=n)


# =============================================================================== C01
@rule("R01.1", ["C01", "C10", "C05"], "T-WMC", floor=1)
def r01_1(ctx):
    """A send cannot be aborted by cancelling its caller: what send_data awaits is asyncio.shield(...) of a task created
    (create_task / eager task / ensure_future) from the coroutine self._send_data_frame(frame) of the caller's frame - in
    whatever way the three calls are written (nested, through temporaries or helpers) - and _send_data_frame is not
    started anywhere else."""
    repo = ctx.repo
    f = repo.func(f"{ASH}:AshProtocol.send_data")
    ctx.fn(f)
    cls = ash_cls(ctx)
    # task creation / shielding are modelled by name (the module's own create_eager_task shim is one way to create a task)
    px = PX(repo, inline=inline_ash(stop=("_send_data_frame", "create_eager_task")),
            models=[("asyncio.shield", Outcomes(OK(Sym("shielded")), RAISE("CancelledError"))), ("*.create_task", Outcomes(OK(Sym("task")))),
                    ("create_eager_task", Outcomes(OK(Sym("task")))), ("asyncio.ensure_future", Outcomes(OK(Sym("task")))),
                    ("await:*", Outcomes(OK(None), RAISE("CancelledError")))])
    paths = px.explore(f, lambda: (self_obj(cls, {}), {"data": Sym("payload")}))
    ctx.anchor(paths, "send_data has a path")
    for p in paths:
        calls = [e for e in p.events if e.kind in ("call", "await")]
        sends = [e for e in calls if e.what.endswith("_send_data_frame")]
        tasks = [e for e in calls if e.what.endswith(("create_eager_task", "create_task", "ensure_future", "eager_start"))]
        shields = [e for e in calls if e.what.endswith("shield")]
        waits = [e for e in p.events if e.kind == "await"]
        bad = None
        if p.terminal == "raise" and not sends:
            ctx.ok(1, "raises-before-sending")
            continue
        if len(sends) != 1 or sends[0].kind != "call":
            bad = f"_send_data_frame is started {len(sends)} times / awaited directly (a directly awaited send is cancelled with its caller)"
        elif not tasks or sends[0].extra not in tasks[0].args:
            bad = "the send coroutine is not wrapped in a task of its own"
        elif not shields or tasks[0].extra not in shields[0].args:
            bad = "the send task is not protected by asyncio.shield: cancelling the caller cancels the transmission (frame number already consumed)"
        elif shields[0].kind != "await" and not any(w.args and w.args[0] == shields[0].extra for w in waits):
            bad = "send_data does not await the shielded task"
        else:
            fr_ = sends[0].args[0] if sends[0].args else None
            payload_ok = isinstance(fr_, Obj) and Sym("payload") in fr_.fields.values() or fr_ == Sym("payload") or (
                isinstance(fr_, Sym) and "payload" in fr_.tag)
            if not payload_ok:
                src = next((e for e in p.events if e.kind in ("call", "new") and e.extra is not None and e.extra == fr_), None)
                payload_ok = src is not None and (Sym("payload") in src.args or Sym("payload") in src.kwargs.values())
            if not payload_ok:
                bad = f"the frame handed to _send_data_frame ({fr_!r}) does not carry the caller's payload"
        if not bad and tasks:
            # the order in which callers' frames go out is the order in which their tasks join the (FIFO) transmit window: a caller that
            # waits for something *before* its task exists (a flow-control event, a lock of its own) can be overtaken by a later caller
            i_task = p.events.index(tasks[0])
            early = [e for e in p.events[:i_task] if e.kind == "await" or (e.kind == "enter" and not str(e.what).startswith("LOGGER"))]
            if early:
                bad = (f"send_data waits ({early[0].what}) before the transmission task exists: callers are queued in the order their tasks are created, so a "
                       "send made while an earlier one is still waiting here goes out first (payloads reach the NCP out of order)")
        if not bad and any(str(e.extra) == "raises CancelledError" for e in calls):
            # the caller was cancelled while the send is in flight: the transmission goes on (retry budget, failure report)
            killed = [e for e in calls if (e.callee or e.what).endswith(".cancel") and "task" in (e.callee or e.what)]
            if killed:
                bad = ("when its caller is cancelled send_data cancels the transmission task as well: the frame number is consumed, the retries stop and a "
                       "silent NCP is never reported")
            elif p.terminal != "raise":
                bad = "the caller's cancellation is swallowed"
        ctx.require(not bad, "send_data:shielded-task", f"send_data: {bad}", func=f, trace=p.trace(12))
    # nobody else starts a send
    for g, n in index(repo).references("_send_data_frame"):
        ctx.call_sites += 1
        ctx.require(g.qual in px.visited or g.short == "AshProtocol.send_data", f"_send_data_frame:ref:{g.short}",
                    f"_send_data_frame is used in {g.short} (line {n.lineno}), outside send_data's shielded task", func=g, node=n)


def _enclosing_calls(root, target):
    out = []

    def rec(node, stack):
        if node is target:
            out.extend(stack)
            return True
        for ch in ast.iter_child_nodes(node):
            if rec(ch, stack + ([node] if isinstance(node, ast.Call) else [])):
                return True
        return False

    rec(root, [])
    # exclude the call whose func is the reference itself
    return [c for c in out if not (isinstance(c.func, ast.Attribute) and c.func is target) and c.func is not target]


@rule("R01.2", ["C01", "C05", "C04", "C02"], "T-FUN", floor=16)
def r01_2(ctx):
    """Acknowledgement coverage: for every ackNum a in 0..7, _handle_ack completes exactly the open pending frames
    f with f in {a - k mod 8 | 1 <= k <= TX_K} (with True) and leaves completed futures alone."""
    anchor_attrs(ctx, "AshProtocol", "_pending_data_frames")
    repo = ctx.repo
    f = repo.func(f"{ASH}:AshProtocol._handle_ack")
    ctx.fn(f)
    cls = ash_cls(ctx)
    K = const(ctx, ASH, "TX_K", int)
    for done in (False, True):
        # a future that is done here completed with a result (it was acknowledged but its waiter has not run yet): it is
        # done, not cancelled, and completing it again raises InvalidStateError
        px = PX(repo, inline=inline_ash(), models=[("*.done", lambda px, t, a, k, fr: done), ("*.cancelled", lambda px, t, a, k, fr: False),
                                                   ("*.set_result", Outcomes(RAISE("InvalidStateError")) if done else Outcomes(OK(None)))])
        for a in range(8):
            def setup():
                return (self_obj(cls, {"_pending_data_frames": {i: fut(f"fut{i}") for i in range(8)}}),
                        {"frame": frame_obj(ctx, "AckFrame", ack_num=a, res=0, ncp_ready=0)})

            for p in px.explore(f, setup):
                ctx.case(8)
                got = {e.callee for e in p.events if e.kind == "call" and e.what.endswith(".set_result") and not str(e.extra).startswith("raises")}
                want = set() if done else {f"fut{(a - k) % 8}.set_result" for k in range(1, K + 1)}
                exc = [e for e in p.events if e.kind == "call" and e.what.endswith(("set_exception", ".cancel"))]
                ctx.require(p.terminal == "return" and got == want and not exc, f"ack={a},done={done}",
                            f"ackNum {a} (futures {'done' if done else 'open'}): completes {sorted(got)}, must complete {sorted(want)}",
                            func=f, trace=p.trace())
    # also with an empty pending table nothing happens and nothing raises
    px = PX(repo, inline=inline_ash())
    for a in range(8):
        def setup():
            return self_obj(cls, {"_pending_data_frames": {}}), {"frame": frame_obj(ctx, "DataFrame", ack_num=a)}

        for p in px.explore(f, setup):
            ctx.require(p.terminal == "return", f"ack={a},empty", f"_handle_ack raises {p.value!r} with nothing pending",
                        func=f, trace=p.trace())


@rule("R01.3", ["C01"], "T-ORD", floor=6)
def r01_3(ctx):
    """Acknowledgement information of DATA, ACK and NAK frames is applied (via _handle_ack) before the
    type-specific handler, even for out-of-sequence DATA frames, and for no other frame type."""
    repo = ctx.repo
    f = repo.func(f"{ASH}:AshProtocol.frame_received")
    ctx.fn(f)
    cls = ash_cls(ctx)
    px = PX(repo, inline=lambda fr, aw: False)
    handlers = {"DataFrame": "data_frame_received", "AckFrame": "ack_frame_received", "NakFrame": "nak_frame_received",
                "RStackFrame": "rstack_frame_received", "RstFrame": "rst_frame_received", "ErrorFrame": "error_frame_received"}
    for cname in dispatch_classes(ctx):
        def setup():
            return self_obj(cls, {}), {"frame": frame_obj(ctx, cname)}

        for p in px.explore(f, setup):
            ctx.paths += 1
            # (by the method that is reached, however the call is spelled: `self.x(frame)`, `getattr(self, name)(frame)`, a table of bound methods)
            calls = [str(e.callee or e.what).split(".")[-1] for e in p.events if e.kind == "call" and str(e.callee or e.what).startswith("self.")]
            want = (["_handle_ack"] if cname in ("DataFrame", "AckFrame", "NakFrame") else []) + [handlers.get(cname, "?")]
            ctx.require(p.terminal == "return" and calls == want, f"dispatch:{cname}",
                        f"{cname}: frame_received calls {calls}, must call {want}", func=f, trace=p.trace())


@rule("R01.4", ["C01", "C05", "C02"], "T-FUN", floor=2)
def r01_4(ctx):
    """A NAK fails every open pending send with NotAcked (which the sender turns into an immediate repeat) and
    notifies nobody."""
    repo = ctx.repo
    f = repo.func(f"{ASH}:AshProtocol.nak_frame_received")
    ctx.fn(f)
    cls = ash_cls(ctx)
    for done in (False, True):
        px = PX(repo, inline=inline_ash(stop=("_write_frame",)), models=[("*.done", lambda px, t, a, k, fr: done)])

        def setup():
            return self_obj(cls, {"_pending_data_frames": {2: fut("fut2")}}), {"frame": frame_obj(ctx, "NakFrame", ack_num=2)}

        for p in px.explore(f, setup):
            ctx.paths += 1
            sx = [e for e in p.events if e.kind == "call" and e.what.endswith(".set_exception")]
            ups = [e for e in p.events if upward(e)]
            good = p.terminal == "return" and not ups and (
                (done and not sx) or (not done and len(sx) == 1 and sx[0].callee == "fut2.set_exception"
                                      and isinstance(sx[0].args[0], Obj) and sx[0].args[0].cls_name == "NotAcked"))
            # completing a completed future raises InvalidStateError out of the receive callback: that case also convicts C02
            ctx.require(good, f"nak,done={done}", f"NAK with {'completed' if done else 'open'} pending send: "
                        f"{[e.brief() for e in sx + ups]}", func=f, trace=p.trace(), props=None if done else ("C01", "C05"))


@rule("R04.5", ["C04", "C01"], "T-FUN", floor=1000, tier="thorough")
def r04_5(ctx):
    """(thorough) The induction made concrete: from every expected-number state 0..7, every sequence of up to three
    frames over {DATA(frmNum 0..7, reTx 0/1), RSTACK} is pushed through frame_received on one receiver object and compared,
    frame by frame, with a reference receiver written from the specification (deliveries, ACK/NAK kind and number,
    expected number afterwards)."""
    import itertools

    repo = ctx.repo
    f = repo.func(f"{ASH}:AshProtocol.frame_received")
    cls = ash_cls(ctx)
    ns = repo.cls(ASH, "NcpState").members()
    alphabet = [("D", frm, re) for frm in range(8) for re in (0, 1)] + [("R", 0, 0)]
    px = PX(repo, inline=inline_ash(stop=("_write_frame", "_cancel_pending_data_frames", "_change_ack_timeout")))
    px.inline_root = f
    n = 0
    for rx0 in range(8):
        for length in (1, 2, 3):
            seqs = itertools.product(alphabet, repeat=length) if length < 3 else itertools.product(alphabet, alphabet[::3], alphabet[1::4])
            for seq in seqs:
                def entry():
                    me = self_obj(cls, {"_rx_seq": rx0, "_tx_seq": 0, "_pending_data_frames": {}, "_ncp_state": ns["CONNECTED"]})
                    for i, (kind, frm, re) in enumerate(seq):
                        fr = (frame_obj(ctx, "DataFrame", frm_num=frm, re_tx=re, ack_num=0, ezsp_frame=Sym(f"payload{i}")) if kind == "D"
                              else frame_obj(ctx, "RStackFrame", version=2, reset_code=Sym("code")))
                        px.emit("mark", f"frame{i}")
                        px.call_function(f, me, [fr], {}, None)
                    return me.fields.get("_rx_seq")

                paths = px._run(entry)
                if len(paths) != 1:
                    raise AnalysisError(f"frame sequence {seq}: {len(paths)} paths")
                p = paths[0]
                # reference receiver
                rx, want = rx0, []
                for i, (kind, frm, re) in enumerate(seq):
                    if kind == "R":
                        rx = 0
                        want.append(("reset",))
                    elif frm == rx:
                        rx = (rx + 1) % 8
                        want.append(("deliver", f"payload{i}", "AckFrame", rx))
                    else:
                        want.append(("drop", "AckFrame" if re else "NakFrame", rx))
                got, cur = [], None
                for e in p.events:
                    if e.kind == "mark":
                        cur = {"up": [], "wr": []}
                        got.append(cur)
                    elif upward(e):
                        cur["up"].append((e.what.split(".")[-1], getattr(e.args[0], "tag", None)))
                    elif e.kind == "call" and e.what.endswith("_write_frame"):
                        cur["wr"].append((e.args[0].cls_name, e.args[0].fields.get("ack_num")))
                ok = p.terminal == "return" and p.value == rx and len(got) == len(want)
                for g, w in zip(got, want):
                    if w[0] == "reset":
                        ok = ok and g["up"] == [("reset_received", "code")] and not g["wr"]
                    elif w[0] == "deliver":
                        ok = ok and g["up"] == [("data_received", w[1])] and g["wr"] == [(w[2], w[3])]
                    else:
                        ok = ok and not g["up"] and len(g["wr"]) == 1 and g["wr"][0][1] == w[2] and (w[1] == "AckFrame") <= (g["wr"][0][0] == "AckFrame")
                n += 1
                if not ok:
                    ctx.violation("sequence", f"from expected number {rx0}, frames {seq}: receiver does {got}, reference receiver expects {want} and ends at {rx}", func=f)
                else:
                    ctx.ok(1)
    ctx.sample({"sequences": n})


STATEFUL = (("bellows.ash", "AshProtocol"), ("bellows.uart", "Gateway"), ("bellows.ezsp", "EZSP"), ("bellows.ezsp.protocol", "ProtocolHandler"),
            ("bellows.multicast", "Multicast"), ("bellows.zigbee.application", "ControllerApplication"), ("bellows.thread", "ThreadsafeProxy"),
            ("bellows.thread", "EventLoopThread"))


# which properties a shared object in each class convicts (the class's state serves exactly these)
STATE_SERVES = {"AshProtocol": ("C01", "C05", "C10"), "Gateway": ("C10", "C11"), "EZSP": ("C06", "C10", "C17"), "ProtocolHandler": ("C06", "C10"),
                "Multicast": ("C15",), "ControllerApplication": ("C12", "C10"), "ThreadsafeProxy": ("C20",), "EventLoopThread": ("C20",)}


@rule("R01.5", ["C01", "C05", "C06", "C10", "C11", "C12", "C15", "C17", "C20"], "T-WMW", floor=8)
def r01_5(ctx):
    """Per-link / per-connection state is per instance: in the stateful classes (AshProtocol, Gateway, EZSP, ProtocolHandler,
    Multicast, ControllerApplication, the thread helpers) no mutable object - dict, list, set, bytearray, deque, defaultdict,
    asyncio future / event / lock / semaphore - is created in the class body unless the initialiser rebinds that attribute
    for every instance.  A class-level container is one object shared by every link in the process: an acknowledgement on
    one link would complete a send of another, a failure reported once would be remembered for every later connection."""
    repo = ctx.repo
    mutable_calls = ("dict", "list", "set", "bytearray", "collections.deque", "deque", "collections.defaultdict", "defaultdict", "collections.OrderedDict",
                     "asyncio.Future", "asyncio.Event", "asyncio.Lock", "asyncio.Semaphore", "asyncio.Queue", "asyncio.Condition", "zigpy.util.Requests",
                     "collections.Counter", "Counter")
    for mod, cname in STATEFUL:
        try:
            c = repo.cls(mod, cname)
        except Exception:
            raise AnalysisError(f"anchor vanished: class {mod}.{cname}")
        classes = [k for k in c.mro() if isinstance(k, ClassRef) and k.mod.startswith("bellows")]
        init_sets = set()
        for k in classes:
            init = k.attrs.get("__init__")
            if isinstance(init, FuncRef):
                for st in init.node.body:  # unconditional, top-level rebinding only
                    tg = st.targets if isinstance(st, ast.Assign) else ([st.target] if isinstance(st, ast.AnnAssign) and st.value is not None else [])
                    for t_ in tg:
                        if isinstance(t_, ast.Attribute) and text(t_.value) == "self":
                            init_sets.add(t_.attr)
        for k in classes:
            for st in k.node.body:
                tgt, val = None, None
                if isinstance(st, ast.Assign) and len(st.targets) == 1 and isinstance(st.targets[0], ast.Name):
                    tgt, val = st.targets[0].id, st.value
                elif isinstance(st, ast.AnnAssign) and isinstance(st.target, ast.Name) and st.value is not None:
                    tgt, val = st.target.id, st.value
                if tgt is None:
                    continue
                shared = (isinstance(val, (ast.Dict, ast.List, ast.Set, ast.ListComp, ast.DictComp, ast.SetComp)) and not tgt.isupper() and not tgt.startswith("_BY_")) or \
                    (isinstance(val, ast.Call) and text(val.func) in mutable_calls and not tgt.isupper())
                if shared and not (isinstance(val, ast.Call) and text(val.func).startswith("asyncio.")):
                    # a container that nothing ever modifies (a class-level constant table) is not state
                    mutated = [w for w in index(repo).writers(tgt) if w[2] != "store" or w[0].name != "__init__"]
                    mutated = [w for w in mutated if not (w[2] == "store" and w[0].cls is None)]
                    shared = bool(mutated)
                if not shared:
                    ctx.ok(1, (cname, tgt))
                    continue
                ctx.require(tgt in init_sets, f"class-level-state:{k.name}.{tgt}", f"{k.name}.{tgt} = {text(val)[:40]} is created once in the class body and not rebound by "
                            f"__init__: every {cname} instance in the process shares the same object", file=k.node and repo.relpath(k.mod), line=st.lineno,
                            props=STATE_SERVES[cname])
