"""SU rules: command call sites against per-version schemas, facade calls against handler method signatures."""
from __future__ import annotations

from ..core import rule
from ..errors import AnalysisError
from ..su import SU, VERSIONS

GROUPS = {
    "C12": {"send_unicast", "send_multicast", "send_broadcast", "set_source_route", "set_extended_timeout", "send_packet"},
    "C14": {"get_network_key", "get_tc_link_key", "read_link_keys", "write_link_keys", "read_child_data", "write_child_data",
            "write_nwk_frame_counter", "write_aps_frame_counter", "initialize_network", "factory_reset", "read_address_table",
            "write_network_info", "load_network_info", "reset_network_info", "reset_custom_eui64", "write_custom_eui64",
            "_get_nv3_restored_eui64_key", "_get_mfg_custom_eui_64", "can_burn_userdata_custom_eui64", "can_rewrite_custom_eui64",
            "_ensure_network_running", "formNetwork", "leaveNetwork", "get_board_info", "_get_board_info"},
    "C15": {"_initialize", "subscribe", "unsubscribe", "startup"},
    "C16": {"write_config"},
    "C09": {"write_config", "version", "startup_reset", "connect", "set_source_routing", "update_policies"},
    "C17": {"formNetwork", "leaveNetwork", "_list_command", "_ensure_network_running", "initialize_network", "energy_scan"},
    "C19": {"read_counters", "read_and_clear_counters", "_get_free_buffers", "_watchdog_feed"},
}
# frozen exception (one line of reason): NV3 token writes are reached only after an NV3 token read succeeded in the
# same operation, so `setTokenData` may be absent exactly where `getTokenData` is absent.
PAIRED_GUARD = {"setTokenData": "getTokenData"}


def _su(ctx):
    if "su" not in ctx.run.shared:
        su = SU(ctx.repo)
        ctx.run.shared["su"] = (su, su.sites())
    return ctx.run.shared["su"]


def _closure(ctx, names):
    """The named functions plus every same-class / same-module helper they call (so that moving a command call into
    an extracted helper keeps it in the group)."""
    from ..su import reachable_names

    key = ("closure", tuple(sorted(names)))
    if key not in ctx.run.shared:
        roots = [f for f in ctx.repo.all_functions() if f.name in names and not f.mod.startswith("bellows.cli")]
        ctx.run.shared[key] = set(names) | reachable_names(ctx.repo, roots)
    return ctx.run.shared[key]


def check_sites(ctx, only=None):
    su, sites = _su(ctx)
    if only is not None:
        only = _closure(ctx, only)
    n = 0
    for s in sites:
        if only is not None and s.func.name not in only:
            continue
        ctx.fn(s.func)
        ctx.call_sites += 1
        if s.kind.endswith(":unknown"):
            ctx.violation(f"unknown-command:{s.key}", f"{s.func.short} line {s.call.lineno}: `{s.name}` is neither a command of any protocol version nor a "
                          "handler method", func=s.func, node=s.call)
            continue
        if s.kind == "wrapper":
            msgs = su.check_wrapper(s)
            if msgs:
                ctx.violation(f"wrapper:{s.key}", f"{s.func.short} line {s.call.lineno}: call of handler method `{s.name}`: {msgs[0][1]}"
                              + (f" (and {len(msgs) - 1} more versions)" if len(msgs) > 1 else ""), func=s.func, node=s.call)
            else:
                ctx.ok(len(VERSIONS), s.key)
            n += len(VERSIONS)
            continue
        bad = {}
        for v in s.versions:
            n += 1
            if s.name not in su.tables[v]:
                partner = PAIRED_GUARD.get(s.name)
                if partner and partner not in su.tables[v]:
                    ctx.ok(1)
                    continue
                bad.setdefault(f"command `{s.name}` does not exist in protocol version {v} and the call is not guarded", []).append(v)
                continue
            m = su.check_args(s, v) or su.check_result(s, v)
            if m:
                bad.setdefault(m, []).append(v)
            else:
                ctx.ok(1)
        ctx.distinct.add(s.key)
        for m, vs in bad.items():
            ctx.violation(f"site:{s.key}:v{vs[0]}", f"{s.func.short} line {s.call.lineno} `{s.name}` (live in v{s.versions[0]}..v{s.versions[-1]}): {m}"
                          + (f" [versions {vs}]" if len(vs) > 1 else ""), func=s.func, node=s.call, construct=s.name)
    return n


@rule("SU.1", ["C07"], "T-TAB", floor=700)
def su_all(ctx):
    """Every EZSP command call site outside the legacy CLI, in every protocol version in which that call site is
    live (handler methods: the versions whose MRO resolves the method to this definition; facade callers: all 11,
    minus versions excluded by an evaluated version test or a try that catches a missing command): positional +
    keyword arguments are exactly the request schema's fields; tuple-unpacking arity equals the response length; a
    target named like a response field sits at that field's position; values treated as statuses come from
    status-typed fields; indices and struct attributes exist. Facade calls of handler methods match the method's
    parameters in every version."""
    n = check_sites(ctx)
    ctx.sample({"site_version_instances": n})


def _mk(prop, names):
    @rule(f"SU.{prop}", [prop], "T-TAB", floor=3)
    def _r(ctx, names=names, prop=prop):
        n = check_sites(ctx, names)
        ctx.sample({"functions": sorted(names), "site_version_instances": n})

    _r.__doc__ = (f"Schema-use (as SU.1) restricted to the call sites inside the functions that implement {prop}: "
                  f"{', '.join(sorted(names))}.")
    from ..core import RULES

    RULES[f"SU.{prop}"].doc = _r.__doc__
    return _r


for _p, _names in GROUPS.items():
    _mk(_p, _names)
