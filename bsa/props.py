"""Per-property metadata: what is decided, what is not, assumptions (goes into evidence + manifest)."""

ASSUMPTIONS = [
    "CPython's ast module parses /repo/bellows as the interpreter would; no repository module is imported or run",
    "Python semantics of the constructs the engine models (dict insertion order, try/finally, asyncio cancellation "
    "is a BaseException raised at an await, assert statements enabled)",
    "zigpy's primitive types are faithful little-endian codecs; zigpy.util.Requests.new is a context manager that "
    "removes the entry on exit; PriorityDynamicBoundedSemaphore serves higher priority first, FIFO within a class",
    "binascii.crc_hqx is CRC-CCITT",
    "other event-loop callbacks run only at await points (single-threaded asyncio)",
]

_L = ("static analysis over the ast of /repo/bellows: {what}. Decided for all inputs/paths of the analysed "
      "functions within the trusted base; the clauses listed under undecided_clauses are NOT decided.")

# properties whose rule set is complete enough to be claimed in MANIFEST.json
READY = ["C01", "C02", "C03", "C04", "C05", "C06", "C07", "C08", "C09", "C10", "C11", "C12", "C13", "C14", "C15", "C16", "C17", "C18", "C19", "C20"]

PROPS = {
    "C01": {
        "level": _L.format(what="shielded send (who-may-call), exhaustive 8x8 acknowledgement-coverage table, ack "
                                "information applied for DATA/ACK/NAK before dispatch, NAK => NotAcked, plus every "
                                "receiver rule of C04 and sender rule of C05, the frame layout rules of C03 (a conforming peer must "
                                "decode what is written), the reference-receiver stream rules R02.5 / R02.6, and the layers between the link and EZSP in both "
                                "directions (gateway submits each frame once, hands each accepted payload up once; the cross-thread proxy runs every queued "
                                "call once, in order)"),
        "undecided": ["end-to-end exactly-once / in-order delivery against a conforming NCP under loss, corruption, "
                      "duplication and stalls (two interacting state machines; schedules)", "NCP windows 2..3"],
    },
    "C02": {
        "level": _L.format(what="exception-escape analysis of the receive callback, CRC/escape gate dominating "
                                "delivery, per-reserved-byte buffer edit table, NAK on parse failure, bounded buffer, and "
                                "curated byte streams x chunkings (all two-way splits in the thorough tier, fault variants) "
                                "pushed through the receive callback and compared event by event with a reference receiver "
                                "written from the specification"),
        "undecided": ["equality with the reference decoder for streams and chunkings outside the curated set (the per-byte "
                      "scanner rule R02.2 covers all streams by induction only for the re-slicing scanner form; other forms are "
                      "deferred to the curated streams)"],
    },
    "C03": {
        "level": _L.format(what="reserved sets, stuffing/unstuffing transducers over all 256/512 byte cases, "
                                "control-byte classification over 256 values, control-byte pack/unpack inverses "
                                "over all field values, CRC placement/seed/width/endianness, LFSR step over 256 "
                                "values, frame assembly in _write_frame"),
        "undecided": ["nothing beyond binascii.crc_hqx itself; payload lengths are covered by per-byte induction"],
    },
    "C04": {
        "level": _L.format(what="complete per-frame transfer function of the receiver (8x8x2 cases, also with the upper "
                                "layer raising during delivery), dispatch table for the six frame classes, RSTACK "
                                "restart, confined writers of the expected number, and the decoding a well-formed "
                                "frame goes through first (unstuffing transducer, control-byte classification, CRC gate, "
                                "scanner iteration), the RST / frames-in-flight / RSTACK history on one object, and the gateway and cross-thread proxy "
                                "above the link (every accepted payload reaches EZSP exactly once)"),
        "undecided": ["nothing beyond the trusted base (sequences follow by induction on the per-frame function)"],
    },
    "C05": {
        "level": _L.format(what="all paths of one send over per-attempt outcomes {acked, NAK, NcpFailure, timeout, "
                                "cancel} x failed-state flag at every gate: attempt bound, fixed frame number, reTx "
                                "flag, failed-state gate atomic with the write, exhaustion notification, timeout "
                                "clamp, single-slot semaphore, writers of link state"),
        "undecided": ["behaviour in (virtual) time; interleaving of several queued sends beyond the semaphore fact"],
    },
    "C06": {
        "level": _L.format(what="register/advance/send order and atomicity in command(), mod-256 successor over 256 "
                                "values, single slot on all exits, bounded wait, priority table, reply/callback "
                                "demultiplexing paths, callback fan-out containment, header reader independent of the "
                                "frame-control status bits, current-handler resolution also across a restart, the exception class of every failing exit "
                                "(also at the sequence-number wrap and when the reply is popped in the turn the limit fires), the link submission outside "
                                "the reply time limit, the frame entry point evaluated per version and frame length"),
        "undecided": ["all interleavings of N callers with late/duplicate replies as executed schedules"],
    },
    "C07": {
        "level": _L.format(what="frame-ID injectivity and range in 11 versions (2751 entries), header writer/reader "
                                "agreement per version, declared-order (de)serialisation, prefix-decodability of "
                                "every rx schema and struct, every command call site against its version's schema, "
                                "overriding struct decoders transparent on full-length input, no re-implemented primitive codec (length prefixes at the edges "
                                "of their width), enum lookup hooks that keep the value, every proper prefix of an encoding rejected"),
        "undecided": ["value-level correctness of zigpy's primitive serialize/deserialize"],
    },
    "C08": {
        "level": _L.format(what="empty escape set of EZSP.frame_received; completion only after the frame-ID "
                                "equality test; callback only on the known-ID, decoded, not-pending path; no stray "
                                "state writes in the receive path; field decoders raise on truncated input (every proper prefix); sequence "
                                "numbers of stale pending entries; the entry point evaluated for frame lengths 0..8 and 64 in every version with a "
                                "handler that returns or raises"),
        "undecided": ["'commands issued afterwards still complete' as an executed scenario"],
    },
    "C09": {
        "level": _L.format(what="reset -> v4 fallback order, two-step version query, handler selection for versions "
                                "4..16 (tables discovered dynamically included), version-keyed table safety, start-up over the outcomes of the start-up "
                                "waiter in either spelling of the bounded wait, the RST / frames-in-flight / RSTACK history, command time limit "
                                "starting after the link took the frame, defaults name real IDs"),
        "undecided": ["the handshake against a framing-aware peer; link faults during bring-up"],
    },
    "C10": {
        "level": _L.format(what="must-reach analysis of every hop from each failure source to the application "
                                "callback on all paths, running gate, closed-transport gate, bounded waits, a deliberate close during a reset stays "
                                "silent, plain application entry points reached through the proxy return nothing"),
        "undecided": ["injection at every wire event of a running stack; measured time; threaded hand-offs"],
    },
    "C11": {
        "level": _L.format(what="RST emission with CANCEL prefix and waiter registration, completion iff "
                                "software-reset code over all reset codes, counters zeroed on RSTACK, waiters "
                                "released on connection loss on every path"),
        "undecided": ["arrival-time races as executed schedules"],
    },
    "C12": {
        "level": _L.format(what="all paths of send_packet over enqueue statuses x address modes x confirmation "
                                "outcomes, context-managed bookkeeping, tag/destination custody from request to "
                                "callback lookup in 11 versions (every outgoing type, every failure status, tags / destinations that agree only in one "
                                "byte), set-up + send under one lock, the pending table's own clean-up when it is a repository class"),
        "undecided": ["concurrent packets against a simulated NCP"],
    },
    "C13": {
        "level": _L.format(what="field-role agreement of callback unpacking vs the rx schema in 11 versions (also after a "
                                "reconnect across the v14 field-order boundary), dispatch names present in every version's "
                                "table, packet construction table over all message types with known and unknown senders, "
                                "join/leave triage table"),
        "undecided": ["byte-level decoding (zigpy codecs)"],
    },
    "C14": {
        "level": _L.format(what="every accessor against its version's schemas, restore/read-back field pairs, "
                                "security-state flag table, key-struct flag triples, restore order, frame counters written "
                                "for every value incl. 0, link-key read-back over a table with gaps, link keys through application and handler as one "
                                "program per version, child table read-back and EUI64 -> address direction, hashed-key source, table sizes not "
                                "lowered behind the restore, bring-up listener order"),
        "undecided": ["the NCP's stored state; a round trip through a stateful peer"],
    },
    "C15": {
        "level": _L.format(what="slot pairing on every exit of subscribe (incl. exceptions/cancellation), no-write "
                                "cases, entry contents, unsubscribe release, scan partition, confined writers, index claimed "
                                "before the awaited table write, host mirror preserved over start-up"),
        "undecided": ["mirror relation against a simulated NCP over operation sequences"],
    },
    "C16": {
        "level": _L.format(what="resolved DEFAULT_CONFIG and schemas of 11 versions, merge over Python's dict-order "
                                "rules for abstract override sets, skip/write decision table, grow-only coverage, "
                                "buffer count last, continue on reject, default tables never mutated at run time"),
        "undecided": ["nothing beyond the NCP honouring accepted writes"],
    },
    "C17": {
        "level": _L.format(what="listener registered before the command and removed on every exit, refusal raises, "
                                "bounded wait, status fan-out tolerant of done listeners, scan callback pairing, listener and callback-registry "
                                "histories on one object (events before the wait, second operations, 600 register / unregister cycles)"),
        "undecided": ["event orders as executed schedules; timeouts in time"],
    },
    "C18": {
        "exhaustive": True,  # both 8-bit families completely, every unified member
        "level": _L.format(what="resolved status enums and SL_STATUS_MAP, shape of from_ember_status, exhaustive "
                                "evaluation over all 256 values of both 8-bit families and all unified members, each "
                                "conversion repeated (no dependence on earlier conversions)"),
        "undecided": [],
    },
    "C19": {
        "level": _L.format(what="all paths of _watchdog_feed over keep-alive outcomes, counter values 0..MAX+3, "
                                "every version 4..14 and a newer one, and the clear period; feed histories judged by which feeds raise; confined "
                                "writers of the counters; a command after the stack was stopped - or timing out at any sequence number - raises the "
                                "error the feed counts"),
        "undecided": [],
    },
    "C20": {
        "level": _L.format(what="dispatch table of ThreadsafeProxy.__getattr__ over 20 predicate combinations (incl. the "
                                "wrapped method raising, scheduling on a closed loop raising); the queued callback and the "
                                "stop sequence of the loop thread executed abstractly; wiring of the two proxies in uart.connect; the caller's arguments "
                                "reach the method unchanged; a burst of 300 queued calls runs once each in order; plain application entry points return None"),
        "undecided": ["real threads, a loop closing underneath a caller"],
    },
}
