"""Exceptions shared by the analyser."""


class AnalysisError(Exception):
    """The analyser cannot decide: anchor vanished, unsupported construct, floor not met.

    Never a silent pass: the CLI turns it into exit code 2 (ANALYSIS-ERROR).
    """


class Unsupported(AnalysisError):
    """A construct outside the subset the engine models."""


class FormNotRecognised(AnalysisError):
    """A rule that reasons over one particular *shape* of the code (e.g. a scanner that re-slices its buffer) met another
    shape.  If the rule names fallback rules that decide the same clauses independently of the shape (concrete
    evaluation against a reference) and those ran and held, the rule is recorded as deferred instead of failing the
    run; without such a fallback this is an ordinary analysis error."""
