"""Exceptions shared by the analyser."""


class AnalysisError(Exception):
    """The analyser cannot decide: anchor vanished, unsupported construct, floor not met.

    Never a silent pass: the CLI turns it into exit code 2 (ANALYSIS-ERROR).
    """


class Unsupported(AnalysisError):
    """A construct outside the subset the engine models."""
