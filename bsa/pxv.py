"""Abstract values, events and the exception hierarchy used by the path explorer."""
from __future__ import annotations

from .te import ClassRef, FuncRef, Member, ModuleRef, TypeRef  # noqa: F401


class PyModel:
    """Base of small Python models of trusted-base library objects (zigpy's diagnostics counters ...): the explorer reads their
    attributes and calls their methods natively."""


class ZCounter(PyModel):
    """zigpy.state.Counter: an ever increasing counter; reset() marks a roll-over and keeps the value."""

    def __init__(self, name=None):
        self.name, self._raw_value, self._last_reset_value, self.reset_count = name, 0, 0, 0

    @property
    def value(self):
        return self._last_reset_value + self._raw_value

    def __int__(self):
        return self.value

    def __eq__(self, o):
        return self.value == (o.value if isinstance(o, ZCounter) else o)

    __hash__ = object.__hash__

    def increment(self, increment=1):
        self._raw_value += increment

    def reset_and_update(self, value):
        self._last_reset_value = self.value
        self._raw_value = value
        self.reset_count += 1

    def reset(self):
        self.reset_and_update(0)

    def update(self, new_value):
        if new_value == self._raw_value:
            return
        if new_value - self._raw_value < 0:
            self.reset_and_update(new_value)
            return
        self._raw_value = new_value

    def __repr__(self):
        return f"Counter({self.name!r}, {self.value})"


class ZCounterGroup(dict, PyModel):
    """zigpy.state.CounterGroup / CounterGroups: missing entries are created (a group of groups at the top, counters below)."""

    def __init__(self, depth=0):
        super().__init__()
        self.depth = depth

    def __missing__(self, key):
        v = ZCounterGroup(self.depth - 1) if self.depth > 0 else ZCounter(key)
        self[key] = v
        return v

    def reset(self):
        for v in self.values():
            v.reset()


class Sym:
    """Opaque tagged symbol.  Identity = tag.  Flows through assignments unchanged."""

    __slots__ = ("tag",)

    def __init__(self, tag):
        self.tag = tag

    def __repr__(self):
        return f"${self.tag}"

    def __eq__(self, o):
        return isinstance(o, Sym) and o.tag == self.tag

    def __hash__(self):
        return hash(("sym", self.tag))


class Obj:
    """Record built by a constructor call (or the preset ``self``).  Mutable fields."""

    def __init__(self, cls, fields=None, tag=None):
        self.cls = cls
        self.fields = dict(fields or {})
        self.tag = tag or getattr(cls, "name", None) or getattr(cls, "short", "obj")
        self.volatile = {}  # attr -> list of values re-chosen after every await

    @property
    def cls_name(self):
        c = self.cls
        if isinstance(c, TypeRef):
            return c.short
        return getattr(c, "name", None) or getattr(c, "short", None) or str(c)

    def __repr__(self):
        inner = ", ".join(f"{k}={v!r}" for k, v in [kv for kv in self.fields.items() if isinstance(kv[0], str)][:8])
        return f"{self.cls_name}({inner})"


class NT(tuple):
    """Instance of a repository ``typing.NamedTuple`` class: a real tuple (indexing, unpacking, equality with plain
    tuples, iteration work natively) that also knows its class (field names, methods)."""

    def __new__(cls, cref, values):
        o = tuple.__new__(cls, values)
        o.cref = cref
        o.names = [f[0] for f in cref.struct_fields()]
        return o

    @property
    def tag(self):
        return f"{self.cref.name}{tuple(self)!r}"

    def __repr__(self):
        return f"{self.cref.name}({', '.join(f'{n}={v!r}' for n, v in zip(self.names, self))})"


class Iter:
    """A live iterator inside one explored path (paths are re-executed from scratch, so sharing real iterator state
    within a path is exact): wraps a Python iterator that yields explorer values."""

    def __init__(self, it, label="iter"):
        self.it, self.label = it, label

    def __iter__(self):
        return self.it

    def __repr__(self):
        return f"<{self.label}>"


class Closure:
    def __init__(self, node, frame, name=None):
        self.node, self.frame = node, frame
        self.name = name or getattr(node, "name", "<lambda>")

    def __repr__(self):
        return f"<closure {self.name}>"


class Bound:
    """self-bound repo method (self value, FuncRef)."""

    def __init__(self, recv, func):
        self.recv, self.func = recv, func

    def __repr__(self):
        return f"<bound {self.func.short}>"


class Partial:
    def __init__(self, f, args, kwargs, text=None):
        self.f, self.args, self.kwargs = f, tuple(args), dict(kwargs)
        self.text = text  # how the wrapped callable was written (``self._command``): calls through the partial are reported under it

    def __repr__(self):
        return f"partial({self.f!r}, {self.args!r}, {self.kwargs!r})"


class Exc(Exception):
    """An exception travelling through the explored function."""

    def __init__(self, cls_name, args=(), origin=None, value=None):
        super().__init__(cls_name)
        self.cls_name = cls_name
        self.args_ = tuple(args)
        self.origin = origin  # text of the raising construct
        self.value = value  # the abstract exception object (Obj) if any

    def __repr__(self):
        return f"{self.cls_name}({', '.join(map(repr, self.args_))})"


# builtin / library exception hierarchy (child -> parent)
EXC_PARENT = {
    "BaseException": None,
    "Exception": "BaseException",
    "CancelledError": "BaseException",
    "KeyboardInterrupt": "BaseException",
    "GeneratorExit": "BaseException",
    "StopIteration": "Exception",
    "ArithmeticError": "Exception",
    "AssertionError": "Exception",
    "AttributeError": "Exception",
    "LookupError": "Exception",
    "KeyError": "LookupError",
    "IndexError": "LookupError",
    "OSError": "Exception",
    "ConnectionError": "OSError",
    "ConnectionResetError": "ConnectionError",
    "TimeoutError": "OSError",
    "RuntimeError": "Exception",
    "NotImplementedError": "RuntimeError",
    "RecursionError": "RuntimeError",
    "TypeError": "Exception",
    "ValueError": "Exception",
    "UnicodeDecodeError": "ValueError",
    "InvalidStateError": "Exception",
    "SerialException": "OSError",
    # zigpy
    "ZigbeeException": "Exception",
    "APIException": "ZigbeeException",
    "ControllerException": "ZigbeeException",
    "DeliveryError": "ZigbeeException",
    "NetworkNotFormed": "ControllerException",
    "FormationFailure": "ControllerException",
    "NetworkSettingsInconsistent": "ControllerException",
    "InvalidResponse": "ZigbeeException",
    "Invalid": "Exception",
    "MultipleInvalid": "Invalid",
}
ALIASES = {"asyncio.TimeoutError": "TimeoutError", "asyncio.CancelledError": "CancelledError",
           "asyncio.InvalidStateError": "InvalidStateError"}


def exc_name_of(v):
    """Class name of a value used as an exception class in ``except`` / ``raise``."""
    if isinstance(v, ClassRef):
        return v.name
    if isinstance(v, TypeRef):
        return v.short
    if isinstance(v, str):
        return v
    return None


class Hierarchy:
    def __init__(self, repo):
        self.repo = repo
        self.parent = dict(EXC_PARENT)

    def learn(self, cls: ClassRef):
        if cls.name in self.parent:
            return
        par = "Exception"
        for b in cls.bases:
            n = exc_name_of(b)
            if n:
                if isinstance(b, ClassRef):
                    self.learn(b)
                par = n
                break
        self.parent[cls.name] = par

    def is_sub(self, name, base):
        seen = 0
        while name is not None and seen < 50:
            if name == base:
                return True
            name = self.parent.get(name, "Exception" if name not in ("BaseException",) else None)
            if name == "Exception" and base == "Exception":
                return True
            seen += 1
        return False


class Event:
    __slots__ = ("kind", "what", "args", "kwargs", "line", "extra", "depth", "func", "epoch", "callee", "ctx", "snap")

    def __init__(self, kind, what, args=(), kwargs=None, line=None, extra=None, depth=0, func=None, epoch=0,
                 callee=None, ctx=()):
        self.kind, self.what, self.args, self.kwargs = kind, what, tuple(args), dict(kwargs or {})
        self.line, self.extra, self.depth, self.func = line, extra, depth, func
        self.epoch, self.callee, self.ctx = epoch, callee, tuple(ctx)
        # argument objects are references and may be edited after the call: keep their fields as they were when it was made
        self.snap = {id(a): dict(a.fields) for a in list(self.args) + list(self.kwargs.values()) if isinstance(a, Obj)} if kind in ("call", "await") else {}

    def fields_then(self, obj):
        """fields of an argument object at the time of the call"""
        return self.snap.get(id(obj), getattr(obj, "fields", {}))

    def __repr__(self):
        if self.kind in ("call", "await"):
            a = ", ".join([repr(x) for x in self.args] + [f"{k}={v!r}" for k, v in self.kwargs.items()])
            return f"{self.kind} {self.what}({a})" + (f" -> {self.extra!r}" if self.extra is not None else "")
        if self.kind == "write":
            return f"write {self.what} := {self.args[0]!r}" if self.args else f"write {self.what}"
        return f"{self.kind} {self.what}" + (f" {self.extra!r}" if self.extra is not None else "")

    def brief(self):
        return repr(self)


class Path:
    def __init__(self, events, terminal, value, store, script, assumes):
        self.events = events
        self.terminal = terminal  # 'return' | 'raise'
        self.value = value  # return value or Exc
        self.store = store  # final self fields / locals of outermost frame
        self.script = script
        self.assumes = assumes

    def calls(self, what=None, kind=("call", "await")):
        return [e for e in self.events if e.kind in kind and (what is None or _match(e.what, what))]

    def writes(self, what=None):
        return [e for e in self.events if e.kind == "write" and (what is None or _match(e.what, what))]

    def index(self, pred):
        for i, e in enumerate(self.events):
            if pred(e):
                return i
        return -1

    def trace(self, limit=60):
        out = [e.brief() for e in self.events[:limit]]
        out.append(f"=> {self.terminal} {self.value!r}")
        return out

    def raised(self, name=None):
        return self.terminal == "raise" and (name is None or self.value.cls_name == name)


def _match(what, pat):
    if isinstance(pat, (tuple, list, set, frozenset)):
        return any(_match(what, p) for p in pat)
    if pat.endswith("*"):
        return what.startswith(pat[:-1])
    if pat.startswith("*"):
        return what.endswith(pat[1:])
    return what == pat
