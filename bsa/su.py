"""SU — schema-use checker: every EZSP command call site against the schema of every version it is live in."""
from __future__ import annotations

import ast
import re

from .errors import AnalysisError
from .te import ClassRef, FuncRef, Member, TypeRef

VERSIONS = []  # filled in place by load_versions() from EZSP._BY_VERSION of the tree under analysis (4..14 on the pinned tree)


def load_versions(repo):
    """The protocol versions the tree supports = keys of EZSP._BY_VERSION (each must have its vN package)."""
    try:
        by = repo.cls("bellows.ezsp", "EZSP").lookup("_BY_VERSION")
    except (KeyError, AnalysisError):
        by = None
    if not isinstance(by, dict) or not all(isinstance(k, int) for k in by):
        raise AnalysisError("anchor vanished: EZSP._BY_VERSION does not resolve to a version table")
    vs = sorted(by)
    for v in vs:
        if not repo.is_module(f"bellows.ezsp.v{v}.commands"):
            raise AnalysisError(f"protocol version {v} is in EZSP._BY_VERSION but bellows.ezsp.v{v}.commands does not exist")
    if len(vs) < 2 or vs[0] != 4:
        raise AnalysisError(f"supported versions resolve to {vs}; the analysis expects the legacy version 4 and at least one more")
    VERSIONS[:] = vs
    return VERSIONS
# variables / attributes that hold the EZSP facade or the protocol handler outside the handler classes (wiring)
EZSP_RECEIVERS = {"self._ezsp", "ezsp", "self._ezsp._protocol", "ezsp._protocol", "self._protocol"}
EXCLUDED_MODULE_PREFIXES = ("bellows.cli",)
STATUS_TYPES = {"EmberStatus", "EzspStatus", "sl_Status"}


def norm(n):
    return re.sub(r"[^a-z0-9]", "", n.lower())


class Site:
    def __init__(self, func, call, name, kind, versions, skipped):
        self.func, self.call, self.name, self.kind = func, call, name, kind
        self.versions, self.skipped = versions, skipped

    @property
    def key(self):
        return f"{self.func.short}:{self.name}"


class SU:
    def __init__(self, repo):
        self.repo = repo
        self.tables = {}
        for v in VERSIONS:
            t = repo.get(f"bellows.ezsp.v{v}.commands", "COMMANDS")
            if not isinstance(t, dict):
                raise AnalysisError(f"COMMANDS v{v} unresolved")
            self.tables[v] = t
        self.all_names = set().union(*[set(t) for t in self.tables.values()])
        self.vcls = {v: repo.cls(f"bellows.ezsp.v{v}", f"EZSPv{v}") for v in VERSIONS}
        self.ezsp = repo.cls("bellows.ezsp", "EZSP")
        self.parents = {}

    # ---------------------------------------------------------------- site collection
    def handler_versions(self, func):
        """Versions in which this method definition of a handler class is the resolved implementation."""
        out = []
        for v, c in self.vcls.items():
            try:
                owner, m = c.lookup_owner(func.name)
            except KeyError:
                continue
            if isinstance(m, FuncRef) and m.node is func.node and id(func.node) in self._live_methods(v):
                out.append(v)
        return out

    def _live_methods(self, v):
        """Method definitions that can run on a version-v handler: every public (or dunder) method the class resolves,
        plus the private helpers reachable from those through ``self.helper(...)`` calls resolved in that version.  A
        private helper that only the overridden methods of an older version call is dead in the newer one."""
        cache = self.__dict__.setdefault("_live_cache", {})
        if v in cache:
            return cache[v]
        c = self.vcls[v]
        resolved = {}
        for k in c.mro():
            if isinstance(k, ClassRef):
                for name, m in k.attrs.items():
                    if isinstance(m, FuncRef) and name not in resolved:
                        resolved[name] = m
        # private helpers referenced from outside the handler classes are roots too
        outside = set()
        for f in self.repo.all_functions():
            if self.is_handler_class(f.cls):
                continue
            for n in ast.walk(f.node):
                if isinstance(n, ast.Attribute) and n.attr in resolved:
                    outside.add(n.attr)
        live, work = set(), [m for name, m in resolved.items() if not name.startswith("_") or name.startswith("__") or name in outside]
        while work:
            m = work.pop()
            if id(m.node) in live:
                continue
            live.add(id(m.node))
            for n in ast.walk(m.node):
                if isinstance(n, ast.Attribute) and isinstance(n.value, ast.Name) and n.value.id in ("self", "cls") and n.attr in resolved:
                    work.append(resolved[n.attr])
        cache[v] = live
        return live

    def is_handler_class(self, cls):
        return cls is not None and any(n == "ProtocolHandler" for n in cls.base_names())

    def sites(self):
        repo = self.repo
        out = []
        for f in repo.all_functions():
            if f.mod.startswith(EXCLUDED_MODULE_PREFIXES):
                continue
            pm = self._parent_map(f)
            in_handler = self.is_handler_class(f.cls)
            in_ezsp = f.cls is not None and f.cls.name == "EZSP"
            for n in ast.walk(f.node):
                if not isinstance(n, ast.Call):
                    continue
                name, kind = None, None
                fn = n.func
                if isinstance(fn, ast.Attribute):
                    recv = ast.unparse(fn.value)
                    if fn.attr == "_command" and n.args and isinstance(n.args[0], ast.Constant) and isinstance(n.args[0].value, str):
                        if recv in EZSP_RECEIVERS or (recv == "self" and (in_ezsp or in_handler)):
                            name, kind = n.args[0].value, "_command"
                    elif recv == "self" and in_handler:
                        if not self._real_attr_in_handler(f.cls, fn.attr):
                            name, kind = fn.attr, "handler-self"
                        else:
                            name, kind = fn.attr, "method:handler-self"
                    elif recv == "self" and in_ezsp:
                        if not self.ezsp.has(fn.attr):
                            name, kind = fn.attr, "ezsp-self"
                    elif recv in EZSP_RECEIVERS:
                        if not self.ezsp.has(fn.attr) or recv.endswith("_protocol"):
                            name, kind = fn.attr, "ezsp-recv"
                if name is None:
                    continue
                if kind.startswith("method:"):
                    continue
                if name not in self.all_names:
                    # not a command in any version: either a handler method (checked by the signature rule) or nothing we know
                    if kind in ("ezsp-self", "ezsp-recv", "_command") and not self._handler_method_anywhere(name):
                        if kind == "_command" or not name.startswith("_"):
                            out.append(Site(f, n, name, kind + ":unknown", [], {}))
                    elif kind in ("ezsp-self", "ezsp-recv"):
                        out.append(Site(f, n, name, "wrapper", list(VERSIONS), {}))
                    continue
                versions = self.handler_versions(f) if in_handler else list(VERSIONS)
                live, skipped = [], {}
                for v in versions:
                    why = self._guarded_out(f, n, v, pm)
                    if why:
                        skipped[v] = why
                    else:
                        live.append(v)
                out.append(Site(f, n, name, kind, live, skipped))
        return out

    def _real_attr_in_handler(self, cls, attr):
        try:
            cls.lookup(attr)
            return True
        except KeyError:
            # defined in a subclass only? (then __getattr__ is not reached there, but here it is a command)
            return False

    def _handler_method_anywhere(self, name):
        return any(c.has(name) for c in self.vcls.values())

    def _parent_map(self, f):
        if id(f.node) not in self.parents:
            pm = {}
            for p in ast.walk(f.node):
                for ch in ast.iter_child_nodes(p):
                    pm[id(ch)] = p
            self.parents[id(f.node)] = pm
        return self.parents[id(f.node)]

    def _guarded_out(self, f, call, v, pm):
        """Reason why version v cannot reach this call site (version test evaluated, or an enclosing try that
        catches AttributeError / InvalidCommandError), else None."""
        node = call
        while id(node) in pm:
            par = pm[id(node)]
            if isinstance(par, ast.If):
                branch = "body" if any(node is s for s in par.body) else ("orelse" if any(node is s for s in par.orelse) else None)
                if branch:
                    val = self._version_test(par.test, v, f.mod)
                    if val is not None and ((branch == "body" and not val) or (branch == "orelse" and val)):
                        return f"version test `{ast.unparse(par.test)}` excludes v{v}"
            # guard clause: an earlier sibling `if <version test>: return / raise / continue / break` leaves the block for v
            for fld in ("body", "orelse", "finalbody"):
                blk = getattr(par, fld, None)
                if isinstance(blk, list) and any(node is s for s in blk):
                    for sib in blk:
                        if sib is node:
                            break
                        if isinstance(sib, ast.If):
                            tv = self._version_test(sib.test, v, f.mod)
                            if tv is True and sib.body and isinstance(sib.body[-1], (ast.Return, ast.Raise, ast.Continue, ast.Break)):
                                return f"guard clause `if {ast.unparse(sib.test)}: ...` leaves for v{v}"
                            if tv is False and sib.orelse and isinstance(sib.orelse[-1], (ast.Return, ast.Raise, ast.Continue, ast.Break)):
                                return f"guard clause `if {ast.unparse(sib.test)}: ... else: leave` leaves for v{v}"
            if isinstance(par, ast.Try) and any(node is s for s in par.body):
                for h in par.handlers:
                    names = [ast.unparse(t).split(".")[-1] for t in (h.type.elts if isinstance(h.type, ast.Tuple) else [h.type])] if h.type else ["BaseException"]
                    if any(x in ("AttributeError", "InvalidCommandError", "Exception", "BaseException") for x in names):
                        return "enclosing try catches a missing command"
            node = par
        return None

    def _version_test(self, test, v, mod=None):
        """Evaluate a test on the protocol version for version v (three-valued): comparisons of the negotiated version with
        constants (literals or module-level names), membership in constant collections, and / or / not combinations;
        None if the test is about something else."""
        import operator as o

        def operand(n):
            txt = ast.unparse(n)
            if re.search(r"(ezsp_version|_ezsp_version|\.VERSION|\bversion)$", txt):
                return ("v", v)
            if isinstance(n, ast.Constant) and isinstance(n.value, int):
                return ("c", n.value)
            if mod is not None:
                try:
                    val = self.repo.te.ev(n, self.repo.module(mod), mod)
                except Exception:
                    return None
                if isinstance(val, Member):
                    val = val.value
                if isinstance(val, int) and not isinstance(val, bool):
                    return ("c", val)
                if isinstance(val, (tuple, list, set, frozenset)) and all(isinstance(x, int) for x in val):
                    return ("c", tuple(val))
            return None

        if isinstance(test, ast.BoolOp):
            vals = [self._version_test(x, v, mod) for x in test.values]
            if isinstance(test.op, ast.And):
                if any(x is False for x in vals):
                    return False
                return True if all(x is True for x in vals) else None
            if any(x is True for x in vals):
                return True
            return False if all(x is False for x in vals) else None
        if isinstance(test, ast.UnaryOp) and isinstance(test.op, ast.Not):
            r = self._version_test(test.operand, v, mod)
            return None if r is None else (not r)
        if isinstance(test, ast.Compare):
            ops = {ast.GtE: o.ge, ast.Gt: o.gt, ast.LtE: o.le, ast.Lt: o.lt, ast.Eq: o.eq, ast.NotEq: o.ne,
                   ast.In: lambda a, b: a in b, ast.NotIn: lambda a, b: a not in b}
            left = operand(test.left)
            res = True
            seen_version = False
            for op, cmp_ in zip(test.ops, test.comparators):
                right = operand(cmp_)
                fn = ops.get(type(op))
                if left is None or right is None or fn is None:
                    return None
                seen_version = seen_version or left[0] == "v" or right[0] == "v"
                try:
                    res = res and bool(fn(left[1], right[1]))
                except TypeError:
                    return None
                left = right
            return res if seen_version else None
        return None

    # ---------------------------------------------------------------- checks
    def check_args(self, site, v):
        """None or a message: positional + keyword arguments must be exactly the tx schema's keys."""
        cid, tx, rx = self.tables[v][site.name]
        call = site.call
        args = call.args[1:] if site.kind == "_command" else call.args
        if any(isinstance(a, ast.Starred) for a in args) or any(k.arg is None for k in call.keywords):
            return None
        if not isinstance(tx, dict):
            return None
        keys = list(tx)
        if len(args) > len(keys):
            return f"{len(args)} positional arguments, the v{v} request has {len(keys)} fields {keys}"
        given = keys[: len(args)] + [k.arg for k in call.keywords]
        unknown = [k.arg for k in call.keywords if k.arg not in tx]
        if unknown:
            return f"keyword(s) {unknown} are not fields of the v{v} request {keys}"
        dup = sorted({g for g in given if given.count(g) > 1})
        if dup:
            return f"field(s) {dup} given both positionally and by keyword (v{v})"
        missing = [k for k in keys if k not in given]
        if missing:
            return f"request field(s) {missing} of v{v} are not supplied"
        return None

    def result_uses(self, site):
        """How the awaited result is consumed: ('tuple', [target names]) | ('name', var) | None."""
        pm = self._parent_map(site.func)
        node = site.call
        par = pm.get(id(node))
        if isinstance(par, ast.Await):
            node, par = par, pm.get(id(par))
        if isinstance(par, ast.Assign) and par.value is node and len(par.targets) == 1:
            t = par.targets[0]
            if isinstance(t, (ast.Tuple, ast.List)):
                return ("tuple", [ast.unparse(e) for e in t.elts], par)
            if isinstance(t, ast.Name):
                return ("name", t.id, par)
        return None

    def check_result(self, site, v):
        cid, tx, rx = self.tables[v][site.name]
        use = self.result_uses(site)
        if use is None:
            return None
        if use[0] == "tuple":
            targets = use[1]
            if not isinstance(rx, dict):
                return f"result unpacked into {len(targets)} names but the v{v} response is the struct {getattr(rx, 'name', rx)}"
            keys = list(rx)
            if len(targets) != len(keys):
                return f"result unpacked into {len(targets)} names {targets}, the v{v} response has {len(keys)} fields {keys}"
            nk = [norm(k) for k in keys]
            for i, t in enumerate(targets):
                nt = norm(t)
                if nt and nt in nk and nk.index(nt) != i and nk.count(nt) == 1 and norm(keys[i]) != nt:
                    return (f"name `{t}` is bound to response field #{i} `{keys[i]}` but the v{v} response carries `{keys[nk.index(nt)]}` "
                            f"at #{nk.index(nt)} (field order {keys})")
            # status roles: a target used as a status must sit on a status-typed field
            for i, t in enumerate(targets):
                if self._used_as_status(site.func, t, use[2]):
                    ty = rx[keys[i]]
                    tn = getattr(ty, "name", None) or getattr(ty, "short", "")
                    if tn not in STATUS_TYPES:
                        return f"`{t}` is treated as a status but response field #{i} `{keys[i]}` of v{v} has type {tn}"
            return None
        var = use[1]
        fnode = site.func.node
        if isinstance(rx, dict):
            for n in ast.walk(fnode):
                if isinstance(n, ast.Subscript) and isinstance(n.value, ast.Name) and n.value.id == var and isinstance(n.slice, ast.Constant) \
                        and isinstance(n.slice.value, int) and n.lineno >= use[2].lineno:
                    if not (-len(rx) <= n.slice.value < len(rx)):
                        return f"`{var}[{n.slice.value}]` but the v{v} response has {len(rx)} fields"
                    if self._subscript_used_as_status(site.func, n):
                        ty = list(rx.values())[n.slice.value]
                        tn = getattr(ty, "name", None) or getattr(ty, "short", "")
                        if tn not in STATUS_TYPES:
                            return f"`{var}[{n.slice.value}]` is treated as a status but that v{v} response field has type {tn}"
        elif isinstance(rx, ClassRef):
            fields = [f[0] for f in rx.struct_fields()]
            for n in ast.walk(fnode):
                if isinstance(n, ast.Attribute) and isinstance(n.value, ast.Name) and n.value.id == var and n.lineno >= use[2].lineno:
                    if n.attr not in fields and not n.attr.startswith("__") and n.attr not in ("replace", "serialize", "as_dict"):
                        return f"`{var}.{n.attr}` but the v{v} response struct {rx.name} has fields {fields}"
        return None

    def _used_as_status(self, func, name, after):
        if not re.fullmatch(r"[A-Za-z_]\w*", name):
            return False
        for n in ast.walk(func.node):
            if getattr(n, "lineno", 0) < after.lineno:
                continue
            if isinstance(n, ast.Call) and ast.unparse(n.func).endswith("from_ember_status") and n.args and ast.unparse(n.args[0]) == name:
                return True
            if isinstance(n, ast.Compare) and ast.unparse(n.left) == name and any(
                    re.search(r"(sl_Status|EmberStatus|EzspStatus)\.", ast.unparse(c)) for c in n.comparators):
                return True
        return False

    def _subscript_used_as_status(self, func, sub):
        pm = self._parent_map(func)
        par = pm.get(id(sub))
        if isinstance(par, ast.Call) and ast.unparse(par.func).endswith("from_ember_status"):
            return True
        if isinstance(par, ast.Compare) and par.left is sub and any(re.search(r"(sl_Status|EmberStatus|EzspStatus)\.", ast.unparse(c)) for c in par.comparators):
            return True
        return False

    # handler wrapper methods called through the facade: keywords must be parameters in every version
    def check_wrapper(self, site):
        msgs = []
        for v, c in self.vcls.items():
            try:
                m = c.method(site.name)
            except KeyError:
                msgs.append((v, f"no method `{site.name}` on the v{v} handler"))
                continue
            a = m.node.args
            params = [x.arg for x in a.posonlyargs + a.args][1:]
            kwonly = [x.arg for x in a.kwonlyargs]
            call = site.call
            if any(isinstance(x, ast.Starred) for x in call.args) or any(k.arg is None for k in call.keywords):
                continue
            if len(call.args) > len(params) and not a.vararg:
                msgs.append((v, f"{len(call.args)} positional arguments for v{v} `{site.name}({', '.join(params)})`"))
                continue
            given = params[: len(call.args)] + [k.arg for k in call.keywords]
            bad = [k.arg for k in call.keywords if k.arg not in params + kwonly and not a.kwarg]
            if bad:
                msgs.append((v, f"keyword(s) {bad} are not parameters of v{v} `{site.name}({', '.join(params + kwonly)})`"))
                continue
            ndef = len(a.defaults)
            required = params[: len(params) - ndef] + [k for k, d in zip(kwonly, a.kw_defaults) if d is None]
            miss = [p for p in required if p not in given]
            if miss:
                msgs.append((v, f"required parameter(s) {miss} of v{v} `{site.name}` not supplied"))
        return msgs


def reachable_names(repo, roots, depth=6):
    """Names of the functions reachable from ``roots`` (list of FuncRef) through calls of same-class methods
    (self.x / cls.x through the MRO) and module-level functions of the same module."""
    seen, names, work = set(), set(), [(f, 0) for f in roots]
    while work:
        f, d = work.pop()
        if f.qual in seen or d > depth:
            continue
        seen.add(f.qual)
        names.add(f.name)
        env = repo.module(f.mod) or {}
        for n in ast.walk(f.node):
            if not isinstance(n, ast.Call):
                continue
            fn = n.func
            g = None
            if isinstance(fn, ast.Attribute) and isinstance(fn.value, ast.Name) and fn.value.id in ("self", "cls") and f.cls is not None:
                try:
                    g = f.cls.lookup(fn.attr)
                except KeyError:
                    g = None
            elif isinstance(fn, ast.Name):
                g = env.get(fn.id)
            if isinstance(g, FuncRef):
                work.append((g, d + 1))
    return names
