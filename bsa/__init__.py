"""bsa — bellows static analyser (pure standard library)."""
