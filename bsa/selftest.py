"""Thorough tier: run the property's rules against every seeded change of /verif/seeded that targets it.

Each seeded patch is applied to a scratch copy of /repo/bellows (never to /repo).  The result is *reported* in the
evidence file; it never changes the verdict on /repo (a patch that no longer applies to an edited tree is skipped,
a missed seed is listed as missed)."""
from __future__ import annotations

import json
import os
import shutil
import subprocess
import tempfile

from .core import VERIF, Run, load_known, match_known
from .te import Repo


def run_for(prop, repo_root, seed=0):
    base = os.path.join(VERIF, "seeded")
    out = {"applied": 0, "detected": 0, "skipped": [], "missed": [], "detail": []}
    if not os.path.isdir(base):
        return {"selftest": out}
    known = load_known()
    for sid in sorted(os.listdir(base)):
        sd = os.path.join(base, sid)
        mp = os.path.join(sd, "meta.json")
        if not os.path.exists(mp):
            continue
        meta = json.load(open(mp))
        if meta.get("breaks") != prop:
            continue
        td = tempfile.mkdtemp(prefix="bsa-selftest-")
        try:
            shutil.copytree(os.path.join(repo_root, "bellows"), os.path.join(td, "bellows"))
            p = subprocess.run(["patch", "-p1", "-s", "-f", "-i", os.path.join(sd, "patch.diff")], cwd=td,
                               capture_output=True, text=True)
            if p.returncode != 0:
                out["skipped"].append(sid)
                continue
            out["applied"] += 1
            run = Run(Repo(td), prop, "quick", seed).execute()
            vs = [v for v in run.all_violations() if not match_known(v, prop, known)]
            if vs:
                out["detected"] += 1
                out["detail"].append({"seed": sid, "rules": sorted({v.rule for v in vs}), "first": vs[0].message[:200]})
            else:
                out["missed"].append(sid)
                out["detail"].append({"seed": sid, "rules": [], "errors": [r for r, _ in run.errors()]})
        finally:
            shutil.rmtree(td, ignore_errors=True)
    for m in out["missed"]:
        print(f"  selftest: seeded change {m} is NOT detected by the rules of {prop}")
    print(f"  selftest: {out['detected']}/{out['applied']} seeded changes for {prop} detected, {len(out['skipped'])} skipped")
    return {"selftest": out}
