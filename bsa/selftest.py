"""Thorough tier: test the checker itself against the committed corpora.

* every seeded change of /verif/seeded that targets the property (applied to a scratch copy of /repo/bellows, never to
  /repo) must be reported by the property's rules;
* every behaviour-preserving change of /verif/refactors must leave the property's rules silent (a violation there is a
  false alarm, an analysis error a robustness gap).

The result is *reported* in the evidence file (``selftest``) and on stdout; it never changes the verdict on /repo, which
must depend on /repo only (a patch that no longer applies to an edited tree is skipped)."""
from __future__ import annotations

import json
import os
import shutil
import subprocess
import tempfile
from concurrent.futures import ProcessPoolExecutor

from .core import VERIF


def _one(args):
    kind, sid, sd, prop, repo_root, seed = args
    from . import rules  # noqa: F401  (registers the rules in the worker)
    from .core import Run, load_known, match_known
    from .te import Repo

    known = load_known()
    td = tempfile.mkdtemp(prefix="bsa-selftest-")
    try:
        shutil.copytree(os.path.join(repo_root, "bellows"), os.path.join(td, "bellows"))
        p = subprocess.run(["patch", "-p1", "-s", "-f", "-i", os.path.join(sd, "patch.diff")], cwd=td, capture_output=True, text=True)
        if p.returncode != 0:
            return kind, sid, "skipped", [], []
        run = Run(Repo(td), prop, "quick", seed).execute()
        vs = [v for v in run.all_violations() if not match_known(v, prop, known)]
        return kind, sid, ("violation" if vs else ("error" if run.errors() else "silent")), sorted({v.rule for v in vs}), [r for r, _ in run.errors()]
    except Exception as ex:  # pragma: no cover
        return kind, sid, "error", [], [repr(ex)[:100]]
    finally:
        shutil.rmtree(td, ignore_errors=True)


def run_for(prop, repo_root, seed=0):
    jobs = []
    base = os.path.join(VERIF, "seeded")
    if os.path.isdir(base):
        for sid in sorted(os.listdir(base)):
            sd = os.path.join(base, sid)
            mp = os.path.join(sd, "meta.json")
            if os.path.exists(mp) and json.load(open(mp)).get("breaks") == prop:
                jobs.append(("seed", sid, sd, prop, repo_root, seed))
    rbase = os.path.join(VERIF, "refactors")
    if os.path.isdir(rbase):
        for rid in sorted(os.listdir(rbase)):
            rd = os.path.join(rbase, rid)
            if os.path.exists(os.path.join(rd, "patch.diff")):
                jobs.append(("refactor", rid, rd, prop, repo_root, seed))
    out = {"applied": 0, "detected": 0, "skipped": [], "missed": [], "detail": [],
           "refactorings": {"applied": 0, "silent": 0, "false_alarms": [], "analysis_errors": [], "skipped": []}}
    if not jobs:
        return {"selftest": out}
    with ProcessPoolExecutor(max_workers=min(14, os.cpu_count() or 2)) as ex:
        results = list(ex.map(_one, jobs, chunksize=2))
    for kind, sid, verdict, rules_, errs in results:
        if kind == "seed":
            if verdict == "skipped":
                out["skipped"].append(sid)
                continue
            out["applied"] += 1
            if verdict == "violation":
                out["detected"] += 1
                out["detail"].append({"seed": sid, "rules": rules_})
            else:
                out["missed"].append(sid)
                out["detail"].append({"seed": sid, "rules": [], "errors": errs})
        else:
            r = out["refactorings"]
            if verdict == "skipped":
                r["skipped"].append(sid)
                continue
            r["applied"] += 1
            if verdict == "silent":
                r["silent"] += 1
            elif verdict == "violation":
                r["false_alarms"].append({"refactoring": sid, "rules": rules_})
            else:
                r["analysis_errors"].append({"refactoring": sid, "rules": errs})
    for m in out["missed"]:
        print(f"  selftest: seeded change {m} is NOT reported as a violation by the rules of {prop}")
    for fa in out["refactorings"]["false_alarms"]:
        print(f"  selftest: behaviour-preserving change {fa['refactoring']} raises a FALSE ALARM in {fa['rules']}")
    for ae in out["refactorings"]["analysis_errors"]:
        print(f"  selftest: behaviour-preserving change {ae['refactoring']} cannot be analysed by {ae['rules']}")
    r = out["refactorings"]
    print(f"  selftest: {out['detected']}/{out['applied']} seeded changes for {prop} detected ({len(out['skipped'])} skipped); "
          f"{r['silent']}/{r['applied']} behaviour-preserving changes silent")
    return {"selftest": out}
