"""CANON - recovery of renamed anchor names.

The rules address the state attributes and helper methods the properties are anchored on by name
(``_pending_data_frames``, ``_handle_ack``, ``_req_lock`` ...).  A consistent rename of such a private name is a
behaviour-preserving edit; without help the rules would lose their anchors (analysis error) or set up receiver
objects with attributes the code no longer reads.  This module compares the tree under analysis with *shape
fingerprints* of the pinned tree (``pinned_shapes.json``, generated once by ``tools/gen_pinned.py``): for every class,
the statements in which each ``self.<attr>`` occurs and the statements of each method, with all identifiers
anonymised.  A pinned name that is missing from the class is matched with a name that is new in the class when their
fingerprints agree (multiset Jaccard similarity, unique best match); the new name is then rewritten to the pinned
one in the in-memory syntax trees, consistently across the package, before any rule runs.

This only *recovers names*; it never decides a property.  Every verdict is computed by the rules on the renamed tree,
where a wrong guess shows up as a violation or analysis error exactly as a wrong edit would.  When nothing matches,
the anchors stay missing and the rules report the vanished anchor as before.  Recovered names are listed in the
evidence file (``renamed_anchors``).
"""
from __future__ import annotations

import ast
import hashlib
import json
import os
from collections import Counter

SHAPES_FILE = os.path.join(os.path.dirname(__file__), "pinned_shapes.json")
SIMPLE = (ast.Assign, ast.AugAssign, ast.AnnAssign, ast.Expr, ast.Return, ast.Delete, ast.Raise, ast.Assert)


def _h(s):
    return hashlib.sha1(s.encode()).hexdigest()[:10]


def _shape(node, mark=None):
    """Structure of an expression / simple statement with identifiers anonymised; ``mark`` (an Attribute node) is '@'."""
    if node is mark:
        return "@"
    if isinstance(node, ast.Name):
        return "self" if node.id == "self" else "N"
    if isinstance(node, ast.Attribute):
        return f"({_shape(node.value, mark)}.A)"
    if isinstance(node, ast.Constant):
        return f"c:{type(node.value).__name__}:{node.value!r}" if isinstance(node.value, (int, bool, type(None))) else f"c:{type(node.value).__name__}"
    if isinstance(node, ast.AST):
        parts = []
        for name, val in ast.iter_fields(node):
            if name in ("ctx", "type_comment", "annotation", "returns", "type_params", "lineno", "col_offset", "end_lineno", "end_col_offset", "kind"):
                continue
            if name == "arg" and isinstance(val, str):
                parts.append("kw")  # keyword names are part of other APIs: kept out, they do not follow a rename
                continue
            if isinstance(val, list):
                parts.append("[" + ",".join(_shape(v, mark) for v in val) + "]")
            elif isinstance(val, ast.AST):
                parts.append(_shape(val, mark))
            elif isinstance(val, str):
                parts.append("s")
            elif val is not None:
                parts.append(repr(val))
        return f"{type(node).__name__}({','.join(parts)})"
    return repr(node)


def _stmts(body):
    for st in body:
        yield st
        for fld in ("body", "orelse", "finalbody"):
            yield from _stmts(getattr(st, fld, []) or [])
        for h in getattr(st, "handlers", []) or []:
            yield from _stmts(h.body)
        for c in getattr(st, "cases", []) or []:
            yield from _stmts(c.body)


def _header(st):
    """The part of a statement that is evaluated at the statement itself (not its nested blocks)."""
    if isinstance(st, SIMPLE):
        return [st]
    out = []
    for fld in ("test", "iter", "target", "subject", "value"):
        v = getattr(st, fld, None)
        if isinstance(v, ast.AST):
            out.append(v)
    for it in getattr(st, "items", []) or []:
        out.append(it.context_expr)
        if it.optional_vars is not None:
            out.append(it.optional_vars)
    for h in getattr(st, "handlers", []) or []:
        if h.type is not None:
            out.append(h.type)
    return out


def _func_fp(fnode):
    fp = Counter()
    for st in _stmts(fnode.body):
        if isinstance(st, (ast.FunctionDef, ast.AsyncFunctionDef, ast.ClassDef)):
            continue
        for part in _header(st):
            fp[_h(type(st).__name__ + ":" + _shape(part))] += 1
    fp[_h(f"args:{len(fnode.args.args)}:{len(fnode.args.kwonlyargs)}:{isinstance(fnode, ast.AsyncFunctionDef)}")] += 1
    return fp


def _class_fps(cnode):
    attrs, methods = {}, {}
    for item in cnode.body:
        if not isinstance(item, (ast.FunctionDef, ast.AsyncFunctionDef)):
            continue
        methods[item.name] = _func_fp(item)
        for st in _stmts(item.body):
            if isinstance(st, (ast.FunctionDef, ast.AsyncFunctionDef, ast.ClassDef)):
                nested = list(_stmts(st.body))
            else:
                nested = []
            for part in _header(st) if not isinstance(st, (ast.FunctionDef, ast.AsyncFunctionDef, ast.ClassDef)) else []:
                for n in ast.walk(part):
                    if isinstance(n, ast.Attribute) and isinstance(n.value, ast.Name) and n.value.id == "self":
                        attrs.setdefault(n.attr, Counter())[_h(type(st).__name__ + ":" + _shape(part, n))] += 1
            del nested
    # only attributes that are stored somewhere in the class are state
    stored = {n.attr for f in cnode.body if isinstance(f, (ast.FunctionDef, ast.AsyncFunctionDef)) for n in ast.walk(f)
              if isinstance(n, ast.Attribute) and isinstance(n.ctx, ast.Store) and isinstance(n.value, ast.Name) and n.value.id == "self"}
    return {a: fp for a, fp in attrs.items() if a in stored}, methods


def fingerprints(trees):
    out = {}
    for mod, tree in trees.items():
        for st in tree.body:
            if isinstance(st, ast.ClassDef):
                attrs, methods = _class_fps(st)
                out[f"{mod}:{st.name}"] = {"attrs": {a: dict(fp) for a, fp in attrs.items()}, "methods": {m: dict(fp) for m, fp in methods.items()}}
            elif isinstance(st, (ast.FunctionDef, ast.AsyncFunctionDef)):
                out.setdefault(f"{mod}:<module>", {"attrs": {}, "methods": {}})["methods"][st.name] = dict(_func_fp(st))
    return out


def _jaccard(a, b):
    a, b = Counter(a), Counter(b)
    inter = sum((a & b).values())
    union = sum((a | b).values())
    return inter / union if union else 0.0


def _match(pinned, current, threshold=0.6, margin=0.1):
    """{new name: pinned name} for pinned names that are missing, matched with names that are new."""
    missing = [n for n in pinned if n not in current]
    new = [n for n in current if n not in pinned]
    if not missing or not new:
        return {}
    cand = []
    for m in missing:
        scores = sorted(((_jaccard(pinned[m], current[n]), n) for n in new), reverse=True)
        if scores and scores[0][0] >= threshold and (len(scores) == 1 or scores[0][0] - scores[1][0] >= margin):
            cand.append((scores[0][0], m, scores[0][1]))
    out, used = {}, set()
    for score, m, n in sorted(cand, reverse=True):
        if n in used:
            continue
        # the match must be mutual: the pinned name is also the best candidate for the new one
        back = sorted(((_jaccard(pinned[x], current[n]), x) for x in missing), reverse=True)
        if back[0][1] != m:
            continue
        used.add(n)
        out[n] = m
    return out


def recover(trees):
    """Rename map for the parsed package ``{module: ast.Module}`` (applied in place); returns the list of recoveries."""
    if not os.path.exists(SHAPES_FILE):
        return []
    with open(SHAPES_FILE) as fh:
        pinned = json.load(fh)
    cur = fingerprints(trees)
    attr_map, name_map, report = {}, {}, []
    for key, pin in pinned.items():
        if key not in cur:
            continue
        for kind, table in (("attrs", attr_map), ("methods", name_map)):
            for new, old in _match(pin[kind], cur[key][kind]).items():
                if table.get(new, old) != old:
                    continue
                table[new] = old
                report.append({"scope": key, "kind": "attribute" if kind == "attrs" else "function", "found": new, "pinned": old})
    if not attr_map and not name_map:
        return []
    # never rename onto a name that is in use
    used = set()
    for tree in trees.values():
        for n in ast.walk(tree):
            if isinstance(n, ast.Attribute):
                used.add(n.attr)
            elif isinstance(n, (ast.FunctionDef, ast.AsyncFunctionDef)):
                used.add(n.name)
    attr_map = {n: o for n, o in attr_map.items() if o not in used}
    name_map = {n: o for n, o in name_map.items() if o not in used}
    report = [r for r in report if (r["kind"] == "attribute" and r["found"] in attr_map) or (r["kind"] == "function" and r["found"] in name_map)]
    both = {**attr_map, **name_map}
    for tree in trees.values():
        for n in ast.walk(tree):
            if isinstance(n, ast.Attribute) and n.attr in both:
                n.attr = both[n.attr]
            elif isinstance(n, (ast.FunctionDef, ast.AsyncFunctionDef)) and n.name in name_map:
                n.name = name_map[n.name]
            elif isinstance(n, ast.Name) and n.id in name_map:
                n.id = name_map[n.id]
    return report
