"""Rule registry, per-run context, evidence / violation writers, known findings.

A *rule* is a function ``rule(ctx)`` registered with the properties it is a
necessary condition of.  It reports through the context:

``ctx.ok(n)``                  n obligations examined and discharged
``ctx.case(...)``              finite-domain case / path evaluated (counts only)
``ctx.violation(...)``         one obligation failed (keyed by rule + construct)
``ctx.sample(...)``            an actual instance written to the evidence file

Exit codes (see DESIGN.md section 2): 0 held, 1 VIOLATION, 2 ANALYSIS-ERROR.
"""
from __future__ import annotations

import json
import os
import re
import time
import traceback

from .errors import AnalysisError, FormNotRecognised

VERIF = os.path.dirname(os.path.dirname(os.path.abspath(__file__)))
KNOWN_FILE = os.path.join(VERIF, "known_findings.json")

RULES = {}  # id -> Rule


class Rule:
    def __init__(self, rid, props, template, floor, fn, doc, tier, fallback=(), anchor_fallback=()):
        self.id, self.props, self.template, self.floor, self.fn = rid, tuple(props), template, floor, fn
        self.doc = doc
        self.tier = tier
        self.fallback = tuple(fallback)
        self.anchor_fallback = tuple(anchor_fallback)


def rule(rid, props, template, floor=1, tier="quick", fallback=(), anchor_fallback=()):
    """Register a rule.  ``floor``: minimum number of obligations the rule must examine on a
    tree where its anchors exist (instance floor; below it the run is an ANALYSIS-ERROR)."""

    def deco(fn):
        if rid in RULES:
            raise RuntimeError(f"duplicate rule id {rid}")
        RULES[rid] = Rule(rid, props, template, floor, fn, (fn.__doc__ or "").strip(), tier, fallback, anchor_fallback)
        return fn

    return deco


class Violation:
    def __init__(self, rule_id, key, message, file=None, func=None, line=None, trace=None, construct=None):
        self.rule, self.key, self.message = rule_id, key, message
        self.file, self.func, self.line, self.trace, self.construct = file, func, line, trace, construct

    def as_dict(self):
        return {
            "rule": self.rule, "key": self.key, "message": self.message, "file": self.file,
            "function": self.func, "line": self.line, "construct": self.construct, "trace": self.trace,
        }


class RuleCtx:
    def __init__(self, run, r: Rule):
        self.run, self.r = run, r
        self.repo = run.repo
        self.obligations = 0
        self.discharged = 0
        self.evaluations = 0
        self.distinct = set()
        self.violations = []
        self.samples = []
        self.notes = []
        self.functions = set()
        self.paths = 0
        self.call_sites = 0

    # -- reporting
    def ok(self, n=1, what=None):
        self.obligations += n
        self.discharged += n
        if what is not None:
            self.distinct.add(_norm(what))

    def case(self, n=1, what=None):
        self.evaluations += n
        if what is not None:
            self.distinct.add(_norm(what))

    def sample(self, s, limit=3):
        if len(self.samples) < limit:
            self.samples.append(_jsonable(s))

    def note(self, s):
        self.notes.append(s)

    def fn(self, f):
        """Record a function as analysed (FuncRef or qualified name)."""
        self.functions.add(getattr(f, "qual", f))

    def violation(self, key, message, *, func=None, node=None, file=None, line=None, trace=None, construct=None, props=None):
        """``props``: the properties this finding convicts, when that is narrower than the rule's attachment list (a rule
        that walks several classes or tables is attached to every property one of them serves; a finding in one class must
        not alarm the check of a property served only by another)."""
        if props is not None and self.run.prop not in props:
            self.obligations += 1
            self.discharged += 1
            self.out_of_scope = getattr(self, "out_of_scope", 0) + 1
            return
        self.obligations += 1
        if func is not None and file is None:
            file = func.file
        if node is not None and line is None:
            line = getattr(node, "lineno", None)
        fq = getattr(func, "qual", func)
        self.violations.append(
            Violation(self.r.id, f"{self.r.id}:{key}", message, file, fq, line, _jsonable(trace), construct)
        )

    def require(self, cond, key, message, **kw):
        if cond:
            self.ok(1, key)
        else:
            self.violation(key, message, **kw)
        return bool(cond)

    def anchor(self, cond, what):
        if not cond:
            raise AnalysisError(f"anchor vanished: {what}")


def _norm(x):
    return x if isinstance(x, (str, int, tuple)) else repr(x)


def _jsonable(x, depth=0):
    if x is None or isinstance(x, (bool, int, float, str)):
        return x
    if depth > 6:
        return repr(x)
    if isinstance(x, dict):
        return {str(k): _jsonable(v, depth + 1) for k, v in x.items()}
    if isinstance(x, (list, tuple, set, frozenset)):
        return [_jsonable(v, depth + 1) for v in x]
    return repr(x)


# ------------------------------------------------------------------------- known findings
def load_known():
    if not os.path.exists(KNOWN_FILE):
        return []
    with open(KNOWN_FILE) as f:
        return json.load(f).get("findings", [])


def match_known(v: Violation, prop, known):
    for k in known:
        if k.get("status") != "known":
            continue  # 'fixed' entries suppress nothing
        if prop not in k.get("properties", []):
            continue
        if k.get("key") == v.key:
            return k
    return None


# ------------------------------------------------------------------------- a run
class Run:
    def __init__(self, repo, prop, tier="quick", seed=0, rules=None):
        self.repo, self.prop, self.tier, self.seed = repo, prop, tier, seed
        self.rules = rules
        self.results = []  # (Rule, RuleCtx, error)
        self.t0 = time.time()
        self.shared = {}

    def selected(self):
        out = []
        for r in RULES.values():
            if self.prop not in r.props:
                continue
            if self.rules and r.id not in self.rules:
                continue
            if r.tier == "thorough" and self.tier != "thorough":
                continue
            out.append(r)
        return sorted(out, key=lambda r: _rid_key(r.id))

    def execute(self):
        from .su import load_versions

        try:
            load_versions(self.repo)
        except AnalysisError as ex:
            class _R:  # a pseudo rule carrying the error
                id, template, floor, doc, props = "VERSIONS", "T-TAB", 0, "supported protocol versions resolve", ()
            self.results.append((_R, RuleCtx(self, _R), str(ex)))
            return self
        for r in self.selected():
            ctx = RuleCtx(self, r)
            err = None
            try:
                r.fn(ctx)
                if not ctx.violations and ctx.obligations < r.floor:
                    raise AnalysisError(
                        f"rule {r.id} examined {ctx.obligations} obligations, below its confirmed floor {r.floor}"
                    )
            except FormNotRecognised as ex:
                err = f"{ex}"
                ctx.form_not_recognised = True
            except AnalysisError as ex:
                err = f"{ex}"
            except RecursionError as ex:  # pragma: no cover
                err = f"recursion limit in {r.id}: {ex}"
            except Exception as ex:  # analyser defect: never a silent pass, never a VIOLATION
                err = f"analyser crashed in {r.id}: {ex!r}\n{traceback.format_exc(limit=8)}"
            self.results.append((r, ctx, err))
        # shape-specific rules that met another shape: deferred to their shape-independent fallbacks, if those ran and held
        by_id = {r.id: (r, c, e) for r, c, e in self.results}
        # A rule with declared fallbacks reasons over one *shape* of the code.  Its findings and its failures are trusted only when
        # the shape-independent fallbacks (concrete evaluation against a reference) do not hold either: when they all ran and held,
        # the rule is recorded as deferred - whether it did not recognise the form, crashed on it, or read a violation into it.
        for i, (r, ctx, err) in enumerate(self.results):
            if (err or ctx.violations) and getattr(r, "fallback", ()):
                fbs = [by_id.get(fid) for fid in r.fallback]
                if all(fb is not None and fb[2] is None and not fb[1].violations for fb in fbs):
                    why = err or f"{len(ctx.violations)} uncorroborated finding(s), first: {ctx.violations[0].message[:300]}"
                    ctx.notes.append(f"deferred to {', '.join(r.fallback)} (shape-independent, held): {why}")
                    ctx.deferred = True
                    ctx.violations = []  # verdicts of a model that does not fit the code's shape are not trusted
                    self.results[i] = (r, ctx, None)
        # A rule anchored in one *representation* of some state (an attribute it names) that has lost that anchor defers to rules that
        # decide the same behaviour from the outside (histories judged by effects only) - when those ran and held.  Only the vanished
        # anchor is deferred: findings and other errors of the rule stand.
        for i, (r, ctx, err) in enumerate(self.results):
            if err and err.startswith("anchor vanished") and getattr(r, "anchor_fallback", ()) and not ctx.violations:
                fbs = [by_id.get(fid) for fid in r.anchor_fallback]
                if all(fb is not None and fb[2] is None and not fb[1].violations for fb in fbs):
                    ctx.notes.append(f"deferred to {', '.join(r.anchor_fallback)} (representation-independent, held): {err}")
                    ctx.deferred = True
                    self.results[i] = (r, ctx, None)
        return self

    # -- summary
    def all_violations(self):
        return [v for _, c, _ in self.results for v in c.violations]

    def errors(self):
        return [(r.id, e) for r, _, e in self.results if e]


def _rid_key(rid):
    return [int(x) if x.isdigit() else x for x in re.split(r"(\d+)", rid)]


def finish(run: Run, level_text, assumptions, undecided, extra=None, out=print, exhaustive=False):
    """Write evidence + violation files, print the verdict lines, return the exit code."""
    prop = run.prop
    known = load_known()
    ev_dir = os.path.join(VERIF, "evidence")
    vio_dir = os.path.join(ev_dir, "violations")
    os.makedirs(vio_dir, exist_ok=True)
    # clear stale violation files of this property
    for f in os.listdir(vio_dir):
        if f.startswith(prop + "-"):
            os.unlink(os.path.join(vio_dir, f))

    new, matched = [], []
    for v in run.all_violations():
        k = match_known(v, prop, known)
        (matched if k else new).append((v, k))

    rules_ev, samples = [], []
    obligations = discharged = evaluations = paths = call_sites = 0
    distinct = set()
    functions = set()
    for r, c, err in run.results:
        obligations += c.obligations
        discharged += c.discharged
        evaluations += c.evaluations + c.obligations
        paths += c.paths
        call_sites += c.call_sites
        distinct |= {(r.id, d) for d in c.distinct}
        functions |= c.functions
        rules_ev.append({
            "id": r.id, "template": r.template, "statement": " ".join(r.doc.split("\n\n")[0].split())[:700],
            "obligations": c.obligations, "discharged": c.discharged, "cases": c.evaluations, "paths": c.paths,
            "floor": r.floor,
            "verdict": "analysis-error" if err else ("violation" if any(v.rule == r.id for v, _ in new) else
                                                       ("known-finding" if c.violations else
                                                        ("deferred" if getattr(c, "deferred", False) else "holds"))),
            **({"error": err} if err else {}),
            **({"notes": c.notes} if c.notes else {}),
        })
        for s in c.samples:
            samples.append({"rule": r.id, "instance": s})

    # one report per distinct finding key (a finite-domain rule may hit the same construct in many cases)
    grouped = {}
    for v, k in new:
        grouped.setdefault(v.key, []).append(v)
    all_new = new
    new = [(vs[0], None) for vs in grouped.values()]
    replay_paths = []
    for i, (v, _) in enumerate(new):
        p = os.path.join(vio_dir, f"{prop}-{i}.json")
        with open(p, "w") as f:
            json.dump({"property": prop, **v.as_dict(), "instances": len(grouped[v.key]),
                       "other_instances": [x.message for x in grouped[v.key][1:6]]}, f, indent=1)
        replay_paths.append(p)

    errs = run.errors()
    wall = time.time() - run.t0
    evidence = {
        "property_id": prop,
        "tier": run.tier,
        "seed": run.seed,
        "level": "other",
        "coverage": {
            "explanation": level_text,
            "obligations": obligations,
            "discharged": discharged,
            "evaluations": max(evaluations, 1),
            "distinct_nontrivial": len(distinct),
            "rule": "an obligation is one rule instance (site, path, table row or finite-domain case) examined on "
                    "this run; distinct_nontrivial counts distinct (rule, instance-key) pairs that examined at "
                    "least one site/case of the current tree",
            "exhaustive": bool(exhaustive),
            "paths": paths,
            "call_sites": call_sites,
            "functions_analysed": sorted(functions),
            "files_parsed": len(run.repo.files()),
            "rules": rules_ev,
            "samples": samples[:40] or [{"note": "no sample recorded"}],
            "undecided_clauses": undecided,
            "known_findings_matched": [{"key": v.key, "what": k.get("what")} for v, k in matched],
            "new_violations": [v.as_dict() for v, _ in new][:50],
            "analysis_errors": [{"rule": r, "error": e} for r, e in errs],
            "renamed_anchors": list(getattr(run.repo, "renamed", []) or []),
            **(extra or {}),
        },
        "assumptions": assumptions,
        "wall_s": round(wall, 3),
        "violations": len(new),
    }
    with open(os.path.join(ev_dir, f"{prop}.json"), "w") as f:
        json.dump(evidence, f, indent=1)

    new_rules = {v.rule for v, _ in new}
    for r, c, err in run.results:
        verdict = "ERROR" if err else ("VIOLATION" if r.id in new_rules else ("known-finding" if c.violations else
                                                                                 ("deferred (see notes)" if getattr(c, "deferred", False) else "holds")))
        out(f"  {r.id:8s} {r.template:7s} obligations={c.obligations:<5d} cases={c.evaluations:<6d} {verdict}")
    seen_known = set()
    for v, k in matched:
        if k["key"] in seen_known:
            continue
        seen_known.add(k["key"])
        out(f"KNOWN-FINDING: property={prop} {k.get('what')} [{v.key}]")
    for (v, _), p in zip(new, replay_paths):
        loc = f"{v.file}:{v.line}" if v.file else "?"
        more = len(grouped[v.key]) - 1
        out(f"  {v.rule} at {loc} in {v.func}: {v.message}" + (f"  (+{more} more instances)" if more else ""))
        out(f"VIOLATION property={prop} replay={p}")
    if new:
        return 1
    if errs:
        for r, e in errs:
            out(f"ANALYSIS-ERROR property={prop} rule={r} {e}")
        return 2
    out(f"OK property={prop} tier={run.tier} rules={len(run.results)} obligations={obligations} "
        f"discharged={discharged} wall={wall:.2f}s")
    return 0
