"""PX — path explorer: enumerates the paths of one function over an abstract store.

Path enumeration by re-execution under a *choice script* (each fork or modelled
outcome is a numbered choice).  Not symbolic execution: no path constraint is
built or solved; an undetermined condition forks, and the decision is memoised
on the condition's *value tag* so a repeated test of the same abstract value is
consistent along one path.
"""
from __future__ import annotations

import ast
import operator

from .errors import AnalysisError, Unsupported
from .pxv import (ALIASES, NT, Bound, Closure, Event, Exc, Hierarchy, Iter, Obj, Partial, Path, PyModel, Sym, exc_name_of, _match)
from .te import ClassRef, FuncRef, Member, ModuleRef, Record, TypeRef, Unknown


class _Return(Exception):
    def __init__(self, value):
        self.value = value


class _Break(Exception):
    pass


class _Continue(Exception):
    pass


class _Infeasible(BaseException):
    """The current path rests on a combination of guesses that an assertion of the code rules out: it is dropped."""


class Truncated(Exception):
    """Path abandoned because a loop bound was hit (never counted as a path)."""


class Outcomes:
    """Model of a call / await: list of ('ok', value) | ('raise', ExcName[, value])."""

    def __init__(self, *outs):
        self.outs = list(outs)


def OK(value=None):
    return ("ok", value)


def RAISE(name, value=None):
    return ("raise", name, value)


class Frame:
    def __init__(self, func, locs, self_obj=None, parent=None, mod=None, depth=0):
        self.func, self.locals, self.self_obj, self.parent = func, locs, self_obj, parent
        self.mod = mod or (func.mod if func is not None else None)
        self.depth = depth
        self.on_yield = None
        self.cur_exc = None


LOGGER_PREFIXES = ("LOGGER.", "_LOGGER.", "logging.")

PURE_BUILTINS = {"divmod", "pow", "round", "ord", "chr", "hex", "len", "range", "min", "max", "abs", "int", "bool", "tuple", "list", "dict", "set", "frozenset",
                 "enumerate", "zip", "sorted", "str", "bytes", "bytearray", "float", "sum", "any", "all", "repr",
                 "reversed", "hash", "callable", "iter", "print", "id"}


class _GenAbort(BaseException):
    """Unwinds an abandoned generator body (the path that created it has ended)."""


class _LazyGen:
    """A synchronous generator function of the repository, run lazily: the body executes on its own thread, in strict
    alternation with the consumer (one of the two runs at any time), and is suspended at each ``yield``."""

    def __init__(self, px, func, recv, args, kwargs, frame):
        import threading

        self.px, self.func, self.recv, self.args, self.kwargs, self.frame = px, func, recv, args, kwargs, frame
        self.resume, self.ready = threading.Semaphore(0), threading.Semaphore(0)
        self.thread, self.done, self.abort = None, False, False
        self.value, self.error = None, None
        px._live_gens.append(self)

    def __iter__(self):
        return self

    def _body(self):
        self.resume.acquire()
        try:
            if self.abort:
                return

            def on_yield(v):
                self.value = v
                self.ready.release()
                self.resume.acquire()
                if self.abort:
                    raise _GenAbort()
                if getattr(self, "pending", None) is not None:
                    ex_, self.pending = self.pending, None
                    raise ex_  # generator.throw(): the exception appears at the suspended yield

            self.px.call_function_gen(self.func, self.recv, self.args, self.kwargs, self.frame, on_yield)
        except _GenAbort:
            pass
        except BaseException as ex:  # Exc, Truncated, AnalysisError, control signals: re-raised in the consumer
            self.error = ex
        finally:
            self.done = True
            self.ready.release()

    def __next__(self):
        import threading

        if self.done:
            raise StopIteration
        if self.thread is None:
            self.thread = threading.Thread(target=self._body, daemon=True)
            self.thread.start()
        self.resume.release()
        self.ready.acquire()
        if self.error is not None:
            err, self.error = self.error, None
            raise err
        if self.done:
            raise StopIteration
        return self.value

    def throw(self, ex):
        """generator.throw(ex): True when the generator finished without re-raising (it swallowed the exception); the exception it
        ends with is raised here otherwise."""
        if self.done or self.thread is None:
            raise ex
        self.pending = ex
        self.resume.release()
        self.ready.acquire()
        if self.error is not None:
            err, self.error = self.error, None
            raise err
        if self.done:
            return True
        raise Unsupported("a context-manager generator yields again after an exception was thrown into it")

    def close(self):
        if self.thread is not None and not self.done:
            self.abort = True
            self.resume.release()
            self.thread.join(5)
        self.done = True


class _TaskSim(PyModel):
    """A task created from a not yet awaited call (``ensure_future(self.x())``) in a function that hands it to ``asyncio.wait``: the
    call is evaluated - with its modelled outcomes - when the task is waited for or awaited; an exception it ends with is stored in
    the task, as asyncio does, and raised only by ``result()`` / ``await``."""

    def __init__(self, px, node, frame):
        self.px, self.node, self.frame = px, node, frame
        self.state, self.value, self.exc, self.callbacks = "pending", None, None, []

    def __repr__(self):
        return f"<task {ast.unparse(self.node.func)} {self.state}>"

    def _run(self):
        if self.state != "pending":
            return
        try:
            self.value = self.px.e_Call(self.node, self.frame, awaited=True)
            self.state = "done"
        except Exc as ex:
            self.exc, self.state = ex, ("cancelled" if ex.cls_name == "CancelledError" else "done")

    def done(self):
        return self.state != "pending"

    def cancelled(self):
        return self.state == "cancelled"

    def cancel(self):
        if self.state != "pending":
            return False
        self.state, self.exc = "cancelled", Exc("CancelledError", origin="task.cancel")
        self.px.emit("call", f"{ast.unparse(self.node.func)}:task.cancel", (), {})
        return True

    def result(self):
        if self.state == "pending":
            raise Exc("InvalidStateError", ("Result is not set.",), origin="task.result")
        if self.exc is not None:
            raise self.exc
        return self.value

    def exception(self):
        if self.state == "pending":
            raise Exc("InvalidStateError", ("Exception is not set.",), origin="task.exception")
        if self.state == "cancelled":
            raise self.exc
        return None if self.exc is None else (self.exc.value or Obj(TypeRef(self.exc.cls_name), {}, tag=self.exc.cls_name))

    def add_done_callback(self, cb):
        self.callbacks.append(cb)


class PX:
    @property
    def _yield_stack(self):
        return getattr(self._tls, "ys", [])

    @_yield_stack.setter
    def _yield_stack(self, v):
        self._tls.ys = v

    NOT_NONE = frozenset({"code"})  # tags of symbolic values that stand for decoded objects (never None)

    def __init__(self, repo, *, models=None, inline=None, max_paths=20000, max_depth=4, cancel=False,
                 loop_iters=(0, 1, 2), while_bound=3, facts=None, auto_timeout=True, pure=(), refine_membership=False,
                 fork_loop_bound=12, budget_s=120.0):
        self.repo = repo
        self.models = list((models or {}).items()) if isinstance(models, dict) else list(models or [])
        self.inline = inline  # None: same-class sync methods + closures; else callable(FuncRef, awaited)->bool
        self.max_paths, self.max_depth = max_paths, max_depth
        self.cancel = cancel
        self.loop_iters, self.while_bound = tuple(loop_iters), while_bound
        self.facts = dict(facts or {})
        self.auto_timeout = auto_timeout
        self.refine_membership = refine_membership
        # a `while` whose condition is concretely true may run long (table builders); one whose body forks
        # (outcomes, undetermined tests) is abandoned after this many forking iterations (path recorded as truncated)
        self.fork_loop_bound = fork_loop_bound
        self.budget_s = budget_s  # wall-clock budget of one exploration: exceeded -> AnalysisError, never a verdict
        self.pure = tuple(pure)  # callee text patterns that are side-effect free & uninteresting (no event)
        # asyncio.timeout as it really works (opt-in per rule): when the limit expires the awaiting code sees CancelledError *inside*
        # the block, and TimeoutError is raised only where the block is left
        self.precise_timeouts = False
        import threading

        self._tls = threading.local()
        self._live_gens = []
        self.hier = Hierarchy(repo)
        self.truncated = 0
        self.visited = set()
        self.ctxstack = []
        self.refined = {}

    # ------------------------------------------------------------------ enumeration
    def explore(self, func: FuncRef, setup):
        """setup() -> (self_obj|None, {param: value}) fresh for every path."""

        if hasattr(self.inline, "root"):
            self.inline.root = func

        def entry():
            self_obj, args = setup()
            self._route_property_fields(self_obj)
            return self.call_function(func, self_obj, [], dict(args), None, top=True)

        return self._run(entry)

    def _property_pair(self, cls, name):
        """(getter, setter) FuncRefs when ``name`` is a read/write property defined in a class of the repository, else None."""
        if not isinstance(cls, ClassRef):
            return None
        for c in cls.mro():
            if not isinstance(c, ClassRef):
                continue
            get = setr = None
            for st in c.node.body:
                if isinstance(st, ast.FunctionDef) and st.name == name:
                    decs = [_text(d) for d in st.decorator_list]
                    if "property" in decs:
                        get = FuncRef(self.repo, c.mod, c, st)
                    elif f"{name}.setter" in decs:
                        setr = FuncRef(self.repo, c.mod, c, st)
            if get is not None and setr is not None:
                return get, setr
        return None

    def _route_property_fields(self, obj):
        """State a rule presets under a name that the class (now) implements as a read/write property - the attribute was replaced by
        another representation behind the same name - is stored through the property's setter; the value under that name in the final
        store is what the getter returns."""
        self._prop_fields = []
        if not isinstance(obj, Obj):
            return
        for k in [k for k in list(obj.fields) if isinstance(k, str)]:
            pair = self._property_pair(obj.cls, k)
            if pair is None:
                continue
            v = obj.fields.pop(k)
            self.call_function(pair[1], obj, [v], {}, None)
            self._prop_fields.append((obj, k, pair[0]))
        if self._prop_fields:
            self.events.clear()

    def explore_block(self, stmts, func: FuncRef, setup):
        """Explore a bare statement list with a preset store: setup() -> (self_obj, locals)."""

        def entry():
            self_obj, locs = setup()
            fr = Frame(func, dict(locs), self_obj, None, func.mod, 0)
            self.top_frame = fr
            try:
                self.exec_block(stmts, fr)
            except _Return as r:
                return r.value
            except (_Break, _Continue):
                return None
            return None

        return self._run(entry)

    def _run(self, entry):
        import time as _time

        pending = [[]]
        paths = []
        self.truncated = 0
        self.truncated_paths = []
        t_end = _time.monotonic() + self.budget_s
        while pending:
            if _time.monotonic() > t_end:
                raise AnalysisError(f"exploration budget of {self.budget_s:.0f} s exceeded ({len(paths)} paths done, {len(pending)} pending)")
            script = pending.pop()
            self._script, self._pos, self._taken, self._new = script, 0, [], []
            self.events, self.memo, self.counters, self.symfields = [], {}, {}, {}
            self.epoch, self.assumes, self.timeouts, self.top_frame = 0, [], [], None
            self.ctxstack = []
            self.refined = {}
            self._memo_cache = {}
            try:
                v = entry()
                paths.append(self._path("return", v))
            except Exc as ex:
                paths.append(self._path("raise", ex))
            except Truncated:
                self.truncated += 1
                self.truncated_paths.append(self._path("truncated", None))
            except _Infeasible:
                pass
            finally:
                for g in self._live_gens:
                    g.close()
                self._live_gens = []
            pending.extend(self._new)
            if len(paths) + len(pending) > self.max_paths:
                raise AnalysisError(f"path cap {self.max_paths} exceeded")
        return paths

    def _path(self, terminal, value):
        fr = self.top_frame
        store = {}
        if fr is not None:
            store["locals"] = dict(fr.locals)
            if isinstance(fr.self_obj, Obj):
                store["self"] = dict(fr.self_obj.fields)
                for obj_, k_, getter_ in getattr(self, "_prop_fields", ()):
                    if obj_ is fr.self_obj:
                        try:
                            n_ev = len(self.events)
                            store["self"][k_] = self.call_function(getter_, obj_, [], {}, None)
                            del self.events[n_ev:]
                        except Exception:
                            pass
        return Path(list(self.events), terminal, value, store, list(self._taken), list(self.assumes))

    def choose(self, n, label=None):
        if n <= 1:
            return 0
        if self._pos < len(self._script):
            c = self._script[self._pos]
        else:
            c = 0
            for alt in range(1, n):
                self._new.append(self._taken + [alt])
        self._taken.append(c)
        self._pos += 1
        return c

    # ------------------------------------------------------------------ events
    def emit(self, kind, what, args=(), kwargs=None, node=None, extra=None, frame=None, callee=None):
        ev = Event(kind, what, args, kwargs, getattr(node, "lineno", None), extra,
                   frame.depth if frame else 0, frame.func.short if frame and frame.func else None,
                   self.epoch, callee, self.ctxstack)
        self.events.append(ev)
        return ev

    # ------------------------------------------------------------------ truth
    def truth(self, v, frame=None, node=None):
        if isinstance(v, Sym):
            tag, neg = v.tag, False
            while tag.startswith("not "):
                tag, neg = tag[4:], not neg
            if tag in self.facts:
                r = self.facts[tag]
            elif tag in self.memo:
                r = self.memo[tag]
            else:
                r = (True, False)[self.choose(2, tag)]
                self.memo[tag] = r
                self.assumes.append((tag, r))
            return (not r) if neg else r
        if isinstance(v, (Obj, Closure, Bound, ClassRef, FuncRef, TypeRef, Partial)):
            return True
        if isinstance(v, Member):
            return bool(v.value)
        try:
            return bool(v)
        except Exception:
            raise Unsupported(f"truth of {v!r}")

    # ------------------------------------------------------------------ functions
    def should_inline(self, f, awaited, frame):
        if frame is not None and frame.depth >= self.max_depth:
            return False
        if isinstance(f, Closure):
            return True
        fr = f.func if isinstance(f, Bound) else f
        if self.inline is not None:
            if hasattr(self.inline, "caller"):
                self.inline.caller = getattr(frame, "func", None)  # policies may judge a helper relative to the function that calls it
            return bool(self.inline(fr, awaited))
        return False

    def call_function(self, func, self_obj, args, kwargs, frame, top=False, node=None):
        """Inline a repo function / closure with abstract arguments."""
        if isinstance(func, Closure):
            fnode, mod, parent = func.node, func.frame.mod, func.frame
            fref = func.frame.func
            self_for = func.frame.self_obj
        else:
            fnode, mod, parent, fref, self_for = func.node, func.mod, None, func, self_obj
        a = fnode.args
        locs = {}
        pos = [x.arg for x in a.posonlyargs + a.args]
        args = list(args)
        if fref is not None:
            self.visited.add(fref.qual)
        is_method = (not isinstance(func, Closure)) and func.cls is not None and not _is_static(func)
        if is_method and not isinstance(fnode, ast.Lambda):
            if _is_classmethod(func):
                locs[pos[0]] = self_obj if isinstance(self_obj, ClassRef) else (self_obj.cls if isinstance(self_obj, Obj) else func.cls)
            else:
                locs[pos[0]] = self_obj
            pos = pos[1:]
        defaults = a.defaults
        dframe = Frame(fref, {}, self_for, parent, mod, 0)
        for n, d in zip(pos[len(pos) - len(defaults):] if defaults else [], defaults):
            locs[n] = self.ev(d, dframe)
        for x, d in zip(a.kwonlyargs, a.kw_defaults):
            if d is not None:
                locs[x.arg] = self.ev(d, dframe)
        if len(args) > len(pos):
            if a.vararg:
                locs[a.vararg.arg] = tuple(args[len(pos):])
                args = args[: len(pos)]
            else:
                raise Exc("TypeError", (f"too many positional arguments for {fnode.name if hasattr(fnode,'name') else 'lambda'}",))
        elif a.vararg:
            locs[a.vararg.arg] = ()
        for n, v in zip(pos, args):
            locs[n] = v
        extra_kw = {}
        if top and a.vararg and a.vararg.arg in kwargs:
            locs[a.vararg.arg] = tuple(kwargs.pop(a.vararg.arg))
        if top and a.kwarg and a.kwarg.arg in kwargs:
            extra_kw.update(kwargs.pop(a.kwarg.arg))
        allowed = set(pos) | {x.arg for x in a.kwonlyargs}
        if top and any(k not in allowed for k in kwargs) and not args:
            # a rule names the explored function's parameters as they are called on the pinned tree; a renamed parameter of a
            # private helper is matched by position (the rules list the arguments in declaration order)
            free = [n for n in pos]
            named_ok = {k: v for k, v in kwargs.items() if k in allowed}
            rest = [(k, v) for k, v in kwargs.items() if k not in allowed]
            open_pos = [n for n in free if n not in named_ok]
            if len(rest) <= len(open_pos):
                kwargs = dict(named_ok)
                for (k, v), n in zip(rest, open_pos):
                    kwargs[n] = v
        for k, v in kwargs.items():
            if k in allowed:
                locs[k] = v
            elif a.kwarg:
                extra_kw[k] = v
            else:
                raise Exc("TypeError", (f"unexpected keyword argument {k!r}",))
        if a.kwarg:
            locs[a.kwarg.arg] = extra_kw
        for n in list(pos) + [x.arg for x in a.kwonlyargs]:
            if n not in locs:
                if top:
                    locs[n] = Sym(n)
                else:
                    raise Exc("TypeError", (f"missing argument {n!r}",))
        fr = Frame(fref, locs, self_for if isinstance(func, Closure) else self_obj, parent, mod,
                   (frame.depth + 1) if frame else 0)
        if top:
            self.top_frame = fr
        if isinstance(fnode, ast.Lambda):
            return self.ev(fnode.body, fr)
        try:
            self.exec_block(fnode.body, fr)
        except _Return as r:
            return r.value
        return None

    # ------------------------------------------------------------------ statements
    def exec_block(self, body, fr):
        for st in body:
            self.exec_stmt(st, fr)

    def exec_stmt(self, st, fr):
        m = getattr(self, "s_" + type(st).__name__, None)
        if m is None:
            raise Unsupported(f"{fr.mod}:{st.lineno} statement {type(st).__name__}")
        return m(st, fr)

    def s_Pass(self, st, fr):
        pass

    def s_Global(self, st, fr):
        pass

    s_Nonlocal = s_Global
    s_Import = s_Global
    s_ImportFrom = s_Global

    def s_Expr(self, st, fr):
        if isinstance(st.value, ast.Constant):
            return
        self.ev(st.value, fr)

    def s_Assign(self, st, fr):
        v = self.ev(st.value, fr)
        for t in st.targets:
            self.assign(t, v, fr)

    def s_AnnAssign(self, st, fr):
        if st.value is not None:
            self.assign(st.target, self.ev(st.value, fr), fr)

    def s_AugAssign(self, st, fr):
        cur = self.ev(_as_load(st.target), fr)
        rhs = self.ev(st.value, fr)
        # in-place operators of mutable containers modify the object itself (every alias sees the change)
        if isinstance(cur, (list, bytearray)) and isinstance(st.op, ast.Add) and not isinstance(rhs, (Sym, Obj)):
            self.emit("write", _text(st.target) + ".extend", (rhs,), node=st, frame=fr)
            cur.extend(self._concrete_iter(rhs, fr, st))
            return
        if isinstance(cur, set) and isinstance(st.op, (ast.BitOr, ast.Sub, ast.BitAnd)) and isinstance(rhs, (set, frozenset)):
            self.emit("write", _text(st.target) + ".update", (rhs,), node=st, frame=fr)
            if isinstance(st.op, ast.BitOr):
                cur |= rhs
            elif isinstance(st.op, ast.Sub):
                cur -= rhs
            else:
                cur &= rhs
            return
        if isinstance(cur, dict) and isinstance(st.op, ast.BitOr) and isinstance(rhs, dict):
            self.emit("write", _text(st.target) + ".update", (rhs,), node=st, frame=fr)
            cur.update(rhs)
            return
        v = self.binop(st.op, cur, rhs, st)
        self.assign(st.target, v, fr, aug=True)

    def s_Return(self, st, fr):
        raise _Return(self.ev(st.value, fr) if st.value is not None else None)

    def s_Break(self, st, fr):
        raise _Break()

    def s_Continue(self, st, fr):
        raise _Continue()

    def s_Delete(self, st, fr):
        for t in st.targets:
            if isinstance(t, ast.Subscript):
                d = self.ev(t.value, fr)
                k = self.ev_index(t.slice, fr)
                if isinstance(k, slice) and any(isinstance(x, (Sym, Obj)) for x in (k.start, k.stop, k.step)):
                    k = Sym(f"{_short(k.start)}:{_short(k.stop)}")
                self.emit("write", _text(t.value) + ".__delitem__", (k,), node=st, frame=fr, callee=f"{_short(d)}.__delitem__")
                if isinstance(d, dict):
                    hk = _hashable(k)
                    if hk not in d and isinstance(k, Member) and k.value in d:
                        hk = k.value
                    if hk not in d:
                        raise Exc("KeyError", (k,), origin=_text(t))
                    del d[hk]
                elif isinstance(d, (list, bytearray)) and not isinstance(k, (Sym, Obj)):
                    try:
                        del d[k.value if isinstance(k, Member) else k]
                    except KeyError:
                        raise Exc("KeyError", (k,), origin=_text(t))
                    except IndexError:
                        raise Exc("IndexError", (k,), origin=_text(t))
                    except TypeError:
                        raise Exc("TypeError", (k,), origin=_text(t))
            elif isinstance(t, ast.Name):
                fr.locals.pop(t.id, None)

    def s_FunctionDef(self, st, fr):
        c = Closure(st, fr)
        v = c
        for d in reversed(st.decorator_list):
            dv = self.ev(d, fr)
            v = self.do_call(dv, _text(d), [v], {}, fr, d, awaited=False)
        fr.locals[st.name] = v

    s_AsyncFunctionDef = s_FunctionDef

    def s_Assert(self, st, fr):
        t0, n0 = len(self._taken), len(self.assumes)
        v = self.ev(st.test, fr)
        if isinstance(v, Sym) and v.tag not in self.facts and v.tag not in self.memo:
            # an assertion over values the abstraction cannot evaluate is taken to hold (it is a statement of belief about
            # those values, not a branch); assertions over concrete values are evaluated and do fail
            self.memo[v.tag] = True
            self.assumes.append((f"assert:{v.tag}", True))
            return
        ok = self.truth(v, fr, st)
        if not ok and (len(self._taken) > t0 or len(self.assumes) > n0):
            # the assertion fails only under a guess the abstraction made while evaluating it (a chained comparison or a
            # boolean combination over unevaluable values): that combination of guesses is taken to be infeasible
            raise _Infeasible()
        if not ok:
            self.emit("assert-fail", _text(st.test), node=st, frame=fr)
            raise Exc("AssertionError", (), origin=_text(st.test))

    def s_Raise(self, st, fr):
        if st.exc is None:
            if fr.cur_exc is None:
                raise Exc("RuntimeError", ("no active exception",))
            raise fr.cur_exc
        v = self.ev(st.exc, fr)
        name = exc_name_of(v)
        args = ()
        val = None
        if name is None:
            if isinstance(v, Obj):
                name, args, val = v.cls_name, tuple(v.fields.get("args", ())), v
            elif isinstance(v, Exc):
                raise v
            elif isinstance(v, Sym):
                name = "Exception"
                val = v
            else:
                raise Unsupported(f"{fr.mod}:{st.lineno} raise of {v!r}")
        if isinstance(v, ClassRef):
            self.hier.learn(v)
        elif isinstance(v, Obj) and isinstance(v.cls, ClassRef):
            self.hier.learn(v.cls)
        name = ALIASES.get(name, name)
        self.emit("raise", name, args, node=st, frame=fr)
        raise Exc(name, args, origin=f"{fr.func.short if fr.func else '?'}:{_text(st.exc)[:80]}", value=val)

    def s_If(self, st, fr):
        c = self.ev(st.test, fr)
        if self.truth(c, fr, st.test):
            self.exec_block(st.body, fr)
        else:
            self.exec_block(st.orelse, fr)

    def s_While(self, st, fr):
        n = nfork = 0
        while True:
            c = self.ev(st.test, fr)
            known = not isinstance(c, Sym)
            if not self.truth(c, fr, st.test):
                self.exec_block(st.orelse, fr)
                return
            n += 1
            if n > (5000 if known else self.while_bound) or nfork > self.fork_loop_bound:
                raise Truncated()
            taken = len(self._taken)
            try:
                self.exec_block(st.body, fr)
            except _Break:
                return
            except _Continue:
                continue
            finally:
                if len(self._taken) > taken:
                    nfork += 1

    # -- match statement
    def s_Match(self, st, fr):
        subj = self.ev(st.subject, fr)
        for case in st.cases:
            binds = {}
            if self.truth(self._pattern(case.pattern, subj, binds, fr), fr, case.pattern):
                fr.locals.update(binds)
                if case.guard is not None and not self.truth(self.ev(case.guard, fr), fr, case.guard):
                    continue
                self.exec_block(case.body, fr)
                return

    def _pattern(self, pat, v, binds, fr):
        """True / False / Sym(condition): does value v match the pattern? captures go to binds."""
        if isinstance(pat, ast.MatchValue):
            return self.compare(ast.Eq(), v, self.ev(pat.value, fr), fr, pat)
        if isinstance(pat, ast.MatchSingleton):
            return self.compare(ast.Is(), v, pat.value, fr, pat)
        if isinstance(pat, ast.MatchAs):
            ok = True if pat.pattern is None else self._pattern(pat.pattern, v, binds, fr)
            if pat.name is not None:
                binds[pat.name] = v
            return ok
        if isinstance(pat, ast.MatchOr):
            for sub in pat.patterns:
                r = self._pattern(sub, v, binds, fr)
                if isinstance(r, Sym):
                    r = self.truth(r, fr, sub)
                if r:
                    return True
            return False
        if isinstance(pat, ast.MatchClass) and not pat.patterns:
            r = self.isinstance_(v, self.ev(pat.cls, fr), fr, pat)
            if isinstance(r, Sym):
                r = self.truth(r, fr, pat)
            if not r:
                return False
            for name, sub in zip(pat.kwd_attrs, pat.kwd_patterns):
                q = self._pattern(sub, self.getattr(v, name, fr, pat), binds, fr)
                if isinstance(q, Sym):
                    q = self.truth(q, fr, sub)
                if not q:
                    return False
            return True
        if isinstance(pat, ast.MatchSequence) and not any(isinstance(x, ast.MatchStar) for x in pat.patterns):
            if isinstance(v, (list, tuple)):
                if len(v) != len(pat.patterns):
                    return False
                for sub, x in zip(pat.patterns, v):
                    q = self._pattern(sub, x, binds, fr)
                    if isinstance(q, Sym):
                        q = self.truth(q, fr, sub)
                    if not q:
                        return False
                return True
            if isinstance(v, Sym):
                for i, sub in enumerate(pat.patterns):
                    self._pattern(sub, self.sym_index(v, i), binds, fr)
                return Sym(f"(len({v.tag}) == {len(pat.patterns)})")
            return False
        raise Unsupported(f"{fr.mod}:{getattr(pat, 'lineno', '?')} match pattern {type(pat).__name__}")

    def iter_values(self, it, target, fr, node):
        """Concrete list of loop elements, or fork on the number of abstract elements."""
        if isinstance(it, (list, tuple, set, frozenset, range, bytes, bytearray, str)):
            return list(it)
        if isinstance(it, dict):
            return list(it.keys())
        if isinstance(it, ClassRef) and it.is_enum:
            return it.canonical_members()
        if isinstance(it, Sym):
            k = self.loop_iters[self.choose(len(self.loop_iters), f"iters {it.tag}")]
            self.emit("iterate", it.tag, (k,), node=node, frame=fr)
            return [_shape(target, f"{it.tag}[{i}]") for i in range(k)]
        raise Unsupported(f"{fr.mod}:{getattr(node, 'lineno', '?')} iteration over {it!r}")

    def s_For(self, st, fr):
        it = self.ev(st.iter, fr)
        if isinstance(it, list):
            return self._for_live_list(st, fr, it)
        if isinstance(it, Iter):
            n = nfork = 0
            while True:
                try:
                    x = next(it.it)
                except StopIteration:
                    break
                n += 1
                if n > 100000 or nfork > self.fork_loop_bound:
                    raise Truncated()  # an unbounded iterator (itertools.count) whose body keeps forking
                self.assign(st.target, x, fr)
                taken = len(self._taken)
                try:
                    self.exec_block(st.body, fr)
                except _Break:
                    return
                except _Continue:
                    continue
                finally:
                    if len(self._taken) > taken:
                        nfork += 1
            self.exec_block(st.orelse, fr)
            return
        if isinstance(it, (dict, set)):
            n0 = len(it)
            vals = self.iter_values(it, st.target, fr, st)
            for x in vals:
                if len(it) != n0:
                    raise Exc("RuntimeError", ("changed size during iteration",), origin=_text(st.iter))
                self.assign(st.target, x, fr)
                try:
                    self.exec_block(st.body, fr)
                except _Break:
                    return
                except _Continue:
                    continue
            self.exec_block(st.orelse, fr)
            return
        vals = self.iter_values(it, st.target, fr, st)
        for x in vals:
            self.assign(st.target, x, fr)
            try:
                self.exec_block(st.body, fr)
            except _Break:
                return
            except _Continue:
                continue
        self.exec_block(st.orelse, fr)

    def _for_live_list(self, st, fr, lst):
        """Python iterates a list by index over the live object: removing during iteration skips elements."""
        i = 0
        while i < len(lst):
            x = lst[i]
            i += 1
            self.assign(st.target, x, fr)
            try:
                self.exec_block(st.body, fr)
            except _Break:
                return
            except _Continue:
                continue
            if i > 10000:
                raise Truncated()
        self.exec_block(st.orelse, fr)

    def s_AsyncFor(self, st, fr):
        it = self.ev(st.iter, fr)
        self.epoch += 1
        if not isinstance(it, (Sym, list, tuple)):
            it = Sym(f"aiter({it!r})")
        return_vals = self.iter_values(it, st.target, fr, st)
        for x in return_vals:
            self.assign(st.target, x, fr)
            try:
                self.exec_block(st.body, fr)
            except _Break:
                return
            except _Continue:
                continue
        self.exec_block(st.orelse, fr)

    def s_Try(self, st, fr):
        try:
            try:
                self.exec_block(st.body, fr)
            except Exc as ex:
                for h in st.handlers:
                    if self.handler_matches(h, ex, fr):
                        saved = fr.cur_exc
                        fr.cur_exc = ex
                        if h.name:
                            fr.locals[h.name] = ex.value if ex.value is not None else Obj(
                                TypeRef("exc." + ex.cls_name), {"args": ex.args_}, tag=ex.cls_name)
                        self.emit("except", ex.cls_name, node=h, frame=fr)
                        try:
                            self.exec_block(h.body, fr)
                        finally:
                            fr.cur_exc = saved
                        break
                else:
                    raise
            else:
                self.exec_block(st.orelse, fr)
        finally:
            if st.finalbody:
                # a control-flow signal or exception raised inside finally replaces the pending one
                self.exec_block(st.finalbody, fr)

    def handler_matches(self, h, ex, fr):
        if h.type is None:
            return True
        tv = self.ev(h.type, fr)
        names = []
        for v in (tv if isinstance(tv, tuple) else (tv,)):
            n = exc_name_of(v)
            if n is None:
                raise Unsupported(f"{fr.mod}:{h.lineno} except type {v!r}")
            if isinstance(v, ClassRef):
                self.hier.learn(v)
            names.append(ALIASES.get(n, n))
        return any(self.hier.is_sub(ex.cls_name, n) for n in names)

    # -- with
    def s_With(self, st, fr, is_async=False):
        self._with_items(st.items, st.body, fr, st, is_async)

    def s_AsyncWith(self, st, fr):
        self._with_items(st.items, st.body, fr, st, True)

    def _with_items(self, items, body, fr, st, is_async):
        if not items:
            self.exec_block(body, fr)
            return
        item, rest = items[0], items[1:]

        def run_body():
            self._with_items(rest, body, fr, st, is_async)

        ce = item.context_expr
        text = _text(ce.func) if isinstance(ce, ast.Call) else _text(ce)
        # contextlib.suppress
        if text in ("contextlib.suppress", "suppress"):
            names = []
            for a in ce.args:
                v = self.ev(a, fr)
                n = exc_name_of(v)
                if isinstance(v, ClassRef):
                    self.hier.learn(v)
                names.append(ALIASES.get(n, n))
            try:
                run_body()
            except Exc as ex:
                if any(self.hier.is_sub(ex.cls_name, n) for n in names):
                    self.emit("suppressed", ex.cls_name, node=st, frame=fr)
                    return
                raise
            return
        # contextlib.ExitStack / AsyncExitStack: contexts and callbacks registered in the body are unwound, last first, on every exit
        if text in ("contextlib.ExitStack", "contextlib.AsyncExitStack", "ExitStack", "AsyncExitStack") and isinstance(ce, ast.Call) and not ce.args:
            stack = _ExitStack(text.endswith("AsyncExitStack"))
            if item.optional_vars is not None:
                self.assign(item.optional_vars, stack, fr)
            in_flight = None
            try:
                run_body()
            except Exc as ex_:
                in_flight = ex_
                raise
            finally:
                self._unwind_exit_stack(stack, fr, st, in_flight)
            return
        # repo @contextmanager generator, inlined
        if isinstance(ce, ast.Call):
            fval = self.ev(ce.func, fr)
            target = fval.func if isinstance(fval, Bound) else fval
            if isinstance(target, FuncRef) and any("contextmanager" in d for d in target.decorators) \
                    and self.should_inline(fval, False, fr) is not False and self.model_for(text) is None:
                args, kwargs = self.ev_args(ce, fr)
                return self._with_generator(fval, target, args, kwargs, item, run_body, fr, st, text)
        # a context-manager *class* of the repository (``__enter__`` / ``__exit__``, or the async pair): constructed, entered, and left
        # through its own exit method with the exception in flight - which it may swallow
        if isinstance(ce, ast.Call) and self.model_for(text) is None and self.model_for("with:" + text) is None:
            cval = self.ev(ce.func, fr)
            names_ = ("__aenter__", "__aexit__") if is_async else ("__enter__", "__exit__")
            if isinstance(cval, ClassRef):
                try:
                    m_enter, m_exit = cval.method(names_[0]), cval.method(names_[1])
                except KeyError:
                    m_enter = m_exit = None
                if m_enter is not None and m_enter.cls is not None and (fr is None or fr.depth < self.max_depth):
                    cargs, ckw = self.ev_args(ce, fr)
                    obj = self.construct(cval, text, list(cargs), dict(ckw), fr, st)
                    if isinstance(obj, Obj) and not obj.fields and cargs:
                        try:
                            self.call_function(cval.method("__init__"), obj, list(cargs), dict(ckw), fr)
                        except KeyError:
                            pass
                    if is_async:
                        self.epoch += 1
                    val = self.call_function(m_enter, obj, [], {}, fr)
                    if item.optional_vars is not None:
                        self.assign(item.optional_vars, val, fr)

                    def leave(ex_):
                        if ex_ is None:
                            return self.call_function(m_exit, obj, [None, None, None], {}, fr)
                        ev_ = ex_.value if ex_.value is not None else Obj(TypeRef("exc." + ex_.cls_name), {"args": ex_.args_}, tag=ex_.cls_name)
                        return self.call_function(m_exit, obj, [TypeRef("exc." + ex_.cls_name), ev_, None], {}, fr)

                    try:
                        run_body()
                    except Exc as ex_:
                        saved_, fr.cur_exc = fr.cur_exc, ex_
                        try:
                            swallowed = leave(ex_)
                        finally:
                            fr.cur_exc = saved_
                        if isinstance(swallowed, Sym):
                            raise Unsupported(f"{fr.mod}: {text}.__exit__ returns {swallowed!r}")
                        if not swallowed:
                            raise
                        self.emit("suppressed", ex_.cls_name, node=st, frame=fr)
                    except (_Return, _Break, _Continue):
                        leave(None)
                        raise
                    else:
                        leave(None)
                    return
        # generic context manager
        args, kwargs = self.ev_args(ce, fr) if isinstance(ce, ast.Call) else ((), {})
        if text.endswith("timeout_at") and len(args) == 1 and not kwargs:
            # timeout_at(loop.time() + x) is timeout(x): an absolute deadline computed from the loop's clock at this very point
            rel = None
            a0 = ce.args[0] if isinstance(ce, ast.Call) and ce.args else None
            if isinstance(a0, ast.BinOp) and isinstance(a0.op, ast.Add):
                for clock, other in ((a0.left, a0.right), (a0.right, a0.left)):
                    if isinstance(clock, ast.Call) and isinstance(clock.func, ast.Attribute) and clock.func.attr == "time" and not clock.args:
                        rel = self.ev(other, fr)
            if rel is None and isinstance(args[0], Sym):
                import re as _re

                m_ = _re.fullmatch(r"\((?:\S*\.)?time#\d+ \+ (.+)\)", args[0].tag) or _re.fullmatch(r"\((.+) \+ (?:\S*\.)?time#\d+\)", args[0].tag)
                # only a deadline computed from a clock reading taken in this very event-loop turn is a relative delay from now
                # (a reading taken before an earlier await - when the caller joined a queue, say - makes the limit start back then)
                reads = [ep for tg, ep in getattr(self, "clock_reads", {}).items() if tg in args[0].tag]
                if m_ and (not reads or max(reads) != self.epoch):
                    m_ = None
                if m_:
                    try:
                        rel = float(m_.group(1)) if "." in m_.group(1) else int(m_.group(1))
                    except ValueError:
                        rel = Sym(m_.group(1))
            if rel is not None:
                text = text[: -len("timeout_at")] + "timeout"
                if text in ("timeout", "asyncio_timeout", "asyncio.timeout") or text.endswith((".timeout", "_timeout")):
                    text = "asyncio_timeout" if not text.endswith("asyncio.timeout") else text
                args = (rel,)
        if not isinstance(ce, ast.Call):
            self.ev(ce, fr)
        model = self.model_for("with:" + text)
        val = Sym(f"with:{text}#{self._count('with:' + text)}")
        if model is not None:
            val = self.apply_model(model, text, list(args), kwargs, fr, st, awaited=is_async, kind="enter")
        else:
            if is_async:
                self.epoch += 1
                if self.cancel and self.choose(2, f"cancel@enter {text}"):
                    self.emit("cancelled", "enter " + text, node=st, frame=fr)
                    raise Exc("CancelledError", origin="enter " + text)
            self.emit("enter", text, args, kwargs, node=st, frame=fr)
        if item.optional_vars is not None:
            self.assign(item.optional_vars, val, fr)
        is_timeout = text.endswith("asyncio_timeout") or text.endswith("asyncio.timeout")
        if is_timeout:
            self.timeouts.append(text)
        self.ctxstack = self.ctxstack + [text]
        depth_ = len(self.timeouts)
        try:
            run_body()
        except Exc as ex_:
            if is_timeout and ex_.cls_name == "CancelledError" and str(ex_.origin) == f"deadline:{depth_}":
                raise Exc("TimeoutError", (), origin=f"asyncio.timeout expired ({text})")  # the block is left: the cancellation becomes TimeoutError
            raise
        finally:
            if is_timeout:
                self.timeouts.pop()
            self.ctxstack = self.ctxstack[:-1]
            self.emit("exit", text, node=st, frame=fr)

    def _unwind_exit_stack(self, stack, fr, st, in_flight=None):
        pending = None
        while stack.items:
            kind, a, b, c = stack.items.pop()
            try:
                if kind == "gen":
                    # a @contextmanager generator of the repository entered through the stack: resumed (or given the exception in
                    # flight) so that the code after its yield - its finally - runs now
                    if a in self.ctxstack:
                        i = len(self.ctxstack) - 1 - self.ctxstack[::-1].index(a)
                        self.ctxstack = self.ctxstack[:i] + self.ctxstack[i + 1:]
                    self.emit("cm-resume", a, node=st, frame=fr)
                    cur = pending or in_flight
                    if cur is not None:
                        if b.throw(cur):
                            raise Unsupported("a context manager entered through an ExitStack swallows the exception in flight")
                    else:
                        try:
                            next(b)
                        except StopIteration:
                            pass
                        else:
                            raise Unsupported("a context-manager generator yields twice")
                elif kind == "cm":
                    if a in self.ctxstack:
                        i = len(self.ctxstack) - 1 - self.ctxstack[::-1].index(a)
                        self.ctxstack = self.ctxstack[:i] + self.ctxstack[i + 1:]
                    if a.endswith("asyncio_timeout") or a.endswith("asyncio.timeout"):
                        if a in self.timeouts:
                            self.timeouts.remove(a)
                    self.emit("exit", a, node=st, frame=fr)
                else:
                    self.do_call(a[0], a[1], list(b), dict(c), fr, st, False)
            except Exc as ex:  # an exception raised while unwinding replaces the one in flight; the rest is still unwound
                pending = ex
        if pending is not None:
            raise pending

    def exit_stack_method(self, stack, name, text, args, kw, fr, node):
        if name in ("enter_context", "enter_async_context"):
            if not (isinstance(node, ast.Call) and node.args):
                raise Unsupported(f"{fr.mod}: {name} without a visible context expression")
            ce = node.args[0]
            ctext = _text(ce.func) if isinstance(ce, ast.Call) else _text(ce)
            if isinstance(ce, ast.Call):
                fval_ = self.ev(ce.func, fr)
                target_ = fval_.func if isinstance(fval_, Bound) else fval_
                if isinstance(target_, FuncRef) and any("contextmanager" in d for d in target_.decorators) and not target_.is_async \
                        and self.should_inline(fval_, False, fr) is not False and self.model_for(ctext) is None and self.model_for("with:" + ctext) is None:
                    cargs, ckw = self.ev_args(ce, fr)
                    self.emit("call", ctext, cargs, ckw, node=node, frame=fr, extra="contextmanager")
                    gen = _LazyGen(self, target_, fval_.recv if isinstance(fval_, Bound) else None, list(cargs), dict(ckw), fr)
                    try:
                        val = next(gen)
                    except StopIteration:
                        raise Exc("RuntimeError", ("generator didn't yield",), origin=ctext)
                    self.emit("cm-yield", ctext, (val,), node=node, frame=fr)
                    self.ctxstack = self.ctxstack + [ctext]
                    stack.items.append(("gen", ctext, gen, None))
                    return val
            cargs, ckw = self.ev_args(ce, fr) if isinstance(ce, ast.Call) else ((), {})
            model = self.model_for("with:" + ctext)
            val = Sym(f"with:{ctext}#{self._count('with:' + ctext)}")
            if model is not None:
                val = self.apply_model(model, ctext, list(cargs), ckw, fr, node, awaited=name == "enter_async_context", kind="enter")
            else:
                if name == "enter_async_context":
                    self.epoch += 1
                    if self.cancel and self.choose(2, f"cancel@enter {ctext}"):
                        self.emit("cancelled", "enter " + ctext, node=node, frame=fr)
                        raise Exc("CancelledError", origin="enter " + ctext)
                self.emit("enter", ctext, cargs, ckw, node=node, frame=fr)
            if ctext.endswith("asyncio_timeout") or ctext.endswith("asyncio.timeout"):
                self.timeouts.append(ctext)
            self.ctxstack = self.ctxstack + [ctext]
            stack.items.append(("cm", ctext, None, None))
            return val
        if name in ("callback", "push_async_callback"):
            if not args:
                raise Exc("TypeError", (name,), origin=text)
            # the callback keeps the access path it was registered under (self.remove_callback, listeners.remove, ...)
            ctext = _text(node.args[0]) if isinstance(node, ast.Call) and node.args and not isinstance(node.args[0], ast.Starred) else "exit_stack_callback"
            stack.items.append(("cb", (args[0], ctext), tuple(args[1:]), dict(kw)))
            return args[0]
        if name in ("close", "aclose"):
            self._unwind_exit_stack(stack, fr, node)
            return None
        raise Unsupported(f"{fr.mod}: ExitStack.{name} is not modelled")

    def _with_generator(self, fval, target, args, kwargs, item, run_body, fr, st, text):
        state = {"signal": None, "yielded": 0}

        def on_yield(value):
            state["yielded"] += 1
            if item.optional_vars is not None:
                self.assign(item.optional_vars, value, fr)
            self.emit("cm-yield", text, (value,), node=st, frame=fr)
            try:
                run_body()
            except (_Return, _Break, _Continue) as sig:
                state["signal"] = sig  # generator resumes normally; the signal continues afterwards
            finally:
                self.emit("cm-resume", text, node=st, frame=fr)

        self.emit("call", text, args, kwargs, node=st, frame=fr, extra="contextmanager")
        recv = fval.recv if isinstance(fval, Bound) else None
        gfr_holder = {}
        self._gen_on_yield = on_yield
        self.call_function_gen(target, recv, args, kwargs, fr, on_yield)
        if state["signal"] is not None:
            raise state["signal"]

    def call_function_gen(self, func, self_obj, args, kwargs, frame, on_yield):
        prev = self._yield_stack
        self._yield_stack = prev + [on_yield]
        try:
            return self.call_function(func, self_obj, args, kwargs, frame)
        finally:
            self._yield_stack = prev

    # ------------------------------------------------------------------ assignment
    def assign(self, t, v, fr, aug=False):
        if isinstance(t, ast.Name):
            f = fr
            # nonlocal-ish: write where the name lives if not local to a closure frame
            fr.locals[t.id] = v
        elif isinstance(t, (ast.Tuple, ast.List)):
            n = len(t.elts)
            if any(isinstance(e, ast.Starred) for e in t.elts):
                stars = [i for i, e in enumerate(t.elts) if isinstance(e, ast.Starred)]
                if len(stars) != 1:
                    raise Unsupported(f"{fr.mod}:{t.lineno} starred unpack")
                si, after = stars[0], n - stars[0] - 1
                if isinstance(v, Sym):
                    self.emit("unpack", v.tag, (n - 1,), node=t, frame=fr)
                    for i in range(si):
                        self.assign(t.elts[i], self.sym_index(v, i), fr)
                    self.assign(t.elts[si].value, Sym(f"{v.tag}[{si}:{-after if after else None}]"), fr)
                    for j in range(after):
                        self.assign(t.elts[si + 1 + j], self.sym_index(v, -(after - j)), fr)
                    return
                if isinstance(v, (Iter, _Gen)):
                    v = list(v)
                if isinstance(v, dict):
                    v = list(v.keys())
                if not isinstance(v, (tuple, list, str, bytes, bytearray)):
                    raise Unsupported(f"{fr.mod}:{t.lineno} starred unpack of {v!r}")
                if len(v) < n - 1:
                    raise Exc("ValueError", (f"not enough values to unpack (expected at least {n - 1}, got {len(v)})",), origin=_text(t))
                seq = list(v)
                for i in range(si):
                    self.assign(t.elts[i], seq[i], fr)
                self.assign(t.elts[si].value, seq[si:len(seq) - after], fr)
                for j in range(after):
                    self.assign(t.elts[si + 1 + j], seq[len(seq) - after + j], fr)
                return
            if isinstance(v, (Iter, _Gen, _LazyGen)) or hasattr(v, "__next__"):
                v = _drain(v) if isinstance(v, Iter) else list(v)  # unpacking consumes the iterator (generator expression, map, ...)
            elif isinstance(v, (set, frozenset)):
                v = list(v)
            if isinstance(v, Sym):
                self.emit("unpack", v.tag, (n,), node=t, frame=fr)
                vals = [self.sym_index(v, i) for i in range(n)]
            elif isinstance(v, (tuple, list, bytes, bytearray, str)):
                if len(v) != n:
                    self.emit("unpack-mismatch", _text(t), (len(v), n), node=t, frame=fr)
                    raise Exc("ValueError", (f"unpack {len(v)} values into {n}",), origin=_text(t))
                vals = list(v)
            elif isinstance(v, dict):
                vals = list(v.keys())
                if len(vals) != n:
                    raise Exc("ValueError", ("unpack",), origin=_text(t))
            else:
                raise Unsupported(f"{fr.mod}:{t.lineno} unpack of {v!r}")
            for a, b in zip(t.elts, vals):
                self.assign(a, b, fr)
        elif isinstance(t, ast.Attribute):
            base = self.ev(t.value, fr)
            self.emit("write", _text(t), (v,), node=t, frame=fr, extra="aug" if aug else None)
            if isinstance(base, Obj):
                base.fields[t.attr] = v
                base.fields[("__epoch__", t.attr)] = self.epoch
            elif isinstance(base, Sym):
                self.symfields[(base.tag, t.attr)] = v
            elif isinstance(base, PyModel):
                try:
                    setattr(base, t.attr, v)
                except AttributeError:
                    raise Exc("AttributeError", (t.attr,), origin=_text(t))
            else:
                pass
        elif isinstance(t, ast.Subscript):
            base = self.ev(t.value, fr)
            k = self.ev_index(t.slice, fr)
            if isinstance(k, slice) and any(isinstance(x, (Sym, Obj)) for x in (k.start, k.stop, k.step)):
                k = Sym(f"{_short(k.start)}:{_short(k.stop)}")
            self.emit("write", _text(t.value) + "[]", (k, v), node=t, frame=fr)
            if isinstance(base, (dict, list, bytearray)) and not (isinstance(k, Sym) and isinstance(base, (list, bytearray))):
                try:
                    base[k] = v
                except Exception:
                    raise Exc("IndexError", (k,), origin=_text(t))
            elif isinstance(base, Sym):
                self.symfields[(base.tag, ("[]", _hashable(k)))] = v
            elif isinstance(base, Obj):
                base.fields[("[]", _hashable(k))] = v
        else:
            raise Unsupported(f"{fr.mod}:{t.lineno} assignment target {type(t).__name__}")

    def ev_index(self, sl, fr):
        """Subscript index: an ast.Slice becomes a Python slice of evaluated bounds."""
        if isinstance(sl, ast.Slice):
            parts = [self.ev(x, fr) if x is not None else None for x in (sl.lower, sl.upper, sl.step)]
            parts = [p.value if isinstance(p, Member) else p for p in parts]
            return slice(*parts)
        return self.ev(sl, fr)

    def sym_index(self, v, i):
        key = (v.tag, ("[]", _hashable(i)))
        if key in self.symfields:
            return self.symfields[key]
        return Sym(f"{v.tag}[{_short(i)}]")

    def _count(self, key):
        self.counters[key] = self.counters.get(key, 0) + 1
        return self.counters[key]

    # ------------------------------------------------------------------ expressions
    def ev(self, e, fr):
        m = getattr(self, "e_" + type(e).__name__, None)
        if m is None:
            raise Unsupported(f"{fr.mod}:{getattr(e, 'lineno', '?')} expression {type(e).__name__}")
        v = m(e, fr)
        if isinstance(v, Sym) and self.refined and v.tag in self.refined:
            return self.refined[v.tag]
        return v

    def e_Constant(self, e, fr):
        return e.value

    def lookup(self, name, fr, node=None):
        f = fr
        while f is not None:
            if name in f.locals:
                return f.locals[name]
            f = f.parent
        env = self.repo.module(fr.mod)
        if env is not None and name in env:
            v = env[name]
            if isinstance(v, Unknown):
                return self.module_value(fr.mod, name)
            return self.lift(v)
        import builtins

        if hasattr(builtins, name):
            return TypeRef("builtins." + name)
        raise Exc("NameError", (name,), origin=name)

    def lift(self, v, depth=0):
        """TE values -> PX values: symbolic constructor records of repo dataclasses / zigpy ints become objects."""
        if isinstance(v, Record):
            cache = self.repo.__dict__.setdefault("_px_lift", {})
            if id(v) in cache:
                return cache[id(v)][1]
            out = v
            c = v.ctor
            if isinstance(c, (ClassRef, TypeRef)) and int_type_of(c) and len(v.args) == 1 and isinstance(v.args[0], (int, Member)) and not v.kwargs:
                out = ZInt(int(v.args[0]), *int_type_of(c))
            elif isinstance(c, TypeRef) and c.name in ("collections.Counter", "collections.defaultdict", "collections.OrderedDict", "collections.deque") and not v.kwargs \
                    and (not v.args or (c.name == "collections.defaultdict" and len(v.args) == 1 and isinstance(v.args[0], TypeRef))):
                # module-level bookkeeping containers (statistics counters ...): one real object for the life of the analysis
                import collections as _c
                if c.name == "collections.defaultdict":
                    fac = {"builtins.int": int, "builtins.list": list, "builtins.set": set, "builtins.dict": dict}.get(v.args[0].name) if v.args else None
                    out = _c.defaultdict(fac)
                else:
                    out = {"collections.Counter": _c.Counter, "collections.OrderedDict": _c.OrderedDict, "collections.deque": _c.deque}[c.name]()
            elif isinstance(c, ClassRef) and _is_namedtuple(c):
                out = self._make_nt(c, [self.lift(a, depth + 1) for a in v.args], {k: self.lift(a, depth + 1) for k, a in v.kwargs.items()}, "lift")
            elif isinstance(c, ClassRef) and (_is_dataclass(c) or c.is_struct):
                names = [f[0] for f in c.struct_fields()]
                fields = {}
                for fn, fty, dflt in c.struct_fields():
                    if dflt is not None and not isinstance(dflt, (Record, Unknown)):
                        fields[fn] = dflt
                for n, a in zip(names, v.args):
                    fields[n] = self.lift(a, depth + 1)
                for k, a in v.kwargs.items():
                    fields[k] = self.lift(a, depth + 1)
                out = Obj(c, fields, tag=f"{c.name}({', '.join(_short(x) for x in list(fields.values())[:2])})")
            cache[id(v)] = (v, out)
            return out
        if depth < 4:
            if isinstance(v, list) and any(isinstance(x, (Record, list, dict)) for x in v):
                return [self.lift(x, depth + 1) for x in v]
            if isinstance(v, dict) and any(isinstance(x, (Record, list, dict)) for x in v.values()):
                return {k: self.lift(x, depth + 1) for k, x in v.items()}
        return v

    def module_value(self, mod, name):
        """Module-level ``NAME = <call of a repo function on constants>`` that TE could not fold: evaluate the
        right-hand side once with this explorer (pure table builders such as the LFSR sequence)."""
        cache = self.repo.__dict__.setdefault("_px_consts", {})
        key = (mod, name)
        if key in cache:
            return cache[key]
        cache[key] = Sym(f"{mod.rsplit('.', 1)[-1]}.{name}")
        node = None
        for st in self.repo.tree(mod).body:
            if isinstance(st, ast.Assign) and any(isinstance(t, ast.Name) and t.id == name for t in st.targets):
                node = st.value
            elif isinstance(st, ast.AnnAssign) and isinstance(st.target, ast.Name) and st.target.id == name:
                node = st.value
        if isinstance(node, ast.Call):
            sub = PX(self.repo, inline=lambda f, aw: not f.is_async, max_depth=3)
            sub._script, sub._pos, sub._taken, sub._new = [], 0, [], []
            sub.events, sub.memo, sub.counters, sub.symfields = [], {}, {}, {}
            sub.epoch, sub.assumes, sub.timeouts, sub.top_frame = 0, [], [], None
            try:
                v = sub.ev(node, Frame(None, {}, None, None, mod, 0))
                if not sub._new and not isinstance(v, Sym):
                    cache[key] = v
            except (Exc, AnalysisError, Truncated):
                pass
        return cache[key]

    def e_Name(self, e, fr):
        return self.lookup(e.id, fr, e)

    def e_Attribute(self, e, fr):
        b = self.ev(e.value, fr)
        return self.getattr(b, e.attr, fr, e)

    def getattr(self, b, attr, fr, e=None):
        if isinstance(b, Obj):
            if attr in b.volatile and b.fields.get(("__epoch__", attr)) != self.epoch:
                key = f"volatile:{b.tag}.{attr}@{self.epoch}"
                if key not in self.memo:
                    self.memo[key] = self.choose(len(b.volatile[attr]), key)
                    self.assumes.append((key, b.volatile[attr][self.memo[key]]))
                picked = b.volatile[attr][self.memo[key]]
                if isinstance(picked, str) and picked == "__keep__":
                    return b.fields.get(attr)  # nobody touched it while the coroutine was suspended
                b.fields[attr] = picked  # another callback stored this value meanwhile: later reads and updates start from it
                b.fields[("__epoch__", attr)] = self.epoch
                return picked
            if attr in b.fields:
                return b.fields[attr]
            if isinstance(b.cls, ClassRef):
                try:
                    v = b.cls.lookup(attr)
                except KeyError:
                    v = None
                else:
                    if isinstance(v, FuncRef):
                        if _is_property(v):
                            r = self.call_function(v, b, [], {}, fr)
                            if any(d.endswith("cached_property") for d in v.decorators):
                                b.fields[attr] = r  # functools.cached_property stores the value in the instance
                            return r
                        if _is_static(v):
                            return v
                        return Bound(b, v)
                    if b.cls.is_enum and isinstance(v, (int, str)) and not attr.startswith("_"):
                        return Member(b.cls, attr, v)
                    if not isinstance(v, Unknown) and v is not None:
                        return v
            if attr == "replace" and isinstance(b.cls, ClassRef) and "BaseDataclassMixin" in b.cls.base_names():
                return _DCReplace(b)  # trusted base: zigpy's BaseDataclassMixin.replace is dataclasses.replace
            v = Sym(f"{b.tag}.{attr}")
            b.fields[attr] = v
            return v
        if isinstance(b, Sym):
            key = (b.tag, attr)
            if key in self.symfields:
                return self.symfields[key]
            return Sym(f"{b.tag}.{attr}")
        if isinstance(b, ClassRef) and attr == "__mro__":
            return tuple(b.mro()) + (TypeRef("builtins.object"),)
        if isinstance(b, ModuleRef) and getattr(b, "name", None) == "re" and attr.isupper():
            import re as _real_re3

            if hasattr(_real_re3, attr):
                return getattr(_real_re3, attr)
        if isinstance(b, (ModuleRef, ClassRef, Record)):
            if isinstance(b, ClassRef):
                try:
                    v = b.lookup(attr)
                    if isinstance(v, FuncRef) and _is_classmethod(v):
                        return Bound(b, v)
                except KeyError:
                    pass
            try:
                got_ = self.repo.te.getattr(b, attr, fr.mod, e or ast.Pass())
                if isinstance(got_, TypeRef) and isinstance(b, ClassRef) and b.is_enum and attr.isupper():
                    raise AnalysisError("unknown enumeration constant")
                return got_
            except AnalysisError:
                # a constant-style name that is no member of a repository enumeration whose members are all known: AttributeError
                if isinstance(b, ClassRef) and b.is_enum and attr.isupper():
                    try:
                        mem = b.members()
                    except Exception:
                        mem = None
                    if mem and attr not in mem:
                        raise Exc("AttributeError", (attr,), origin=_text(e) if e is not None else attr)
                return Sym(f"{_short(b)}.{attr}")
        if isinstance(b, Member):
            if attr == "name":
                return b.name
            if attr == "value":
                return b.value
            try:
                v = b.cls.lookup(attr)
                if isinstance(v, FuncRef):
                    if _is_property(v):
                        return Sym(f"{b!r}.{attr}")
                    return Bound(b, v)
            except KeyError:
                pass
            return Sym(f"{b!r}.{attr}")
        if isinstance(b, TypeRef):
            if b.name == "re" and attr.isupper():
                import re as _real_re2

                if hasattr(_real_re2, attr):
                    return getattr(_real_re2, attr)  # regex flags are plain constants
            return TypeRef(b.name + "." + attr)
        if isinstance(b, FuncRef):
            if attr in ("__func__",):
                return b
            return Sym(f"{b.short}.{attr}")
        if isinstance(b, Bound):
            if attr == "__func__":
                return b.func
            return Sym(f"{b.func.short}.{attr}")
        if isinstance(b, Exc):
            return Sym(f"{b.cls_name}.{attr}")
        if isinstance(b, NT):
            if attr in b.names:
                return b[b.names.index(attr)]
            if attr == "_fields":
                return tuple(b.names)
            try:
                v = b.cref.lookup(attr)
            except KeyError:
                v = None
            if isinstance(v, FuncRef):
                if _is_property(v):
                    return self.call_function(v, b, [], {}, fr)
                return v if _is_static(v) else Bound(b, v)
            if v is not None and not isinstance(v, Unknown):
                return v
            if attr in ("_replace", "_asdict"):
                return _PyMethod(b, attr)
        if isinstance(b, tuple) and attr in getattr(type(b), "_fields", ()):
            return getattr(b, attr)  # a field of a (library) named tuple, e.g. urllib.parse.SplitResult.scheme
        if isinstance(b, (list, dict, set, frozenset, tuple, str, bytes, bytearray, int, float)) or b is None:
            if not hasattr(b, attr):
                raise Exc("AttributeError", (f"{type(b).__name__!r} object has no attribute {attr!r}",), origin=_text(e) if e is not None else attr)
            return _PyMethod(b, attr)
        if isinstance(b, Closure):
            return Sym(f"{b.name}.{attr}")
        if type(b).__module__ == "re" or isinstance(b, _ExitStack):
            return _PyMethod(b, attr)
        if type(b).__module__ in ("_struct", "struct"):
            if not hasattr(b, attr):
                raise Exc("AttributeError", (attr,), origin=_text(e) if e is not None else attr)
            v = getattr(b, attr)
            return _PyMethod(b, attr) if callable(v) else v
        if isinstance(b, PyModel):
            if not hasattr(b, attr):
                raise Exc("AttributeError", (attr,), origin=_text(e) if e is not None else attr)
            v = getattr(b, attr)
            return _PyMethod(b, attr) if callable(v) and not isinstance(v, PyModel) else v
        raise Unsupported(f"{fr.mod}:{getattr(e, 'lineno', '?')} getattr {attr} on {b!r}")

    def e_Tuple(self, e, fr):
        out = []
        for x in e.elts:
            if isinstance(x, ast.Starred):
                out.extend(self._concrete_iter(self.ev(x.value, fr), fr, e))
            else:
                out.append(self.ev(x, fr))
        return tuple(out)

    def e_List(self, e, fr):
        return list(self.e_Tuple(e, fr))

    def e_Set(self, e, fr):
        return set(self.e_Tuple(e, fr))

    def e_Dict(self, e, fr):
        d = {}
        for k, v in zip(e.keys, e.values):
            if k is None:
                sp = self.ev(v, fr)
                if isinstance(sp, dict):
                    d.update(sp)
                elif isinstance(sp, Sym):
                    d[Sym(f"**{sp.tag}")] = sp
                else:
                    raise Unsupported(f"{fr.mod}:{e.lineno} ** of {sp!r}")
            else:
                d[_hashable(self.ev(k, fr))] = self.ev(v, fr)
        return d

    def e_JoinedStr(self, e, fr):
        parts = []
        for v in e.values:
            if isinstance(v, ast.Constant):
                parts.append(str(v.value))
            else:
                # the interpolated expression is evaluated (it may raise); its text matters only when it is concrete
                x = self.ev(v.value, fr) if isinstance(v, ast.FormattedValue) else None
                if isinstance(x, (int, str, float)) and not isinstance(x, bool) and v.format_spec is None and v.conversion == -1:
                    parts.append(str(x))
                else:
                    parts.append("{}")
        return "".join(parts)

    def e_FormattedValue(self, e, fr):
        return "{}"

    def e_Starred(self, e, fr):
        raise Unsupported(f"{fr.mod}:{e.lineno} starred")

    def e_Lambda(self, e, fr):
        return Closure(e, fr, "<lambda>")

    def e_IfExp(self, e, fr):
        return self.ev(e.body if self.truth(self.ev(e.test, fr), fr, e.test) else e.orelse, fr)

    def e_NamedExpr(self, e, fr):
        v = self.ev(e.value, fr)
        self.assign(e.target, v, fr)
        return v

    def e_BoolOp(self, e, fr):
        if isinstance(e.op, ast.And):
            v = True
            for x in e.values:
                v = self.ev(x, fr)
                if not self.truth(v, fr, x):
                    return v
            return v
        v = False
        for x in e.values:
            v = self.ev(x, fr)
            if self.truth(v, fr, x):
                return v
        return v

    def e_UnaryOp(self, e, fr):
        v = self.ev(e.operand, fr)
        if isinstance(e.op, ast.Not):
            if isinstance(v, Sym):
                return Sym(v.tag[4:]) if v.tag.startswith("not ") else Sym("not " + v.tag)
            return not self.truth(v, fr, e)
        if isinstance(v, Member):
            v = v.value
        if isinstance(v, (int, float)):
            return {ast.USub: operator.neg, ast.Invert: operator.invert, ast.UAdd: operator.pos}[type(e.op)](v)
        if isinstance(v, Sym):
            return Sym(f"({type(e.op).__name__} {v.tag})")
        raise Unsupported(f"{fr.mod}:{e.lineno} unary on {v!r}")

    BIN = {ast.Add: (operator.add, "+"), ast.Sub: (operator.sub, "-"), ast.Mult: (operator.mul, "*"),
           ast.Mod: (operator.mod, "%"), ast.LShift: (operator.lshift, "<<"), ast.RShift: (operator.rshift, ">>"),
           ast.BitAnd: (operator.and_, "&"), ast.BitOr: (operator.or_, "|"), ast.BitXor: (operator.xor, "^"),
           ast.Div: (operator.truediv, "/"), ast.FloorDiv: (operator.floordiv, "//"), ast.Pow: (operator.pow, "**")}

    def binop(self, op, l, r, node):
        f, sym = self.BIN[type(op)]
        if isinstance(l, _DictItems):  # dict views: keys / items behave as sets, values as a list
            l = list(l.materialise()) if l.kind == "values" else set(l.materialise())
        if isinstance(r, _DictItems):
            r = list(r.materialise()) if r.kind == "values" else set(r.materialise())
        if isinstance(l, Member) and isinstance(r, Member) and isinstance(op, (ast.BitOr, ast.BitAnd, ast.BitXor)) \
                and l.intlike and r.intlike:
            return Member(l.cls, f"{l.name}{sym}{r.name}", f(l.value, r.value))
        lv = l.value if isinstance(l, Member) and l.intlike else l
        rv = r.value if isinstance(r, Member) and r.intlike else r
        if isinstance(lv, bool):
            lv = int(lv)
        if isinstance(rv, bool):
            rv = int(rv)
        conc = (int, float, str, bytes, bytearray, list, tuple, set, frozenset)
        if isinstance(lv, conc) and isinstance(rv, conc):
            try:
                return f(lv, rv)
            except ZeroDivisionError:
                raise Exc("ZeroDivisionError", ())
            except TypeError:
                return Sym(f"({_short(l)} {sym} {_short(r)})")
        if isinstance(lv, dict) and isinstance(rv, dict) and isinstance(op, ast.BitOr):
            return {**lv, **rv}
        a, b = _short(l), _short(r)
        if isinstance(op, (ast.Add, ast.Mult, ast.BitAnd, ast.BitOr, ast.BitXor)) and not isinstance(lv, (str, bytes, bytearray, list, tuple)) \
                and not isinstance(rv, (str, bytes, bytearray, list, tuple)) and isinstance(l, (int, float, Member)) :
            a, b = b, a  # canonical form: symbol first, constant second
        return Sym(f"({a} {sym} {b})")

    def e_BinOp(self, e, fr):
        return self.binop(e.op, self.ev(e.left, fr), self.ev(e.right, fr), e)

    def e_Compare(self, e, fr):
        l = self.ev(e.left, fr)
        result = True
        for op, c in zip(e.ops, e.comparators):
            r = self.ev(c, fr)
            v = self.compare(op, l, r, fr, e)
            if isinstance(v, Sym):
                if len(e.ops) == 1:
                    return v
                v = self.truth(v, fr, e)
            if not v:
                return False
            l = r
        return result

    def compare(self, op, l, r, fr, node):
        neg = False
        # sets and dict views are only partially ordered: evaluate subset / superset tests directly
        if isinstance(op, (ast.Lt, ast.LtE, ast.Gt, ast.GtE)) and (isinstance(l, (set, frozenset, _DictItems)) or isinstance(r, (set, frozenset, _DictItems))):
            def as_set(x):
                if isinstance(x, _DictItems):
                    if x.kind == "values":
                        raise Exc("TypeError", ("values view is not a set",))
                    x = x.materialise()
                if isinstance(x, (set, frozenset, list)):
                    return {_hashable(i) for i in x}
                raise Exc("TypeError", (f"ordering of a set and {type(x).__name__}",))
            a, b = as_set(l), as_set(r)
            if any(isinstance(i, Sym) or _has_sym(i) for i in a | b):
                return Sym(f"({_short(l)} {type(op).__name__} {_short(r)})")
            return {ast.Lt: a < b, ast.LtE: a <= b, ast.Gt: a > b, ast.GtE: a >= b}[type(op)]
        if isinstance(op, ast.NotEq):
            op, neg = ast.Eq(), True
        elif isinstance(op, ast.NotIn):
            op, neg = ast.In(), True
        elif isinstance(op, ast.IsNot):
            op, neg = ast.Is(), True
        elif isinstance(op, ast.GtE):
            op, neg = ast.Lt(), True
        elif isinstance(op, ast.Gt):
            op, l, r = ast.Lt(), r, l
        elif isinstance(op, ast.LtE):
            op, l, r, neg = ast.Lt(), r, l, True
        v = self._cmp(op, l, r, fr, node)
        if isinstance(v, Sym):
            return Sym("not " + v.tag) if neg else v
        return (not v) if neg else v

    def _cmp(self, op, l, r, fr, node):
        abstract = (Sym,)
        if isinstance(op, ast.Is):
            if isinstance(l, abstract) or isinstance(r, abstract):
                if isinstance(l, Sym) and isinstance(r, Sym) and l.tag == r.tag:
                    return True
                # a symbolic value a rule declared to stand for a real object (a decoded reset code, say) is not None
                if (l is None and isinstance(r, Sym) and r.tag in self.NOT_NONE) or (r is None and isinstance(l, Sym) and l.tag in self.NOT_NONE):
                    return False
                a, b = sorted([_short(l), _short(r)])
                return Sym(f"({a} is {b})")
            if isinstance(l, Member) and isinstance(r, Member):
                return l.cls == r.cls and l.value == r.value
            if l is None or r is None or isinstance(l, bool) or isinstance(r, bool):
                return l is r
            if isinstance(l, (Obj, Closure)) or isinstance(r, (Obj, Closure)):
                return l is r
            return l is r or (type(l) is type(r) and isinstance(l, (int, str)) and l == r)
        if isinstance(op, ast.Eq):
            if isinstance(l, Sym) and isinstance(r, Sym) and l.tag == r.tag:
                return True
            if isinstance(l, abstract) or isinstance(r, abstract) or _has_sym(l) or _has_sym(r):
                if _shallow_diff(l, r):
                    return False
                a, b = sorted([_short(l), _short(r)])
                return Sym(f"({a} == {b})")
            if isinstance(l, Obj) or isinstance(r, Obj):
                if l is r:
                    return True
                if isinstance(l, Obj) and isinstance(r, Obj) and l.cls == r.cls:
                    fl = {k: v for k, v in l.fields.items() if not isinstance(k, tuple)}
                    frr = {k: v for k, v in r.fields.items() if not isinstance(k, tuple)}
                    if fl.keys() == frr.keys():
                        res = True
                        for k in fl:
                            c = self._cmp(ast.Eq(), fl[k], frr[k], fr, node)
                            if isinstance(c, Sym):
                                a, b = sorted([_short(l), _short(r)])
                                return Sym(f"({a} == {b})")
                            res = res and c
                        return res
                return False
            try:
                return l == r
            except Exception:
                return False
        if isinstance(op, ast.Lt):
            lv = l.value if isinstance(l, Member) else l
            rv = r.value if isinstance(r, Member) else r
            if isinstance(lv, (int, float)) and isinstance(rv, (int, float)):
                return lv < rv
            if isinstance(l, abstract) or isinstance(r, abstract):
                return Sym(f"({_short(l)} < {_short(r)})")
            try:
                return lv < rv
            except TypeError:
                raise Exc("TypeError", ("<",))
        if isinstance(op, ast.In):
            if isinstance(r, Sym):
                return Sym(f"({_short(l)} in {r.tag})")
            if isinstance(r, Member):  # flag in bitmask member
                if isinstance(l, Member):
                    return (r.value & l.value) == l.value
            if isinstance(r, (ClassRef,)) and r.is_enum:
                r = r.canonical_members()
            if isinstance(r, _PyMethod):
                raise Unsupported("in on method")
            if isinstance(r, (list, tuple, set, frozenset, dict, str, bytes, bytearray, range)):
                if isinstance(l, Sym) and self.refine_membership and 0 < len(r) <= 12 and not isinstance(r, (str, bytes, bytearray, range)) \
                        and not any(isinstance(x, (Sym, Obj)) or _has_sym(x) for x in r):
                    # case split: the abstract value is one of the members (and is refined to it) or none of them
                    items = sorted(r, key=repr) if isinstance(r, (set, frozenset, dict)) else list(r)
                    key = f"member:{l.tag}:{_short(items)}"
                    if key not in self.memo:
                        self.memo[key] = self.choose(len(items) + 1, key)
                        self.assumes.append((key, items[self.memo[key]] if self.memo[key] < len(items) else None))
                    c = self.memo[key]
                    if c < len(items):
                        self.refined[l.tag] = items[c]
                        return True
                    return False
                if isinstance(l, Sym) or _has_sym(l):
                    # membership of an abstract value in a concrete collection
                    items = list(r)
                    if any(isinstance(x, Sym) and isinstance(l, Sym) and x.tag == l.tag for x in items):
                        return True
                    if l in items:
                        return True
                    if not items:
                        return False
                    if all(_shallow_diff(l, x) for x in items):
                        return False
                    return Sym(f"({_short(l)} in {_short(r)})")
                try:
                    if isinstance(r, (bytes, bytearray)) and isinstance(l, Member):
                        l = l.value
                    if any(isinstance(x, Sym) for x in r):
                        if l in [x for x in r if not isinstance(x, Sym)]:
                            return True
                        return Sym(f"({_short(l)} in {_short(r)})")
                    return l in r
                except TypeError:
                    return False
            if isinstance(r, Obj):
                return Sym(f"({_short(l)} in {r.tag})")
            raise Unsupported(f"{fr.mod}:{getattr(node, 'lineno', '?')} 'in' on {r!r}")
        raise Unsupported(f"compare op {type(op).__name__}")

    def e_Subscript(self, e, fr):
        if isinstance(e.ctx, ast.Load) and not isinstance(e.slice, ast.Slice):
            m_ = self.model_for("item:" + _text(e))
            if m_ is not None and callable(m_) and not isinstance(m_, Outcomes):
                return m_(self, _text(e), [], {}, fr)  # a rule gives this lookup (a configuration value) a concrete answer
        b = self.ev(e.value, fr)
        if isinstance(e.slice, ast.Slice):
            lo = self.ev(e.slice.lower, fr) if e.slice.lower else None
            hi = self.ev(e.slice.upper, fr) if e.slice.upper else None
            stp = self.ev(e.slice.step, fr) if e.slice.step else None
            if isinstance(b, (list, tuple, str, bytes, bytearray)) and not any(isinstance(x, Sym) for x in (lo, hi, stp)):
                return b[lo:hi:stp]
            return Sym(f"{_short(b)}[{_short(lo)}:{_short(hi)}]")
        k = self.ev(e.slice, fr)
        return self.subscript(b, k, fr, e)

    def subscript(self, b, k, fr, e=None):
        if isinstance(k, slice) and isinstance(b, (list, tuple, str, bytes, bytearray)):
            return b[k]
        if type(b).__module__ == "re" and type(b).__name__ == "Match" and isinstance(k, (int, str)) and not isinstance(k, bool):
            try:
                return b[k]
            except (IndexError, KeyError):
                raise Exc("IndexError", ("no such group",), origin=_text(e) if e is not None else "match[]")
        if isinstance(b, Sym):
            return self.sym_index(b, k)
        if isinstance(b, Obj):
            key = ("[]", _hashable(k))
            if key in b.fields:
                return b.fields[key]
            return Sym(f"{b.tag}[{_short(k)}]")
        if isinstance(b, dict):
            kk = _hashable(k)
            if kk in b:
                return b[kk]
            if getattr(b, "default_factory", None) is not None and not isinstance(k, Sym) and not _has_sym(k):
                return b[kk]  # collections.defaultdict: the missing entry is created
            if hasattr(type(b), "__missing__") and not isinstance(k, Sym) and not _has_sym(k):
                return b[kk]  # collections.Counter: a missing key reads as 0
            if b and (isinstance(k, Sym) or _has_sym(k) or any(isinstance(x, Sym) or _has_sym(x) for x in b)):
                c = Sym(f"({_short(k)} in keys({_dict_tag(b)}))")
                if self.truth(c, fr, e):
                    return Sym(f"{_dict_tag(b)}[{_short(k)}]")
            raise Exc("KeyError", (k,), origin=_text(e) if e is not None else "subscript")
        if isinstance(b, (list, tuple, str, bytes, bytearray)):
            if isinstance(k, Sym):
                return Sym(f"{_short(b)}[{k.tag}]")
            if isinstance(k, Member):
                k = k.value
            try:
                return b[k]
            except IndexError:
                raise Exc("IndexError", (k,), origin=_text(e) if e is not None else "subscript")
            except TypeError:
                raise Exc("TypeError", (k,))
        if isinstance(b, ClassRef):
            if b.is_enum:
                if isinstance(k, str):
                    ms = b.members()
                    if k in ms:
                        return ms[k]
                    raise Exc("KeyError", (k,), origin=_text(e) if e is not None else "subscript")
                return Sym(f"{b.name}[{_short(k)}]")
            return TypeRef(b.qual, k if isinstance(k, tuple) else (k,))
        if isinstance(b, TypeRef):
            return TypeRef(b.name, k if isinstance(k, tuple) else (k,))
        if isinstance(b, Member):
            return Sym(f"{b!r}[{_short(k)}]")
        raise Unsupported(f"{fr.mod}:{getattr(e, 'lineno', '?')} subscript on {b!r}")

    def _concrete_iter(self, v, fr, node):
        if isinstance(v, (list, tuple, set, frozenset, range, bytes, bytearray, str)):
            return list(v)
        if isinstance(v, dict):
            return list(v.keys())
        if isinstance(v, ClassRef) and v.is_enum:
            return v.canonical_members()
        if isinstance(v, _DictItems):
            return v.materialise()
        raise Unsupported(f"{fr.mod}:{getattr(node, 'lineno', '?')} iterate {v!r}")

    def _comp(self, e, fr, emit):
        gens = e.generators

        def rec(i, f):
            if i == len(gens):
                emit(f)
                return True
            g = gens[i]
            it = self.ev(g.iter, f)
            if isinstance(it, Sym):
                return False
            for x in self._concrete_iter(it, f, e):
                f2 = Frame(f.func, {}, f.self_obj, f, f.mod, f.depth)
                self.assign(g.target, x, f2)
                if all(self.truth(self.ev(c, f2), f2, c) for c in g.ifs):
                    if not rec(i + 1, f2):
                        return False
            return True

        return rec(0, fr)

    def e_ListComp(self, e, fr):
        out = []
        if self._comp(e, fr, lambda f: out.append(self.ev(e.elt, f))):
            return out
        return Sym(f"comp@{e.lineno}")

    def e_GeneratorExp(self, e, fr):
        """Lazy, as in Python: the first iterable is evaluated now, everything else when the generator is advanced."""
        gens = e.generators
        first = self.ev(gens[0].iter, fr)
        if isinstance(first, Sym):
            return Sym(f"comp@{e.lineno}")

        def lazy(it, f, node):
            if isinstance(it, Iter):
                return it.it
            if isinstance(it, Sym):
                raise Unsupported(f"{fr.mod}:{e.lineno} generator expression over {it!r}")
            return iter(self._concrete_iter(it, f, node))

        def rec(i, f):
            if i == len(gens):
                yield self.ev(e.elt, f)
                return
            g = gens[i]
            it = first if i == 0 else self.ev(g.iter, f)
            for x in lazy(it, f, e):
                f2 = Frame(f.func, {}, f.self_obj, f, f.mod, f.depth)
                self.assign(g.target, x, f2)
                if all(self.truth(self.ev(c, f2), f2, c) for c in g.ifs):
                    yield from rec(i + 1, f2)

        return Iter(rec(0, fr), "genexpr")

    def e_SetComp(self, e, fr):
        out = []
        if self._comp(e, fr, lambda f: out.append(self.ev(e.elt, f))):
            return set(out)
        return Sym(f"comp@{e.lineno}")

    def e_DictComp(self, e, fr):
        out = {}
        if self._comp(e, fr, lambda f: out.__setitem__(_hashable(self.ev(e.key, f)), self.ev(e.value, f))):
            return out
        return Sym(f"comp@{e.lineno}")

    def e_Yield(self, e, fr):
        v = self.ev(e.value, fr) if e.value is not None else None
        stack = self._yield_stack
        if stack:
            cb = stack[-1]
            # the with-body runs with the stack of the *caller*
            self._yield_stack = stack[:-1]
            try:
                cb(v)
            finally:
                self._yield_stack = stack
            return None
        self.emit("yield", fr.func.short if fr.func else "?", (v,), node=e, frame=fr)
        return None

    def e_YieldFrom(self, e, fr):
        v = self.ev(e.value, fr)
        stack = self._yield_stack
        items = self._concrete_iter(v, fr, e)
        for x in items:
            if stack:
                cb = stack[-1]
                self._yield_stack = stack[:-1]
                try:
                    cb(x)
                finally:
                    self._yield_stack = stack
            else:
                self.emit("yield", fr.func.short if fr.func else "?", (x,), node=e, frame=fr)
        return None

    def e_Await(self, e, fr):
        inner = e.value
        if isinstance(inner, ast.Call):
            return self.e_Call(inner, fr, awaited=True)
        v = self.ev(inner, fr)
        text = _text(inner)
        return self.do_await(text, v, fr, e)

    def _uses_asyncio_wait(self, fr):
        fnode = getattr(getattr(fr, "func", None), "node", None)
        return fnode is not None and any(isinstance(c, ast.Call) and _text(c.func) == "asyncio.wait" for c in ast.walk(fnode))

    def do_await(self, text, v, fr, node):
        if isinstance(v, _TaskSim):
            v._run()
            self.epoch += 1
            return v.result()
        model = self.model_for("await:" + text)
        if model is None and isinstance(v, (Sym, Obj)) and v.tag != text:
            model = self.model_for("await:" + v.tag)  # match on the awaited value, whatever the local is called
            if model is not None:
                text = v.tag
        if model is not None:
            r = self.apply_model(model, text, [v], {}, fr, node, awaited=True, kind="await")
            self.epoch += 1
            return r
        outs = [OK(Sym(f"await:{text}#{self._count('await:' + text)}"))]
        if self.timeouts and self.auto_timeout:
            outs.append(RAISE("TimeoutError"))
        if self.cancel:
            outs.append(RAISE("CancelledError"))
        return self._take(Outcomes(*outs), text, [v], {}, fr, node, "await")

    # ------------------------------------------------------------------ calls
    def ev_args(self, call, fr):
        args = []
        for a in call.args:
            if isinstance(a, ast.Starred):
                v = self.ev(a.value, fr)
                if isinstance(v, Sym):
                    args.append(Sym("*" + v.tag))
                else:
                    args.extend(self._concrete_iter(v, fr, call))
            else:
                args.append(self.ev(a, fr))
        kw = {}
        for k in call.keywords:
            if k.arg is None:
                v = self.ev(k.value, fr)
                if isinstance(v, dict):
                    kw.update({str(a): b for a, b in v.items()})
                elif isinstance(v, Sym):
                    kw["**"] = v
                else:
                    raise Unsupported(f"{fr.mod}:{call.lineno} ** of {v!r}")
            else:
                kw[k.arg] = self.ev(k.value, fr)
        return args, kw

    def model_for(self, text):
        for pat, m in self.models:
            if _match(text, pat):
                return m
        return None

    def e_Call(self, e, fr, awaited=False):
        text = _text(e.func)
        if text.startswith(LOGGER_PREFIXES):
            self.ev_args(e, fr)
            if text.endswith(".isEnabledFor"):
                m = self.model_for(text) or self.model_for("*.isEnabledFor")
                return bool(m(self, text, [], {}, fr)) if callable(m) and not isinstance(m, Outcomes) else False
            return None
        # lock-style use of a semaphore / lock attribute: ``await X.acquire()`` ... ``X.release()`` in the same function is the
        # explicit spelling of ``async with X`` - the same enter / exit events, so that rules see one form
        if isinstance(e.func, ast.Attribute) and e.func.attr in ("acquire", "release") and (e.func.attr == "acquire" or not (e.args or e.keywords)) \
                and _text(e.func.value).startswith("self.") and self.model_for(text) is None:
            recv = _text(e.func.value)
            fnode = getattr(getattr(fr, "func", None), "node", None)
            paired = fnode is not None and {"acquire", "release"} <= {c.func.attr for c in ast.walk(fnode) if isinstance(c, ast.Call)
                                                                       and isinstance(c.func, ast.Attribute) and _text(c.func.value) == recv}
            if paired and awaited and e.func.attr == "acquire":
                self.epoch += 1
                if self.cancel and self.choose(2, f"cancel@enter {recv}"):
                    self.emit("cancelled", "enter " + recv, node=e, frame=fr)
                    raise Exc("CancelledError", origin="enter " + recv)
                a_, k_ = self.ev_args(e, fr)
                if a_:  # zigpy's priority semaphore: acquire(priority) is what `async with sem(priority=...)` does
                    k_ = {"priority": a_[0], **k_}
                self.emit("enter", recv, (), k_, node=e, frame=fr)
                self.ctxstack = self.ctxstack + [recv]
                return True
            if paired and not awaited and e.func.attr == "release" and recv in self.ctxstack:
                i = len(self.ctxstack) - 1 - self.ctxstack[::-1].index(recv)
                self.ctxstack = self.ctxstack[:i] + self.ctxstack[i + 1:]
                self.emit("exit", recv, node=e, frame=fr)
                return None
        # tasks handed to asyncio.wait (see _TaskSim)
        if (text in ("asyncio.ensure_future", "asyncio.create_task") or text.endswith("loop.create_task")) and len(e.args) == 1 and isinstance(e.args[0], ast.Call) \
                and not awaited and self.model_for(text) is None and self._uses_asyncio_wait(fr):
            self.emit("call", text, (), {}, node=e, frame=fr, extra="task")
            return _TaskSim(self, e.args[0], fr)
        if text == "asyncio.wait" and awaited and e.args and self.model_for(text) is None:
            args, kw = self.ev_args(e, fr)
            tasks = list(args[0]) if isinstance(args[0], (set, frozenset, list, tuple)) else None
            if tasks is not None and all(isinstance(t_, _TaskSim) for t_ in tasks):
                self.epoch += 1
                bounded = kw.get("timeout") is not None
                if bounded:
                    # a bounded wait: what the tasks await while it lasts is awaited under that time limit
                    self.emit("enter", "asyncio_timeout", (kw["timeout"],), {}, node=e, frame=fr)
                    self.ctxstack = self.ctxstack + ["asyncio_timeout"]
                try:
                    for t_ in tasks:
                        if t_.state == "pending" and not (bounded and self.choose(2, f"asyncio.wait: {t_!r} still pending at the time-out")):
                            auto, self.auto_timeout = self.auto_timeout, False  # (the limit ends the wait, it is not raised into the task)
                            self.in_wait_task = True
                            try:
                                t_._run()
                            finally:
                                self.auto_timeout, self.in_wait_task = auto, False
                finally:
                    if bounded:
                        self.ctxstack = self.ctxstack[:-1]
                        self.emit("exit", "asyncio_timeout", node=e, frame=fr)
                done = {t_ for t_ in tasks if t_.done()}
                self.emit("await", text, tuple(args), kw, node=e, frame=fr, extra=(len(done), len(tasks) - len(done)))
                return (done, set(tasks) - done)
        # super().method(...)
        if isinstance(e.func, ast.Attribute) and isinstance(e.func.value, ast.Call) and _text(e.func.value.func) == "super":
            args, kw = self.ev_args(e, fr)
            return self.opaque("super()." + e.func.attr, args, kw, fr, e, awaited)
        fval = self.ev(e.func, fr)
        if isinstance(fval, _PyMethod) and isinstance(fval.obj, _ExitStack) and fval.name in ("enter_context", "enter_async_context") \
                and len(e.args) == 1 and not e.keywords:
            # the context expression is evaluated by the stack model itself (a @contextmanager generator of the repository must be
            # entered - run up to its yield - not run to completion as an ordinary call would)
            return self.exit_stack_method(fval.obj, fval.name, text, [None], {}, fr, e)
        args, kw = self.ev_args(e, fr)
        return self.do_call(fval, text, args, kw, fr, e, awaited)

    def do_call(self, fval, text, args, kw, fr, node, awaited):
        model = self.model_for(text)
        if model is None and isinstance(fval, Sym) and fval.tag != text:
            model = self.model_for(fval.tag)  # alias-independent: match on the callee's value tag
            if model is not None:
                text = fval.tag
        if model is None and isinstance(fval, TypeRef):
            for alias in ("t." + fval.short, fval.name):  # a type reached through a table or alias instead of `t.X`
                if alias != text and self.model_for(alias) is not None:
                    model, text = self.model_for(alias), alias
                    break
        if model is not None:
            self._callee = _short(fval) if isinstance(fval, Sym) else None
            r = self.apply_model(model, text, args, kw, fr, node, awaited)
            if awaited:
                self.epoch += 1
            return r
        if isinstance(fval, _DCReplace):
            o = Obj(fval.obj.cls, {**fval.obj.fields, **kw}, tag=fval.obj.tag)
            self.emit("call", text, args, kw, node=node, frame=fr, extra=o)
            return o
        if isinstance(fval, Partial):
            ptext = fval.text if getattr(fval, "text", None) and fval.text.startswith("self.") and not text.startswith("self.") else text
            return self.do_call(fval.f, ptext, list(fval.args) + list(args), {**fval.kwargs, **kw}, fr, node, awaited)
        if isinstance(fval, _PyMethod):
            if isinstance(fval.obj, _ExitStack):
                return self.exit_stack_method(fval.obj, fval.name, text, args, kw, fr, node)
            return self.py_method(fval, text, args, kw, fr, node)
        if isinstance(fval, TypeRef) and fval.name in ("builtins.int.from_bytes", "builtins.bytes.fromhex", "builtins.dict.fromkeys", "builtins.bytes.join",
                                                        "builtins.str.join", "builtins.int.to_bytes", "builtins.bytearray.fromhex"):
            vals = [a.value if isinstance(a, Member) else (list(a) if isinstance(a, (Iter, _Gen)) else a) for a in args]
            if not any(isinstance(a, (Sym, Obj)) or _has_sym(a) for a in vals) or fval.name == "builtins.dict.fromkeys":
                import builtins as _b

                obj = _b
                for part in fval.name.split(".")[1:]:
                    obj = getattr(obj, part)
                try:
                    return obj(*[bytes(a) if isinstance(a, bytearray) and fval.name.endswith("from_bytes") else a for a in vals],
                               **{k: (v.value if isinstance(v, Member) else v) for k, v in kw.items()})
                except (TypeError, ValueError, OverflowError) as ex:
                    raise Exc(type(ex).__name__, (str(ex),), origin=text)
        if isinstance(fval, TypeRef) and fval.name.startswith("builtins."):
            return self.builtin(fval.short, text, args, kw, fr, node)
        if isinstance(fval, TypeRef) and fval.name in ("functools.partial",):
            ptxt = _text(node.args[0]) if isinstance(node, ast.Call) and node.args and not isinstance(node.args[0], ast.Starred) else None
            return Partial(args[0], args[1:], kw, ptxt)
        if isinstance(fval, TypeRef) and fval.name.startswith("re.") and not any(isinstance(a, (Sym, Obj)) or _has_sym(a) for a in list(args) + list(kw.values())):
            import re as _real_re

            fn = getattr(_real_re, fval.name[3:], None)
            if callable(fn):
                try:
                    return fn(*[bytes(a) if isinstance(a, bytearray) else a for a in args], **kw)
                except _real_re.error:
                    raise Exc("error", (), origin=text)
        if isinstance(fval, TypeRef) and fval.name.startswith("struct.") and not any(isinstance(a, (Sym, Obj)) or _has_sym(a) for a in list(args) + list(kw.values())):
            # the struct module on concrete input is part of the trusted base, modelled by itself (like re / binascii)
            import struct as _real_struct

            fn = getattr(_real_struct, fval.name[7:], None)
            if callable(fn):
                try:
                    return fn(*[bytes(a) if isinstance(a, bytearray) else (a.value if isinstance(a, Member) else a) for a in args], **kw)
                except _real_struct.error as ex:
                    raise Exc("error", (str(ex),), origin=text)
        if isinstance(fval, TypeRef) and fval.name == "dataclasses.replace" and args and isinstance(args[0], Obj):
            o = Obj(args[0].cls, {**args[0].fields, **kw}, tag=args[0].tag)
            return o
        if isinstance(fval, TypeRef) and fval.name in ("operator.methodcaller", "operator.attrgetter", "operator.itemgetter") and args:
            return _OpCallable(fval.name[9:], args, kw)
        if type(fval).__name__ == "Record" and getattr(fval, "ctor", None) == TypeRef("builtins.lambda") and "node" in fval.kwargs:
            # a lambda written at module level (a table of getters): called like a closure whose enclosing scope is that module
            lam = fval.kwargs
            mfr = Frame(None, {}, None, None, mod=lam.get("mod"), depth=(fr.depth if fr is not None else 0))
            return self.do_call(Closure(lam["node"], mfr, "<lambda>"), text, args, kw, fr, node, awaited)
        if type(fval).__name__ == "Record" and isinstance(getattr(fval, "ctor", None), TypeRef) \
                and fval.ctor.name in ("operator.methodcaller", "operator.attrgetter", "operator.itemgetter") and fval.args:
            # a getter built at module level (``_child_info = operator.attrgetter("id", "eui64")``) and called here
            fval = _OpCallable(fval.ctor.name[9:], fval.args, fval.kwargs)
        if isinstance(fval, _OpCallable) and len(args) == 1:
            o = args[0]
            if fval.kind == "methodcaller":
                m = self.getattr(o, fval.args[0], fr, node)
                return self.do_call(m, f"{_short(o)}.{fval.args[0]}", list(fval.args[1:]), dict(fval.kw), fr, node, False)
            if fval.kind == "attrgetter":
                vals = []
                for path in fval.args:
                    v = o
                    for part in str(path).split("."):
                        v = self.getattr(v, part, fr, node)
                    vals.append(v)
                return vals[0] if len(vals) == 1 else tuple(vals)
            vals = [self.subscript(o, k_, fr, node) for k_ in fval.args]
            return vals[0] if len(vals) == 1 else tuple(vals)
        if isinstance(fval, TypeRef) and fval.name.startswith("operator.") and not kw:
            import operator as _op

            fn = getattr(_op, fval.name[9:], None)
            vals = [a.value if isinstance(a, Member) and a.intlike else a for a in args]
            if callable(fn) and not any(isinstance(a, (Sym, Obj)) or _has_sym(a) for a in vals):
                try:
                    return fn(*vals)
                except (TypeError, ValueError, ZeroDivisionError) as ex:
                    raise Exc(type(ex).__name__, (), origin=text)
            if fval.name[9:] in ("xor", "and_", "or_", "add", "sub", "mul", "mod", "lshift", "rshift", "floordiv") and len(args) == 2:
                opn = {"xor": ast.BitXor, "and_": ast.BitAnd, "or_": ast.BitOr, "add": ast.Add, "sub": ast.Sub, "mul": ast.Mult, "mod": ast.Mod,
                       "lshift": ast.LShift, "rshift": ast.RShift, "floordiv": ast.FloorDiv}[fval.name[9:]]
                return self.binop(opn(), args[0], args[1], node)
        if isinstance(fval, TypeRef) and fval.name == "functools.reduce" and len(args) >= 2 and not isinstance(args[1], Sym):
            items = self._concrete_iter(args[1], fr, node)
            if len(args) > 2:
                acc = args[2]
            elif items:
                acc, items = items[0], items[1:]
            else:
                raise Exc("TypeError", ("reduce() of empty iterable with no initial value",), origin=text)
            for x in items:
                acc = self._apply(args[0], [acc, x], fr, node, text)
            return acc
        if isinstance(fval, TypeRef) and fval.name.startswith("itertools.") and fval.name != "itertools.cycle" \
                and not any(isinstance(a, Sym) for a in args):
            import itertools as _it

            nm = fval.name[10:]
            conv = lambda a: a.it if isinstance(a, Iter) else (iter(self._concrete_iter(a, fr, node)) if isinstance(a, (list, tuple, set, frozenset, range, bytes, bytearray, str, dict, _Gen, _DictItems)) or (isinstance(a, ClassRef) and a.is_enum) else a)
            if nm == "chain.from_iterable" and len(args) == 1:
                outer = conv(args[0])
                return Iter((y for x in outer for y in conv(x)), "chain")
            if nm == "chain":
                return Iter((y for x in args for y in conv(x)), "chain")
            if nm == "count":
                vals = [a.value if isinstance(a, Member) else a for a in args]
                return Iter(_it.count(*vals, **kw), "count")
            if nm in ("islice", "repeat", "zip_longest", "product", "pairwise", "batched", "takewhile_") and hasattr(_it, nm):
                return Iter(getattr(_it, nm)(*[conv(a) if i == 0 or nm in ("zip_longest", "product") else (a.value if isinstance(a, Member) else a) for i, a in enumerate(args)], **kw), nm)
            if nm in ("filterfalse", "takewhile", "dropwhile") and len(args) == 2:
                pred, src = args[0], conv(args[1])

                def gen_f():
                    dropping = True
                    for x in src:
                        t_ = bool(x) if pred is None else self.truth(self._apply(pred, [x], fr, node, text), fr, node)
                        if nm == "filterfalse":
                            if not t_:
                                yield x
                        elif nm == "takewhile":
                            if not t_:
                                return
                            yield x
                        else:
                            if dropping and t_:
                                continue
                            dropping = False
                            yield x

                return Iter(gen_f(), nm)
            if nm == "starmap" and len(args) == 2:
                return Iter((self._apply(args[0], list(xs), fr, node, text) for xs in conv(args[1])), "starmap")
            if nm == "accumulate" and args:
                def gen_acc():
                    it_ = conv(args[0])
                    fnv = args[1] if len(args) > 1 else kw.get("func")
                    first = True
                    for x in it_:
                        if first:
                            acc, first = x, False
                        else:
                            acc = self._apply(fnv, [acc, x], fr, node, text) if fnv is not None else self.binop(ast.Add(), acc, x, node)
                        yield acc
                return Iter(gen_acc(), "accumulate")
        if isinstance(fval, TypeRef) and fval.name in ("collections.defaultdict", "defaultdict") and len(args) <= 1 and not kw:
            import collections as _c

            fac = args[0] if args else None
            real = {"builtins.list": list, "builtins.dict": dict, "builtins.set": set, "builtins.int": int, "builtins.bytearray": bytearray}.get(getattr(fac, "name", None))
            if fac is None or real is not None:
                return _c.defaultdict(real)
        if isinstance(fval, TypeRef) and fval.name == "itertools.cycle" and args and not isinstance(args[0], Sym):
            return _Cycle(self._concrete_iter(args[0], fr, node))
        if isinstance(fval, TypeRef) and fval.name == "itertools.chain" and not any(isinstance(a, Sym) for a in args):
            out = []
            for a in args:
                out.extend(self._concrete_iter(a, fr, node))
            return out
        if isinstance(fval, FuncRef) and fval.cls is not None and not _is_static(fval) and not _is_classmethod(fval) and args \
                and isinstance(args[0], (Obj, Sym, NT, Member)):
            # a plain function taken from the class (dispatch table of methods, ``Class.method(obj, ...)``): the first
            # positional argument is the receiver
            fval, args = Bound(args[0], fval), list(args[1:])
        if isinstance(fval, (Bound, FuncRef, Closure)):
            target = fval.func if isinstance(fval, Bound) else fval
            is_async = isinstance(target.node, ast.AsyncFunctionDef)
            if isinstance(target, FuncRef) and any(d.split("(")[0].endswith(("lru_cache", "cache", "cached_property")) for d in target.decorators):
                # memoised: the same call returns the very same object for the rest of the path
                try:
                    ckey = ("memo", target.qual, id(fval.recv) if isinstance(fval, Bound) else None, tuple(_hashable(a) for a in args), tuple(sorted(kw.items(), key=repr)))
                    hash(ckey)
                except TypeError:
                    ckey = None
                if ckey is not None:
                    cache = self.__dict__.setdefault("_memo_cache", {})
                    if ckey in cache:
                        return cache[ckey]
                    recv = fval.recv if isinstance(fval, Bound) else None
                    self.emit("call", text, args, kw, node=node, frame=fr, extra="inlined")
                    r = self.call_function(target, recv, args, kw, fr)
                    cache[ckey] = r
                    return r
            if not is_async and isinstance(target, (FuncRef, Closure)) and _is_generator(target.node) \
                    and not any("contextmanager" in d for d in _decos(target)) and self.should_inline(fval, awaited, fr):
                self.emit("call", text, args, kw, node=node, frame=fr, extra="generator")
                recv = fval.recv if isinstance(fval, Bound) else None
                return Iter(_LazyGen(self, target, recv, args, kw, fr), f"generator {getattr(target, 'name', '?')}")
            if self.should_inline(fval, awaited, fr) and (awaited or not is_async):
                # an inlined helper is not itself a suspension point: always recorded as a plain call
                self.emit("call", text, args, kw, node=node, frame=fr, extra="inlined")
                recv = fval.recv if isinstance(fval, Bound) else None
                r = self.call_function(target, recv, args, kw, fr)
                self.emit("ret", text, (r,), node=node, frame=fr)
                return r
            cal = f"{_short(fval.recv)}.{target.name}" if isinstance(fval, Bound) else getattr(target, "short", None)
            return self.opaque(text, args, kw, fr, node, awaited, cal)
        if isinstance(fval, Obj) and isinstance(fval.cls, ClassRef) and fval.cls.has("__call__"):
            m = fval.cls.lookup("__call__")
            if isinstance(m, FuncRef):
                return self.do_call(Bound(fval, m), text, args, kw, fr, node, awaited)
        if isinstance(fval, ClassRef):
            return self.construct(fval, text, args, kw, fr, node)
        if isinstance(fval, TypeRef) and fval.name == "builtins.int.from_bytes" and args and isinstance(args[0], (bytes, bytearray)):
            order = args[1] if len(args) > 1 else kw.get("byteorder", "big")
            return int.from_bytes(bytes(args[0]), order, signed=bool(kw.get("signed", False)))
        if isinstance(fval, TypeRef) and fval.short == "deserialize" and args and isinstance(args[0], (bytes, bytearray)) and ":" in fval.name:
            # <repository enum / bitmap class>.deserialize(bytes): the trusted-base codec of the declared width
            try:
                ecls = self.repo.cls(*fval.name.rsplit(".", 1)[0].split(":"))
            except Exception:
                ecls = None
            m = None
            if isinstance(ecls, ClassRef) and ecls.is_enum:
                for bn in ecls.base_names()[1:]:
                    m = _re.fullmatch(r"(?:enum|bitmap)(\d+)", bn)
                    if m:
                        break
            if m:
                nb = int(m.group(1)) // 8
                if len(args[0]) < nb:
                    raise Exc("ValueError", ("data too short",), origin=text)
                return self.construct(ecls, text, [int.from_bytes(bytes(args[0][:nb]), "little")], {}, fr, node), bytes(args[0][nb:])
        if isinstance(fval, TypeRef) and fval.short == "deserialize" and args and isinstance(args[0], (bytes, bytearray)):
            base = TypeRef(fval.name.rsplit(".", 1)[0])
            it = int_type_of(base)
            if it:
                n = it[0] // 8
                if len(args[0]) < n:
                    raise Exc("ValueError", ("data too short",), origin=text)
                return ZInt(int.from_bytes(bytes(args[0][:n]), "little", signed=it[1]), *it), bytes(args[0][n:])
        if isinstance(fval, TypeRef) and int_type_of(fval) and len(args) == 1 and isinstance(args[0], (int, Member)) and not kw:
            bits, signed = int_type_of(fval)
            v = int(args[0])
            if not (-(1 << (bits - 1)) <= v < (1 << (bits - 1)) if signed else 0 <= v < (1 << bits)):
                raise Exc("ValueError", (v,), origin=text)
            return ZInt(v, bits, signed)
        if isinstance(fval, TypeRef) and int_type_of(fval) and len(args) == 1 and isinstance(args[0], Sym) and not kw:
            return Sym(f"{fval.short}({args[0].tag})")
        if isinstance(fval, TypeRef) and fval.name in ("zigpy.types.LVBytes", "zigpy.types.basic.LVBytes", "bellows.types.LVBytes") and len(args) == 1 \
                and isinstance(args[0], (bytes, bytearray)) and not kw:
            return ZBytes(bytes(args[0]), 1, ("LVBytes",))  # trusted base: a byte string with a one-byte length prefix
        if isinstance(fval, TypeRef):
            short = fval.short
            if short in self.hier.parent or short.endswith(("Error", "Exception")):
                return Obj(fval, {"args": tuple(args), **kw}, tag=short)
            return self.opaque(text, args, kw, fr, node, awaited, _short(fval))
        if isinstance(fval, Sym) and fval.tag.startswith("self.") and not text.startswith("self.") and "#" not in fval.tag and "(" not in fval.tag:
            text = fval.tag  # a method of an attribute-held object called through a local alias: reported under its access path
        return self.opaque(text, args, kw, fr, node, awaited, _short(fval) if isinstance(fval, Sym) else None)

    def _make_nt(self, cls, args, kw, text):
        fields = cls.struct_fields()
        names = [f[0] for f in fields]
        vals = {}
        for fn, fty, dflt in fields:
            if dflt is not None and not isinstance(dflt, Unknown):
                vals[fn] = self.lift(dflt)
        if len(args) > len(names):
            raise Exc("TypeError", (f"{cls.name}() takes {len(names)} positional arguments",), origin=text)
        for n, a in zip(names, args):
            vals[n] = a
        for k, a in kw.items():
            if k not in names:
                raise Exc("TypeError", (f"{cls.name}() got an unexpected keyword argument {k!r}",), origin=text)
            vals[k] = a
        missing = [n for n in names if n not in vals]
        if missing:
            raise Exc("TypeError", (f"{cls.name}() missing {missing}",), origin=text)
        return NT(cls, [vals[n] for n in names])

    def _apply(self, fn, args, fr, node, text="call"):
        """Call an explorer-level callable value (closure, repo function, bound method, type, builtin) on values."""
        t = getattr(fn, "short", None) or getattr(fn, "name", None) or text
        return self.do_call(fn, str(t), list(args), {}, fr, node, False)

    def construct(self, cls, text, args, kw, fr, node):
        if _is_namedtuple(cls):
            return self._make_nt(cls, list(args), dict(kw), text)
        it = int_type_of(cls)
        if it and len(args) == 1 and isinstance(args[0], (int, Member)) and not kw:
            return ZInt(int(args[0]), *it)
        if it and len(args) == 1 and isinstance(args[0], Sym) and not kw:
            return Sym(f"{cls.name}({args[0].tag})")
        if cls.is_enum:
            if len(args) == 1 and not kw:
                a = args[0]
                av = a.value if isinstance(a, Member) else a
                if isinstance(av, int):
                    for m in cls.canonical_members():
                        if m.value == av:
                            return m
                    try:
                        miss = cls.method("_missing_")
                    except KeyError:
                        miss = None
                    if miss is not None and (fr is None or fr.depth < self.max_depth):
                        r = self.call_function(miss, cls, [av], {}, fr)
                        if isinstance(r, Member):
                            return r
                        if r is None:
                            raise Exc("ValueError", (av,), origin=text)
                    # zigpy's fixed-width enums (trusted base) make up a member for an undefined value; an enum built directly on the
                    # standard library's Enum / IntEnum / IntFlag raises ValueError instead
                    bases_ = [b_.rsplit(".", 1)[-1] for b_ in cls.base_names()[1:]]
                    if bases_ and all(b_ in ("Enum", "IntEnum", "StrEnum", "Flag", "int", "str", "object") for b_ in bases_) and any(
                            b_ in ("Enum", "IntEnum") for b_ in bases_):
                        raise Exc("ValueError", (f"{av} is not a valid {cls.name}",), origin=text)
                    return Member(cls, f"undefined_0x{av:02x}", av)
                return Sym(f"{cls.name}({_short(a)})")
        names = self.hier
        base_names = cls.base_names()
        if any(n in ("Exception", "BaseException") or n in names.parent for n in base_names[1:]) or cls.name in names.parent:
            self.hier.learn(cls)
            fields = {"args": tuple(args), **kw}
            try:
                init = cls.method("__init__")
                pnames = [x.arg for x in init.node.args.args][1:]
                for n, v in zip(pnames, args):
                    fields[n] = v
            except KeyError:
                pass
            return Obj(cls, fields, tag=cls.name)
        fields = {}
        fnames = [f[0] for f in cls.struct_fields()] if (cls.is_struct or _is_dataclass(cls)) else []
        if not fnames:
            try:
                init = cls.method("__init__")
                fnames = [x.arg for x in init.node.args.args][1:]
            except KeyError:
                fnames = []
        if cls.is_struct or _is_dataclass(cls):
            for fn, fty, dflt in cls.struct_fields():
                if dflt is not None and not isinstance(dflt, (Record, Unknown)):
                    fields[fn] = dflt
        for n, v in zip(fnames, args):
            fields[n] = v
        if len(args) > len(fnames):
            fields["args"] = tuple(args)
        fields.update(kw)
        self.emit("new", cls.name, args, kw, node=node, frame=fr)
        o = Obj(cls, fields, tag=f"{cls.name}#{self._count('new:' + cls.name)}")
        # a small helper class of the module being explored (not a struct / dataclass): its initialiser is run, so that the
        # state it sets up (a future, an accumulator list) exists as in the real object
        try:
            init = cls.method("__init__")
        except KeyError:
            init = None
        cur = fr.func if fr is not None else None
        if init is not None and not (cls.is_struct or _is_dataclass(cls)) and cur is not None and init.mod == getattr(cur, "mod", None) \
                and (fr is None or fr.depth < self.max_depth) and getattr(cur, "cls", None) is not None and cls.name.startswith("_"):
            self.call_function(init, o, list(args), dict(kw), fr)
        return o

    def opaque(self, text, args, kw, fr, node, awaited, callee=None):
        self._callee = callee
        n = self._count("call:" + text)
        res = Sym(f"{text}#{n}")
        if text.endswith(".time") and not args:
            self.clock_reads = getattr(self, "clock_reads", {})
            self.clock_reads[res.tag] = self.epoch  # when (between which awaits) the loop's clock was read
        if awaited:
            outs = [OK(res)]
            if self.timeouts and self.auto_timeout:
                outs.append(RAISE("TimeoutError"))
            if self.cancel:
                outs.append(RAISE("CancelledError"))
            return self._take(Outcomes(*outs), text, args, kw, fr, node, "await")
        if any(_match(text, p) for p in self.pure):
            return res
        self.emit("call", text, args, kw, node=node, frame=fr, extra=res, callee=callee)
        return res

    def apply_model(self, model, text, args, kw, fr, node, awaited=False, kind=None):
        kind = kind or ("await" if awaited else "call")
        if callable(model) and not isinstance(model, Outcomes):
            model = model(self, text, args, kw, fr)
            if not isinstance(model, Outcomes):
                self.emit(kind, text, args, kw, node=node, frame=fr, extra=model, callee=getattr(self, "_callee", None))
                return model
        return self._take(model, text, args, kw, fr, node, kind)

    def _take(self, outcomes, text, args, kw, fr, node, kind):
        if kind == "await" and self.precise_timeouts and self.timeouts and self.choose(2, f"deadline of {self.timeouts[-1]} at {text}"):
            self.epoch += 1
            self.emit(kind, text, args, kw, node=node, frame=fr, extra="raises TimeoutError", callee=getattr(self, "_callee", None))
            ex_ = Exc("CancelledError", (), origin=f"deadline:{len(self.timeouts)}")
            raise ex_
        outs = outcomes.outs
        i = self.choose(len(outs), f"outcome {text}")
        o = outs[i]
        if kind == "await":
            self.epoch += 1
        if o[0] == "ok":
            self.emit(kind, text, args, kw, node=node, frame=fr, extra=o[1], callee=getattr(self, "_callee", None))
            return o[1]
        name = o[1]
        self.emit(kind, text, args, kw, node=node, frame=fr, extra=f"raises {name}", callee=getattr(self, "_callee", None))
        raise Exc(name, (), origin=f"{kind} {text}", value=o[2] if len(o) > 2 else None)

    # -- python-level methods on concrete containers
    def py_method(self, m, text, args, kw, fr, node):
        obj, name = m.obj, m.name
        if isinstance(obj, NT) and name == "_replace":
            return NT(obj.cref, [kw.get(n, v) for n, v in zip(obj.names, obj)])
        if isinstance(obj, NT) and name == "_asdict":
            return dict(zip(obj.names, obj))
        args = [list(a) if isinstance(a, (Iter, _Gen)) else (a.materialise() if isinstance(a, _DictItems) else a) for a in args]
        if name == "join" and isinstance(obj, (str, bytes, bytearray)) and args and isinstance(args[0], (list, tuple)):
            if any(isinstance(x, (Sym, Obj)) for x in args[0]):
                if len(obj) == 0 and args[0]:
                    # empty separator: the join is the concatenation of its parts
                    acc = args[0][0]
                    for x in args[0][1:]:
                        acc = self.binop(ast.Add(), acc, x, node)
                    return acc
                return Sym(f"{text}#{self._count('call:' + text)}")
            conv = [bytes(x) if isinstance(x, bytearray) and isinstance(obj, bytes) else x for x in args[0]]
            try:
                return obj.join(conv)
            except TypeError:
                raise Exc("TypeError", ("join",), origin=text)
        if type(obj).__module__ == "re":
            if any(isinstance(a, (Sym, Obj)) for a in args):
                return Sym(f"{text}#{self._count('call:' + text)}")
            return getattr(obj, name)(*[bytes(a) if isinstance(a, bytearray) else a for a in args], **kw)
        if type(obj).__module__ in ("_struct", "struct"):
            if any(isinstance(a, (Sym, Obj)) or _has_sym(a) for a in args):
                return Sym(f"{text}#{self._count('call:' + text)}")
            import struct as _real_struct2

            try:
                return getattr(obj, name)(*[bytes(a) if isinstance(a, bytearray) else (a.value if isinstance(a, Member) else a) for a in args], **kw)
            except _real_struct2.error as ex:
                raise Exc("error", (str(ex),), origin=text)
        mutators = {"append", "extend", "add", "pop", "remove", "clear", "update", "setdefault", "discard", "insert",
                    "popitem", "sort", "reverse"}
        if name in mutators and isinstance(obj, (list, dict, set, bytearray)):
            self.emit("write", text, args, kw, node=node, frame=fr)
        if isinstance(obj, dict) and name in ("items", "keys", "values"):
            return _DictItems(obj, name)
        if isinstance(obj, set) and name == "pop" and not args:
            if not obj:
                raise Exc("KeyError", ("pop from an empty set",), origin=text)
            items = sorted(obj, key=repr)
            x = items[self.choose(len(items), f"set.pop {text}")]  # set.pop() removes an arbitrary element
            obj.discard(x)
            return x
        if isinstance(obj, dict) and name in ("get", "pop", "setdefault") and args:
            args = [_hashable(args[0])] + list(args[1:])
        try:
            r = getattr(obj, name)(*args, **kw)
        except KeyError:
            raise Exc("KeyError", tuple(args), origin=text)
        except ValueError:
            raise Exc("ValueError", tuple(args), origin=text)
        except IndexError:
            raise Exc("IndexError", tuple(args), origin=text)
        except AttributeError:
            raise Exc("AttributeError", (name,), origin=text)
        except TypeError:
            return Sym(f"{text}#{self._count('call:' + text)}")
        return r

    def builtin(self, n, text, args, kw, fr, node):
        def conc(x):
            return not isinstance(x, (Sym, Obj, _Cycle)) and not _has_sym(x)

        if n == "isinstance":
            return self.isinstance_(args[0], args[1], fr, node)
        if n == "slice" and not kw and 1 <= len(args) <= 3 and all(a is None or (isinstance(a, int) and not isinstance(a, bool)) for a in args):
            return slice(*[None if a is None else int(a) for a in args])
        if n == "super":
            return Sym("super()")
        if n == "len":
            a = args[0]
            if isinstance(a, (list, tuple, dict, set, frozenset, str, bytes, bytearray, range)):
                return len(a)
            if isinstance(a, _DictItems):
                return len(a.d)
            return Sym(f"len({_short(a)})")
        if n == "type":
            a = args[0]
            if isinstance(a, Member):
                return a.cls
            if isinstance(a, Obj):
                return a.cls
            if isinstance(a, ZInt):
                return TypeRef(f"zigpy.types.{'' if a.signed else 'u'}int{a.bits}{'s' if a.signed else '_t'}")
            if isinstance(a, NT):
                return a.cref
            if isinstance(a, (bytes, bytearray, str, list, tuple, dict, set, frozenset, bool, int, float)) or a is None:
                return TypeRef("builtins." + type(a).__name__)
            return Sym(f"type({_short(a)})")
        if n == "iter" and len(args) == 1:
            a = args[0]
            if isinstance(a, Iter):
                return a
            if isinstance(a, _Gen):
                return a
            if isinstance(a, _DictItems):
                return Iter(iter(a.materialise()), "iter")
            if isinstance(a, ClassRef) and a.is_enum:
                return Iter(iter(a.canonical_members()), "iter")
            if isinstance(a, (list, tuple, set, frozenset, range, bytes, bytearray, str, dict)):
                return Iter(iter(a), "iter")  # live view, as in Python
            if isinstance(a, Sym):
                return Sym(f"iter({a.tag})")
        if n in ("map", "filter") and len(args) >= 2 and not any(isinstance(a, Sym) for a in args[1:]):
            fn = args[0]
            its = [iter(self._concrete_iter(a, fr, node)) if not isinstance(a, Iter) else a.it for a in args[1:]]

            def gen_map():
                for xs in zip(*its):
                    if n == "map":
                        yield self._apply(fn, list(xs), fr, node, text)
                    else:
                        keep = xs[0] if fn is None else self._apply(fn, [xs[0]], fr, node, text)
                        if self.truth(keep, fr, node):
                            yield xs[0]

            return Iter(gen_map(), n)
        if n == "next":
            a = args[0]
            if isinstance(a, Iter):
                try:
                    return next(a.it)
                except StopIteration:
                    if len(args) > 1:
                        return args[1]
                    raise Exc("StopIteration", (), origin=text)
            if isinstance(a, _Gen):
                if a.items:
                    return a.items.pop(0)
                if len(args) > 1:
                    return args[1]
                raise Exc("StopIteration", (), origin=text)
            res = Sym(f"next({_short(a)})#{self._count('next')}")
            if len(args) > 1:
                return self._take(Outcomes(OK(res), OK(args[1])), text, args, kw, fr, node, "call")
            return self._take(Outcomes(OK(res), RAISE("StopIteration")), text, args, kw, fr, node, "call")
        if n == "getattr":
            if isinstance(args[1], str):
                try:
                    return self.getattr(args[0], args[1], fr, node)
                except Exc:
                    if len(args) > 2:
                        return args[2]
                    raise
            return Sym(f"getattr({_short(args[0])},{_short(args[1])})")
        if n == "setattr" and len(args) == 3 and isinstance(args[1], str):
            tgt, name, val = args
            self.emit("write", f"{_short(tgt)}.{name}", (val,), node=node, frame=fr)
            if isinstance(tgt, Obj):
                tgt.fields[name] = val
                tgt.fields[("__epoch__", name)] = self.epoch
            elif isinstance(tgt, Sym):
                self.symfields[(tgt.tag, name)] = val
            return None
        if n == "hasattr":
            o, nm = args[0], args[1]
            if isinstance(nm, str):
                if isinstance(o, ZInt):
                    return nm in ("serialize", "deserialize") or hasattr(int, nm)
                if isinstance(o, Member):
                    return nm in ("serialize", "deserialize", "name", "value") or (o.intlike and hasattr(int, nm))
                if isinstance(o, (bytes, bytearray, str, int, float, list, tuple, dict, set, frozenset)) or o is None:
                    return hasattr(o, nm)
                if isinstance(o, NT):
                    return nm in o.names or o.cref.has(nm) or hasattr(tuple, nm)
            return Sym(f"hasattr({_short(args[0])},{_short(args[1])})")
        if n == "callable":
            a = args[0]
            if isinstance(a, (Bound, FuncRef, Closure, Partial, ClassRef)):
                return True
            if isinstance(a, Sym):
                return Sym(f"callable({a.tag})")
            return False
        if n in ("print",):
            return None
        if n == "bool":
            return self.truth(args[0], fr, node) if args else False
        if n == "vars" and len(args) == 1:
            if isinstance(args[0], ClassRef):
                return {k: v for k, v in args[0].attrs.items()}
            if isinstance(args[0], TypeRef):
                return {}
            if isinstance(args[0], Obj):
                return {k: v for k, v in args[0].fields.items() if isinstance(k, str)}
        if n in ("sorted", "min", "max") and isinstance(kw.get("key"), (Closure, FuncRef, Bound, Partial, _OpCallable, TypeRef)) and args \
                and not isinstance(args[0], Sym):
            items = self._concrete_iter(args[0], fr, node) if len(args) == 1 else list(args)
            keyed = [(self._apply(kw["key"], [x], fr, node, text), i, x) for i, x in enumerate(items)]
            if any(isinstance(k_, (Sym, Obj)) for k_, _, _ in keyed):
                return Sym(f"{n}({_short(args[0])})")
            kv = lambda k_: k_.value if isinstance(k_, Member) else k_
            if n == "sorted":
                return [x for _, _, x in sorted(keyed, key=lambda t_: (kv(t_[0]), t_[1]), reverse=bool(kw.get("reverse", False)))]
            pick = (min if n == "min" else max)(keyed, key=lambda t_: kv(t_[0]))
            return pick[2]
        if n in PURE_BUILTINS:
            pyargs = []
            for a in args:
                if isinstance(a, _DictItems):
                    a = a.materialise()
                elif isinstance(a, _Gen):
                    a = list(a.items)
                elif isinstance(a, Iter):
                    if n in ("zip", "enumerate"):
                        a = a.it  # stay lazy (may be unbounded, e.g. itertools.count)
                    else:
                        a = _drain(a)
                elif isinstance(a, Member) and n in ("int", "bool", "bytes", "abs", "min", "max", "range"):
                    a = a.value
                elif isinstance(a, PyModel) and n == "int" and hasattr(a, "__int__"):
                    a = int(a)
                elif isinstance(a, ClassRef) and a.is_enum and n in ("tuple", "list", "set", "frozenset", "sorted", "enumerate", "reversed", "len"):
                    a = list(a.canonical_members())  # iterating an enum class yields its (canonical) members
                pyargs.append(a)
            if all(conc(a) for a in pyargs) or n in ("tuple", "list", "dict", "enumerate", "zip", "set", "frozenset", "reversed"):
                try:
                    if n == "bytes" and pyargs and isinstance(pyargs[0], (list, tuple)):
                        if all(isinstance(x, (int, Member)) for x in pyargs[0]):
                            return bytes(int(x) for x in pyargs[0])
                        return Sym(f"bytes({_short(pyargs[0])})")
                    if n == "zip" and any(isinstance(a, _Cycle) for a in pyargs):
                        fin = [len(a) for a in pyargs if not isinstance(a, (_Cycle, Sym))]
                        if not fin or any(isinstance(a, Sym) for a in pyargs):
                            raise Unsupported("zip of unbounded iterables")
                        pyargs = [a.take(min(fin)) if isinstance(a, _Cycle) else a for a in pyargs]
                    if n in ("enumerate", "zip", "reversed"):
                        if any(isinstance(a, Sym) for a in pyargs):
                            return Sym(f"{n}({', '.join(_short(a) for a in pyargs)})")
                        lazy = {"enumerate": enumerate, "zip": zip, "reversed": reversed}[n](*pyargs, **kw)
                        if n == "zip" and pyargs and all(not hasattr(a, "__len__") for a in pyargs):
                            return Iter(lazy, "zip")  # only iterators: keep it lazy, nothing guarantees it is finite
                        if n == "enumerate" and not hasattr(pyargs[0], "__len__"):
                            return Iter(lazy, "enumerate")
                        return list(lazy)
                    if any(isinstance(a, Sym) for a in pyargs):
                        return Sym(f"{n}({', '.join(_short(a) for a in pyargs)})")
                    import builtins

                    return getattr(builtins, n)(*pyargs, **kw)
                except (TypeError, ValueError):
                    return Sym(f"{n}({', '.join(_short(a) for a in pyargs)})")
            return Sym(f"{n}({', '.join(_short(a) for a in pyargs)})")
        # exception classes used as constructors
        if n in self.hier.parent or n.endswith("Error"):
            return Obj(TypeRef("builtins." + n), {"args": tuple(args)}, tag=n)
        return self.opaque(text, args, kw, fr, node, False)

    def isinstance_(self, v, cls, fr, node):
        classes = cls if isinstance(cls, tuple) else (cls,)
        if isinstance(v, Sym):
            return Sym(f"isinstance({v.tag}, {', '.join(_short(c) for c in classes)})")
        for c in classes:
            if isinstance(v, ZBytes) and isinstance(c, (ClassRef, TypeRef)):
                if (c.name if isinstance(c, ClassRef) else c.short) in v.type_names:
                    return True
                continue
            if isinstance(c, ClassRef):
                if isinstance(v, Obj) and isinstance(v.cls, ClassRef) and c in v.cls.mro():
                    return True
                if isinstance(v, Obj) and isinstance(v.cls, TypeRef) and v.cls.name.startswith("exc."):
                    self.hier.learn(c)
                    if self.hier.is_sub(v.cls_name, c.name):
                        return True  # an exception in flight (handed to __exit__ / bound by `except ... as`) against a repository class
                if isinstance(v, Member) and c in v.cls.mro():
                    return True
            elif isinstance(c, TypeRef):
                nm = c.short
                if nm == "dict" and isinstance(v, dict):
                    return True
                if nm == "int" and isinstance(v, (int, Member)):
                    return True
                if nm in ("list", "tuple", "str", "bytes", "set", "float", "bool", "bytearray", "frozenset"):
                    import builtins

                    if isinstance(v, getattr(builtins, nm)):
                        return True
                if isinstance(v, Obj) and (v.cls == c or v.cls_name == nm):
                    return True
                if isinstance(v, Obj) and isinstance(v.cls, TypeRef) and v.cls.name.startswith("exc.") and self.hier.is_sub(v.cls_name, nm):
                    return True  # an exception in flight handed to __exit__ / bound by `except ... as`
                if isinstance(v, Obj) and isinstance(v.cls, ClassRef) and nm in v.cls.base_names():
                    return True
        return False


import re as _re

_INT_T = _re.compile(r"^(u?)int(\d+)(_t|s)$")


class ZInt(int):
    """A zigpy fixed-width integer (trusted base: little-endian codec of the declared width)."""

    def __new__(cls, value, bits, signed):
        o = int.__new__(cls, value)
        o.bits, o.signed = bits, signed
        return o

    def serialize(self):
        try:
            return int(self).to_bytes(self.bits // 8, "little", signed=self.signed)
        except OverflowError:
            raise ValueError("out of range")


class ZBytes(bytes):
    """A zigpy length-prefixed byte string (trusted base): the payload, the width of its length prefix and the names of its class
    and base classes (bellows' LVBytes32 is a subclass of LVBytes with a four-byte prefix)."""

    def __new__(cls, value, prefix, type_names):
        o = bytes.__new__(cls, value)
        o.prefix, o.type_names = prefix, tuple(type_names)
        return o

    def serialize(self):
        return len(self).to_bytes(self.prefix, "little") + bytes(self)


def int_type_of(t):
    """(bits, signed) if ``t`` (TypeRef or ClassRef) is a zigpy fixed-width integer type, else None."""
    names = []
    if isinstance(t, TypeRef) and not t.args:
        names = [t.short]
    elif isinstance(t, ClassRef) and not t.is_enum:
        names = t.base_names()
    for n in names:
        m = _INT_T.match(n)
        if m:
            return int(m.group(2)), (m.group(1) == "" and m.group(3) == "s") or (m.group(1) == "" and m.group(3) == "_t" and False)
    return None


class _ExitStack:
    """contextlib.ExitStack / AsyncExitStack: the contexts entered and the callbacks registered so far."""

    def __init__(self, is_async):
        self.is_async = is_async
        self.items = []

    def __repr__(self):
        return f"<ExitStack {len(self.items)}>"


class _DCReplace:
    def __init__(self, obj):
        self.obj = obj


class _OpCallable:
    """operator.methodcaller / attrgetter / itemgetter objects."""

    def __init__(self, kind, args, kw):
        self.kind, self.args, self.kw = kind, tuple(args), dict(kw)


class _PyMethod:
    def __init__(self, obj, name):
        self.obj, self.name = obj, name

    def __repr__(self):
        return f"<pymethod {self.name}>"


class _DictItems:
    def __init__(self, d, kind):
        self.d, self.kind = d, kind

    def materialise(self):
        return list(getattr(self.d, self.kind)())

    def __iter__(self):
        return iter(self.materialise())


class _Cycle:
    def __init__(self, items):
        self.items = list(items)

    def take(self, n):
        if not self.items:
            return []
        return [self.items[i % len(self.items)] for i in range(n)]


def _drain(it, limit=100000):
    out = []
    for x in it.it:
        out.append(x)
        if len(out) > limit:
            raise Unsupported("unbounded iterator drained")
    return out


class _Gen:
    def __init__(self, items):
        self.items = list(items)

    def __iter__(self):
        return iter(self.items)


def _patch_iter():
    orig = PX._concrete_iter

    def _ci(self, v, fr, node):
        if isinstance(v, Iter):
            return _drain(v)
        if isinstance(v, _Gen):
            return list(v.items)
        if isinstance(v, _DictItems):
            return v.materialise()
        return orig(self, v, fr, node)

    PX._concrete_iter = _ci
    orig_iv = PX.iter_values

    def _iv(self, it, target, fr, node):
        if isinstance(it, Iter):
            return _drain(it)
        if isinstance(it, (_Gen, _DictItems)):
            return list(it)
        return orig_iv(self, it, target, fr, node)

    PX.iter_values = _iv


_patch_iter()


# ---------------------------------------------------------------------- helpers
def _text(node):
    t = getattr(node, "_bsa_text", None)
    if t is None:
        try:
            t = ast.unparse(node)
        except Exception:  # pragma: no cover
            t = "?"
        try:
            node._bsa_text = t
        except Exception:  # pragma: no cover
            pass
    return t


def _short(v):
    if isinstance(v, Sym):
        return v.tag
    if isinstance(v, Obj):
        return v.tag
    if isinstance(v, ClassRef):
        return v.name
    if isinstance(v, TypeRef):
        return v.short
    if isinstance(v, (dict,)):
        return _dict_tag(v)
    r = repr(v)
    return r if len(r) < 80 else r[:77] + "..."


def _dict_tag(d):
    return "{" + ",".join(_short(k) for k in list(d)[:6]) + "}"


def _hashable(k):
    if isinstance(k, list):
        return tuple(_hashable(x) for x in k)
    if isinstance(k, tuple):
        return tuple(_hashable(x) for x in k)
    return k


def _has_sym(v, depth=0):
    if depth > 4:
        return False
    if isinstance(v, Sym):
        return True
    if isinstance(v, (tuple, list, set, frozenset)):
        return any(_has_sym(x, depth + 1) for x in v)
    return False


def _shallow_diff(l, r):
    """True when two values are certainly different although one involves a symbol."""
    if isinstance(l, (tuple, list)) and isinstance(r, (tuple, list)):
        if len(l) != len(r):
            return True
        return any(_shallow_diff(a, b) for a, b in zip(l, r))
    if isinstance(l, Sym) or isinstance(r, Sym):
        return False
    if _has_sym(l) or _has_sym(r):
        return type(l) is not type(r) and not (isinstance(l, (tuple, list)) and isinstance(r, (tuple, list)))
    try:
        return l != r
    except Exception:
        return True


def _shape(target, tag):
    if isinstance(target, (ast.Tuple, ast.List)):
        return tuple(_shape(t, f"{tag}.{i}") for i, t in enumerate(target.elts))
    return Sym(tag)


def _as_load(t):
    import copy

    cached = getattr(t, "_bsa_load", None)
    if cached is not None:
        return cached
    t2 = copy.deepcopy(t)
    try:
        t._bsa_load = t2
    except Exception:  # pragma: no cover
        pass
    for n in ast.walk(t2):
        if hasattr(n, "ctx"):
            n.ctx = ast.Load()
    return t2


def _decos(f):
    return f.decorators if isinstance(f, FuncRef) else []


def _is_static(f):
    return any(d.endswith("staticmethod") for d in _decos(f))


def _is_classmethod(f):
    return any(d.endswith("classmethod") for d in _decos(f))


def _is_property(f):
    return any(d.endswith("property") for d in _decos(f))


def _is_generator(fnode):
    if isinstance(fnode, ast.Lambda):
        return False
    r = getattr(fnode, "_bsa_is_gen", None)
    if r is None:
        r = fnode._bsa_is_gen = _is_generator_uncached(fnode)
    return r


def _is_generator_uncached(fnode):
    stack = list(fnode.body)
    while stack:
        n = stack.pop()
        if isinstance(n, (ast.Yield, ast.YieldFrom)):
            return True
        if isinstance(n, (ast.FunctionDef, ast.AsyncFunctionDef, ast.ClassDef, ast.Lambda)):
            continue
        stack.extend(ast.iter_child_nodes(n))
    return False


def _is_namedtuple(cls):
    try:
        return isinstance(cls, ClassRef) and "NamedTuple" in cls.base_names()[1:]
    except Exception:
        return False


def _is_dataclass(cls):
    try:
        return any("dataclass" in ast.unparse(d) for d in cls.node.decorator_list)
    except Exception:
        return False
