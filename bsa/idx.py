"""IDX — access / call index over every function of the package (name-based, conservative)."""
from __future__ import annotations

import ast

from .te import FuncRef, Repo

MUTATORS = {"append", "extend", "add", "pop", "remove", "clear", "update", "setdefault", "discard", "insert",
            "popitem", "__setitem__", "__delitem__", "sort", "reverse"}


class Index:
    def __init__(self, repo: Repo):
        self.repo = repo
        self.funcs = repo.all_functions()
        self._writes = None
        self._calls = None

    def _scan(self):
        self._writes, self._calls = {}, {}
        for f in self.funcs:
            for n in ast.walk(f.node):
                if isinstance(n, ast.Attribute) and isinstance(n.ctx, (ast.Store, ast.Del)):
                    self._writes.setdefault(n.attr, []).append((f, n, "store"))
                elif isinstance(n, ast.Subscript) and isinstance(n.ctx, (ast.Store, ast.Del)) and isinstance(n.value, ast.Attribute):
                    self._writes.setdefault(n.value.attr, []).append((f, n, "item"))
                elif isinstance(n, ast.Subscript) and isinstance(n.ctx, (ast.Store, ast.Del)) and isinstance(n.value, ast.Name):
                    self._writes.setdefault(n.value.id, []).append((f, n, "item"))
                elif isinstance(n, ast.Call):
                    fn = n.func
                    if isinstance(fn, ast.Attribute):
                        self._calls.setdefault(fn.attr, []).append((f, n))
                        if fn.attr in MUTATORS and isinstance(fn.value, ast.Attribute):
                            self._writes.setdefault(fn.value.attr, []).append((f, n, "mutate:" + fn.attr))
                        if fn.attr in MUTATORS and isinstance(fn.value, ast.Name):
                            self._writes.setdefault(fn.value.id, []).append((f, n, "mutate:" + fn.attr))
                    elif isinstance(fn, ast.Name):
                        self._calls.setdefault(fn.id, []).append((f, n))
        # module-level statements (outside any function)
        for rel in self.repo.files():
            mod = self.repo.modname(rel)
            tree = self.repo.tree(mod)
            for st in tree.body:
                if isinstance(st, (ast.FunctionDef, ast.AsyncFunctionDef, ast.ClassDef)):
                    continue
                for n in ast.walk(st):
                    if isinstance(n, ast.Call):
                        fn = n.func
                        nm = fn.attr if isinstance(fn, ast.Attribute) else (fn.id if isinstance(fn, ast.Name) else None)
                        if nm:
                            self._calls.setdefault(nm, []).append((_ModLevel(mod, rel), n))

    def writers(self, attr):
        """[(FuncRef, node, kind)] for every store / del / mutating call on ``<anything>.attr``."""
        if self._writes is None:
            self._scan()
        return list(self._writes.get(attr, []))

    def callers(self, name):
        """[(FuncRef, call node)] for every call ``<anything>.name(...)`` or ``name(...)``."""
        if self._calls is None:
            self._scan()
        return list(self._calls.get(name, []))

    def references(self, name):
        """Every Attribute/Name load of ``name`` (method values passed around, not only calls)."""
        out = []
        for f in self.funcs:
            for n in ast.walk(f.node):
                if isinstance(n, ast.Attribute) and n.attr == name and isinstance(n.ctx, ast.Load):
                    out.append((f, n))
                elif isinstance(n, ast.Name) and n.id == name and isinstance(n.ctx, ast.Load):
                    out.append((f, n))
        return out


class _ModLevel:
    def __init__(self, mod, rel):
        self.mod, self.file, self.cls, self.name = mod, rel, None, "<module>"
        self.qual = f"{mod}:<module>"
        self.short = "<module>"


def index(repo) -> Index:
    if not hasattr(repo, "_index"):
        repo._index = Index(repo)
    return repo._index
