"""SRC + TE: source loader / index and the table evaluator.

Everything here works on ``ast`` trees of the files under ``<repo>/bellows``; no
module of the repository is imported.  The table evaluator is a partial
evaluator for *declarative module-level code* (command tables, enum bodies,
config defaults, voluptuous schemas).  Anything it cannot evaluate is bound to
``Unknown`` lazily and only becomes an ``AnalysisError`` when a rule needs it.
"""
from __future__ import annotations

import ast
import os

from .errors import AnalysisError

PY_VERSION = (3, 12, 1)  # the repository's own interpreter (/venv/bin/python)


# --------------------------------------------------------------------------- values
class Unknown:
    def __init__(self, why=""):
        self.why = why

    def __repr__(self):
        return f"<unknown {self.why}>"


class ModuleRef:
    def __init__(self, name):
        self.name = name

    def __repr__(self):
        return f"<mod {self.name}>"

    def __eq__(self, o):
        return isinstance(o, ModuleRef) and o.name == self.name

    def __hash__(self):
        return hash(("mod", self.name))


class TypeRef:
    """Something defined outside the repository (zigpy, asyncio, voluptuous ...)."""

    def __init__(self, name, args=()):
        self.name = name
        self.args = tuple(args)

    def __repr__(self):
        return self.name + (f"[{', '.join(map(repr, self.args))}]" if self.args else "")

    def __eq__(self, o):
        return isinstance(o, TypeRef) and (self.name, self.args) == (o.name, o.args)

    def __hash__(self):
        return hash(("type", self.name, self.args))

    @property
    def short(self):
        return self.name.rsplit(".", 1)[-1]


class Member:
    """Enum member.  Int-valued members compare/hash like IntEnum members do."""

    __slots__ = ("cls", "name", "value")

    def __init__(self, cls, name, value):
        self.cls, self.name, self.value = cls, name, value

    @property
    def intlike(self):
        return isinstance(self.value, int)

    def __repr__(self):
        return f"{self.cls.name}.{self.name}"

    def __eq__(self, o):
        if isinstance(o, Member):
            if self.intlike and o.intlike:
                return self.value == o.value
            return self.cls == o.cls and self.name == o.name
        if self.intlike and isinstance(o, int):
            return self.value == o
        return NotImplemented

    def __ne__(self, o):
        r = self.__eq__(o)
        return r if r is NotImplemented else not r

    def __hash__(self):
        return hash(self.value) if self.intlike else hash((self.cls, self.name))

    def __index__(self):
        if self.intlike:
            return self.value
        raise TypeError("not int-like")

    def __int__(self):
        return self.__index__()

    def __lt__(self, o):
        return int(self) < int(o)

    def __le__(self, o):
        return int(self) <= int(o)

    def __gt__(self, o):
        return int(self) > int(o)

    def __ge__(self, o):
        return int(self) >= int(o)


_LIB_FUNCS = {"operator.or_", "operator.and_", "operator.xor", "operator.add", "operator.sub", "operator.mul", "operator.lshift", "operator.rshift",
              "operator.mod", "operator.floordiv", "operator.getitem", "operator.not_", "functools.reduce", "itertools.chain", "itertools.chain.from_iterable",
              "itertools.filterfalse", "itertools.starmap", "itertools.repeat", "builtins.filter", "builtins.map"}


class Record:
    """Symbolic result of calling a constructor / opaque function at module level."""

    def __init__(self, ctor, args, kwargs):
        self.ctor, self.args, self.kwargs = ctor, tuple(args), dict(kwargs)

    @property
    def ctor_name(self):
        c = self.ctor
        if isinstance(c, ClassRef):
            return c.name
        if isinstance(c, TypeRef):
            return c.short
        if isinstance(c, FuncRef):
            return c.name
        return repr(c)

    def get(self, name, pos=None, default=None):
        if name in self.kwargs:
            return self.kwargs[name]
        if pos is not None and pos < len(self.args):
            return self.args[pos]
        return default

    def _key(self):
        # vol.Optional / vol.Required markers hash and compare by their schema name
        if self.ctor_name in ("Optional", "Required") and self.args:
            return ("marker", self.args[0])
        return ("rec", id(self))

    def __eq__(self, o):
        if isinstance(o, Record):
            return self._key() == o._key()
        if self.ctor_name in ("Optional", "Required") and self.args:
            return self.args[0] == o
        return NotImplemented

    def __hash__(self):
        if self.ctor_name in ("Optional", "Required") and self.args:
            return hash(self.args[0])
        return id(self)

    def __repr__(self):
        a = ", ".join(map(repr, self.args))
        k = ", ".join(f"{n}={v!r}" for n, v in self.kwargs.items())
        return f"{self.ctor_name}({', '.join(x for x in (a, k) if x)})"


class FuncRef:
    def __init__(self, repo, mod, cls, node):
        self.repo, self.mod, self.cls, self.node = repo, mod, cls, node
        self.name = node.name

    @property
    def qual(self):
        return f"{self.mod}:{self.cls.name + '.' if self.cls else ''}{self.name}"

    @property
    def short(self):
        return f"{self.cls.name + '.' if self.cls else ''}{self.name}"

    @property
    def is_async(self):
        return isinstance(self.node, ast.AsyncFunctionDef)

    @property
    def decorators(self):
        out = []
        for d in self.node.decorator_list:
            try:
                out.append(ast.unparse(d))
            except Exception:  # pragma: no cover
                out.append("?")
        return out

    @property
    def file(self):
        return self.repo.relpath(self.mod)

    def __repr__(self):
        return f"<func {self.qual}>"

    def __eq__(self, o):
        return isinstance(o, FuncRef) and o.node is self.node

    def __hash__(self):
        return id(self.node)


class ClassRef:
    def __init__(self, repo, mod, node):
        self.repo, self.mod, self.node = repo, mod, node
        self.name = node.name
        self._attrs = None
        self._bases = None
        self.fields = None  # ordered annotated fields: [(name, type, default_record)]

    def __repr__(self):
        return f"<class {self.mod}.{self.name}>"

    def __eq__(self, o):
        return isinstance(o, ClassRef) and (self.mod, self.name) == (o.mod, o.name)

    def __hash__(self):
        return hash(("class", self.mod, self.name))

    @property
    def qual(self):
        return f"{self.mod}:{self.name}"

    @property
    def bases(self):
        if self._bases is None:
            env = self.repo.module(self.mod)
            out = []
            for b in self.node.bases:
                try:
                    out.append(self.repo.te.ev(b, env, self.mod))
                except AnalysisError as ex:
                    out.append(Unknown(str(ex)))
            self._bases = out
        return self._bases

    def mro(self):
        out, seen = [], set()

        def visit(c):
            if isinstance(c, ClassRef):
                if c in seen:
                    return
                seen.add(c)
                out.append(c)
                for b in c.bases:
                    visit(b)
            else:
                out.append(c)

        visit(self)
        return out

    def base_names(self):
        names = []
        for c in self.mro():
            if isinstance(c, ClassRef):
                names.append(c.name)
            elif isinstance(c, TypeRef):
                names.append(c.short)
        return names

    @property
    def is_enum(self):
        import re

        for n in self.base_names()[1:]:
            if re.fullmatch(r"(enum\d*|bitmap\d*|IntEnum|Enum|IntFlag|Flag)", n):
                return True
        return False

    @property
    def is_struct(self):
        return any(n in ("Struct", "EzspStruct") for n in self.base_names()[1:])

    @property
    def attrs(self):
        """Own class-body attributes (not inherited), evaluated lazily."""
        if self._attrs is None:
            self._attrs = {}
            self.fields = []
            self.repo.te.exec_class_body(self)
        return self._attrs

    def lookup(self, attr):
        for c in self.mro():
            if isinstance(c, ClassRef) and attr in c.attrs:
                return c.attrs[attr]
        raise KeyError(attr)

    def lookup_owner(self, attr):
        for c in self.mro():
            if isinstance(c, ClassRef) and attr in c.attrs:
                return c, c.attrs[attr]
        raise KeyError(attr)

    def has(self, attr):
        try:
            self.lookup(attr)
            return True
        except KeyError:
            return False

    def method(self, name):
        v = self.lookup(name)
        if isinstance(v, FuncRef):
            return v
        raise KeyError(name)

    def members(self):
        """Ordered {name: Member} of an enum class, own body then bases."""
        cached = self.__dict__.get("_members_cache")
        if cached is not None:
            return dict(cached)
        out = {}
        for c in reversed([c for c in self.mro() if isinstance(c, ClassRef)]):
            for n, v in c.attrs.items():
                if n.startswith("_") or isinstance(v, (FuncRef, Unknown)):
                    continue
                if isinstance(v, (int, str)) and not isinstance(v, bool):
                    out[n] = Member(self, n, v)
        self.__dict__["_members_cache"] = dict(out)
        return out

    def canonical_members(self):
        """Members without aliases (first name per value), as iteration yields."""
        seen, out = set(), []
        for m in self.members().values():
            if m.value in seen:
                continue
            seen.add(m.value)
            out.append(m)
        return out

    def struct_fields(self):
        out = []
        for c in reversed([c for c in self.mro() if isinstance(c, ClassRef)]):
            c.attrs  # force
            out.extend(c.fields)
        return out


class _Continue(Exception):
    pass


class _TEReturn(Exception):
    def __init__(self, value):
        self.value = value


BUILTINS = {
    "isinstance", "dict", "list", "tuple", "frozenset", "set", "len", "range", "sorted",
    "type", "max", "min", "zip", "int", "bytes", "str", "bool", "enumerate", "classmethod",
    "staticmethod", "property", "bytearray", "float", "object", "Exception", "BaseException",
    "RuntimeError", "ValueError", "KeyError", "TypeError", "NotImplementedError",
    "AttributeError", "AssertionError", "StopIteration", "super", "getattr", "hash", "callable",
    "repr", "abs", "any", "all", "iter", "next", "print", "hasattr", "id", "sum", "reversed",
    "ConnectionResetError", "TimeoutError", "UnicodeDecodeError", "LookupError", "IndexError",
}


# --------------------------------------------------------------------------- repo
class Repo:
    """Source loader, index and table evaluator over one working tree (+ overlay)."""

    PKG = "bellows"

    def __init__(self, root="/repo", overlay=None):
        self.root = root
        self.overlay = dict(overlay or {})
        self._src = {}
        self._trees = {}
        self.mods = {}
        self.te = TE(self)
        self._files = None

    # ---- files
    def files(self):
        if self._files is None:
            out = []
            base = os.path.join(self.root, self.PKG)
            for dp, dn, fn in os.walk(base):
                dn[:] = sorted(d for d in dn if d != "__pycache__")
                for f in sorted(fn):
                    if f.endswith(".py"):
                        out.append(os.path.relpath(os.path.join(dp, f), self.root))
            for p in self.overlay:
                if p not in out:
                    out.append(p)
            self._files = sorted(out)
        return self._files

    def source(self, rel):
        if rel not in self._src:
            if rel in self.overlay:
                self._src[rel] = self.overlay[rel]
            else:
                p = os.path.join(self.root, rel)
                if not os.path.exists(p):
                    raise AnalysisError(f"anchor vanished: file {rel} does not exist")
                with open(p, encoding="utf-8") as f:
                    self._src[rel] = f.read()
        return self._src[rel]

    def relpath(self, mod):
        parts = mod.split(".")
        d = os.path.join(*parts)
        if self._exists(os.path.join(d, "__init__.py")):
            return os.path.join(d, "__init__.py")
        return d + ".py"

    def _exists(self, rel):
        return rel in self.overlay or os.path.exists(os.path.join(self.root, rel))

    def is_module(self, mod):
        if not mod.startswith(self.PKG):
            return False
        parts = mod.split(".")
        d = os.path.join(*parts)
        return self._exists(os.path.join(d, "__init__.py")) or self._exists(d + ".py")

    def is_package(self, mod):
        return self._exists(os.path.join(*mod.split("."), "__init__.py"))

    def modname(self, rel):
        p = rel[:-3].split(os.sep)
        if p[-1] == "__init__":
            p = p[:-1]
        return ".".join(p)

    def _load_all(self):
        """Parse the whole package once and recover renamed anchor names (see canon.py) before anything is analysed."""
        if getattr(self, "_loaded", False):
            return
        self._loaded = True
        self.renamed = []
        for rel in self.files():
            mod = self.modname(rel)
            if mod in self._trees:
                continue
            try:
                self._trees[mod] = ast.parse(self.source(rel), filename=rel)
            except SyntaxError as ex:
                raise AnalysisError(f"{rel} does not parse: {ex}")
        if not os.environ.get("BSA_NO_CANON"):
            from .canon import recover

            self.renamed = recover({m: t for m, t in self._trees.items() if not m.startswith(self.PKG + ".cli")})

    def tree(self, mod):
        self._load_all()
        if mod not in self._trees:
            rel = self.relpath(mod)
            try:
                self._trees[mod] = ast.parse(self.source(rel), filename=rel)
            except SyntaxError as ex:
                raise AnalysisError(f"{rel} does not parse: {ex}")
        return self._trees[mod]

    # ---- evaluated modules
    def module(self, mod):
        if mod in self.mods:
            return self.mods[mod]
        if not self.is_module(mod):
            self.mods[mod] = None
            return None
        env = {"__name__": mod}
        self.mods[mod] = env
        self.te.exec_block(self.tree(mod).body, env, mod)
        return env

    def get(self, mod, name):
        env = self.module(mod)
        if env is None:
            raise AnalysisError(f"anchor vanished: module {mod}")
        if name not in env:
            raise AnalysisError(f"anchor vanished: {mod}.{name}")
        v = env[name]
        if isinstance(v, Unknown):
            raise AnalysisError(f"cannot evaluate {mod}.{name}: {v.why}")
        return v

    def cls(self, mod, name) -> ClassRef:
        v = self.get(mod, name)
        if not isinstance(v, ClassRef):
            raise AnalysisError(f"anchor vanished: {mod}.{name} is not a class")
        return v

    def func(self, qual) -> FuncRef:
        """'bellows.ash:AshProtocol.data_received' or 'bellows.ash:parse_frame'."""
        mod, _, path = qual.partition(":")
        parts = path.split(".")
        if len(parts) == 1:
            v = self.get(mod, parts[0])
        else:
            c = self.cls(mod, parts[0])
            try:
                v = c.lookup(parts[1])
            except KeyError:
                raise AnalysisError(f"anchor vanished: {qual}")
        if not isinstance(v, FuncRef):
            raise AnalysisError(f"anchor vanished: {qual} is not a function ({v!r})")
        return v

    def all_functions(self):
        """Every (FuncRef) of every module incl. nested class methods (not nested defs)."""
        out = []
        for rel in self.files():
            mod = self.modname(rel)
            env = self.module(mod)
            if env is None:
                continue
            for n in self.tree(mod).body:
                if isinstance(n, (ast.FunctionDef, ast.AsyncFunctionDef)):
                    out.append(FuncRef(self, mod, None, n))
                elif isinstance(n, ast.ClassDef):
                    c = env.get(n.name)
                    if not isinstance(c, ClassRef) or c.node is not n:
                        c = ClassRef(self, mod, n)
                    for m in n.body:
                        if isinstance(m, (ast.FunctionDef, ast.AsyncFunctionDef)):
                            out.append(FuncRef(self, mod, c, m))
        return out


class TE:
    def __init__(self, repo: Repo):
        self.repo = repo

    # ---- helpers
    def resolve_rel(self, cur, level, module):
        if level == 0:
            return module
        parts = cur.split(".")
        base = parts if self.repo.is_package(cur) else parts[:-1]
        base = base[: len(base) - (level - 1)]
        return ".".join(base + ([module] if module else []))

    # ---- statements
    def exec_block(self, body, env, mod):
        for st in body:
            self.exec_stmt(st, env, mod)

    def exec_stmt(self, st, env, mod):
        repo = self.repo
        if isinstance(st, ast.Import):
            for a in st.names:
                if a.asname:
                    env[a.asname] = ModuleRef(a.name)
                else:
                    env[a.name.split(".")[0]] = ModuleRef(a.name.split(".")[0])
        elif isinstance(st, ast.ImportFrom):
            src = self.resolve_rel(mod, st.level, st.module)
            for a in st.names:
                nm = a.asname or a.name
                if a.name == "*":
                    m = repo.module(src)
                    if m:
                        env.update({k: v for k, v in m.items() if not k.startswith("_")})
                    continue
                sub = src + "." + a.name
                if repo.is_module(sub):
                    env[nm] = ModuleRef(sub)
                    continue
                m = repo.module(src)
                if m is not None:
                    if a.name in m:
                        env[nm] = m[a.name]
                    else:
                        env[nm] = Unknown(f"{src} has no {a.name}")
                else:
                    env[nm] = TypeRef(f"{src}.{a.name}")
        elif isinstance(st, ast.ClassDef):
            env[st.name] = ClassRef(repo, mod, st)
        elif isinstance(st, (ast.FunctionDef, ast.AsyncFunctionDef)):
            env[st.name] = FuncRef(repo, mod, None, st)
        elif isinstance(st, ast.Assign):
            try:
                v = self.ev(st.value, env, mod)
            except AnalysisError as ex:
                v = Unknown(str(ex))
            for t in st.targets:
                try:
                    self.assign(t, v, env, mod)
                except AnalysisError:
                    pass
        elif isinstance(st, ast.AnnAssign):
            if st.value is not None:
                try:
                    v = self.ev(st.value, env, mod)
                except AnalysisError as ex:
                    v = Unknown(str(ex))
                try:
                    self.assign(st.target, v, env, mod)
                except AnalysisError:
                    pass
        elif isinstance(st, ast.AugAssign):
            try:
                cur = self.ev(_as_load(st.target), env, mod)
                v = self.binop(st.op, cur, self.ev(st.value, env, mod), mod, st)
            except AnalysisError as ex:
                v = Unknown(str(ex))
            try:
                self.assign(st.target, v, env, mod)
            except AnalysisError:
                pass
        elif isinstance(st, ast.Delete):
            for t in st.targets:
                if isinstance(t, ast.Subscript):
                    try:
                        d = self.ev(t.value, env, mod)
                        k = self.ev(t.slice, env, mod)
                        del d[k]
                    except (AnalysisError, KeyError, TypeError) as ex:
                        # a failing module-level `del` would be an import error in the
                        # real program; surface it where the table is used
                        if isinstance(t.value, ast.Name):
                            env[t.value.id] = Unknown(f"{mod}:{st.lineno} del failed: {ex}")
                elif isinstance(t, ast.Name):
                    env.pop(t.id, None)
        elif isinstance(st, ast.For):
            try:
                it = list(self.iterate(self.ev(st.iter, env, mod)))
            except AnalysisError as ex:
                self._poison(st, env, f"{mod}:{st.lineno} loop not evaluable: {ex}")
                return
            for x in it:
                self.assign(st.target, x, env, mod)
                try:
                    self.exec_block(st.body, env, mod)
                except _Continue:
                    continue
        elif isinstance(st, ast.If):
            if _is_type_checking(st.test):
                return
            try:
                c = self.ev(st.test, env, mod)
                if isinstance(c, Unknown):
                    raise AnalysisError(c.why)
            except AnalysisError:
                self._poison(st, env, f"{mod}:{st.lineno} if-test not evaluable")
                return
            self.exec_block(st.body if c else st.orelse, env, mod)
        elif isinstance(st, ast.Return):
            raise _TEReturn(self.ev(st.value, env, mod) if st.value is not None else None)
        elif isinstance(st, ast.Continue):
            raise _Continue()
        elif isinstance(st, ast.Try):
            self.exec_block(st.body, env, mod)
        elif isinstance(st, ast.Expr):
            # a statement-level call of a mutating method on a module-level table (COMMANDS.update({...}), LIST.append(x))
            v = st.value
            if isinstance(v, ast.Call) and isinstance(v.func, ast.Attribute) and v.func.attr in (
                    "update", "append", "extend", "add", "pop", "setdefault", "remove", "discard", "clear", "insert", "popitem"):
                root = v.func.value
                while isinstance(root, (ast.Attribute, ast.Subscript)):
                    root = root.value
                try:
                    self.ev(v, env, mod)
                except AnalysisError as ex:
                    if isinstance(root, ast.Name):
                        env[root.id] = Unknown(f"{mod}:{st.lineno} {v.func.attr}() not evaluable: {ex}")
            elif isinstance(v, ast.Call) and isinstance(v.func, ast.Name) and isinstance(env.get(v.func.id) if hasattr(env, "get") else None, FuncRef):
                # a module-level helper called for its effect on the tables it is given (`_inherit_commands(COMMANDS, PREVIOUS)`)
                try:
                    self.ev(v, env, mod)
                except AnalysisError as ex:
                    for a_ in v.args:
                        if isinstance(a_, ast.Name):
                            env[a_.id] = Unknown(f"{mod}:{st.lineno} {v.func.id}() not evaluable: {ex}")
        elif isinstance(st, (ast.Pass, ast.Assert, ast.With)):
            pass
        else:
            pass

    def _poison(self, st, env, why):
        for n in ast.walk(st):
            if isinstance(n, ast.Name) and isinstance(n.ctx, ast.Store):
                env[n.id] = Unknown(why)
            elif isinstance(n, ast.Subscript) and isinstance(n.ctx, (ast.Store, ast.Del)):
                if isinstance(n.value, ast.Name):
                    env[n.value.id] = Unknown(why)

    def exec_class_body(self, cls: ClassRef):
        mod = cls.mod
        menv = self.repo.module(mod)
        env = _ChainEnv(cls._attrs, menv)
        for st in cls.node.body:
            if isinstance(st, (ast.FunctionDef, ast.AsyncFunctionDef)):
                cls._attrs[st.name] = FuncRef(self.repo, mod, cls, st)
            elif isinstance(st, ast.AnnAssign) and isinstance(st.target, ast.Name):
                try:
                    ty = self.ev(st.annotation, env, mod)
                except AnalysisError as ex:
                    ty = Unknown(str(ex))
                default = None
                if st.value is not None:
                    try:
                        default = self.ev(st.value, env, mod)
                    except AnalysisError as ex:
                        default = Unknown(str(ex))
                    cls._attrs[st.target.id] = default
                cls.fields.append((st.target.id, ty, default))
            elif isinstance(st, ast.ClassDef):
                cls._attrs[st.name] = ClassRef(self.repo, mod, st)
            else:
                self.exec_stmt(st, env, mod)

    def assign(self, t, v, env, mod):
        if isinstance(t, ast.Name):
            env[t.id] = v
        elif isinstance(t, (ast.Tuple, ast.List)):
            v = list(self.iterate(v))
            if len(v) != len(t.elts):
                raise AnalysisError(f"{mod}:{t.lineno} unpack arity")
            for a, b in zip(t.elts, v):
                self.assign(a, b, env, mod)
        elif isinstance(t, ast.Subscript):
            d = self.ev(t.value, env, mod)
            k = self.ev(t.slice, env, mod)
            if isinstance(d, (dict, list)):
                d[k] = v
            else:
                raise AnalysisError(f"{mod}:{t.lineno} subscript store on {d!r}")
        elif isinstance(t, ast.Attribute):
            pass
        else:
            raise AnalysisError(f"{mod}:{t.lineno} assign target {type(t).__name__}")

    def iterate(self, v):
        if isinstance(v, ClassRef):
            if v.is_enum:
                return v.canonical_members()
            raise AnalysisError(f"iterate non-enum class {v!r}")
        if isinstance(v, (list, tuple, dict, set, frozenset, range, str, bytes)):
            return list(v)
        if isinstance(v, _DictView):
            return v.materialise()
        if isinstance(v, Record) and isinstance(v.ctor, ClassRef) and any(getattr(b, "short", getattr(b, "name", "")) == "NamedTuple" for b in v.ctor.mro()):
            # an instance of a typing.NamedTuple class: its fields in declaration order (positional then keyword arguments, defaults)
            fields = _namedtuple_fields(v.ctor)
            vals = list(v.args)
            for name, default in fields[len(vals):]:
                if name in v.kwargs:
                    vals.append(v.kwargs[name])
                elif default is not _NO_DEFAULT:
                    vals.append(self.ev(default, self.repo.module(v.ctor.mod), v.ctor.mod))
                else:
                    raise AnalysisError(f"NamedTuple {v.ctor.name}: field {name} not supplied")
            return vals
        raise AnalysisError(f"cannot iterate {v!r}")

    # ---- expressions
    def ev(self, e, env, mod):
        m = getattr(self, "e_" + type(e).__name__, None)
        if m is None:
            raise AnalysisError(f"{mod}:{getattr(e, 'lineno', '?')} unsupported expr {type(e).__name__}")
        return m(e, env, mod)

    def e_Constant(self, e, env, mod):
        return e.value

    def e_Name(self, e, env, mod):
        if e.id in env:
            return env[e.id]
        if e.id in BUILTINS:
            return TypeRef("builtins." + e.id)
        if e.id == "__name__":
            return mod
        if e.id == "__path__" and self.repo.is_package(mod):
            return Record(TypeRef("builtins.__path__"), (mod,), {})
        raise AnalysisError(f"{mod}:{e.lineno} unbound name {e.id}")

    def e_Attribute(self, e, env, mod):
        b = self.ev(e.value, env, mod)
        return self.getattr(b, e.attr, mod, e)

    def e_Tuple(self, e, env, mod):
        return tuple(self.ev(x, env, mod) for x in e.elts)

    def e_List(self, e, env, mod):
        out = []
        for x in e.elts:
            if isinstance(x, ast.Starred):
                out.extend(self.iterate(self.ev(x.value, env, mod)))
            else:
                out.append(self.ev(x, env, mod))
        return out

    def e_Set(self, e, env, mod):
        return set(self.ev(x, env, mod) for x in e.elts)

    def e_Dict(self, e, env, mod):
        d = {}
        for k, v in zip(e.keys, e.values):
            if k is None:
                sp = self.ev(v, env, mod)
                if not isinstance(sp, dict):
                    raise AnalysisError(f"{mod}:{e.lineno} ** spread of {sp!r}")
                d.update(sp)
            else:
                d[self.ev(k, env, mod)] = self.ev(v, env, mod)
        return d

    def e_Subscript(self, e, env, mod):
        b = self.ev(e.value, env, mod)
        if isinstance(e.slice, ast.Slice):
            lo = self.ev(e.slice.lower, env, mod) if e.slice.lower else None
            hi = self.ev(e.slice.upper, env, mod) if e.slice.upper else None
            if isinstance(b, (list, tuple, str, bytes)):
                return b[lo:hi]
            raise AnalysisError(f"{mod}:{e.lineno} slice of {b!r}")
        s = self.ev(e.slice, env, mod)
        if isinstance(b, TypeRef):
            return TypeRef(b.name, s if isinstance(s, tuple) else (s,))
        if isinstance(b, ClassRef):
            if b.is_enum and isinstance(s, str):
                ms = b.members()
                if s in ms:
                    return ms[s]
                raise AnalysisError(f"{mod}:{e.lineno} {b.name}[{s!r}] no such member")
            return TypeRef(b.qual, s if isinstance(s, tuple) else (s,))
        if isinstance(b, (dict, list, tuple, str, bytes)):
            try:
                return b[s]
            except (KeyError, IndexError, TypeError):
                raise AnalysisError(f"{mod}:{e.lineno} subscript {s!r} not in table")
        raise AnalysisError(f"{mod}:{e.lineno} subscript on {b!r}")

    def binop(self, op, l, r, mod, e):
        if isinstance(l, Unknown) or isinstance(r, Unknown):
            raise AnalysisError(f"{mod}:{e.lineno} binop on unknown")
        if isinstance(op, ast.Add) and isinstance(l, (list, tuple, str, bytes)) and type(l) is type(r):
            return l + r
        if isinstance(l, Member) and isinstance(r, Member) and isinstance(op, (ast.BitOr, ast.BitAnd)):
            v = l.value | r.value if isinstance(op, ast.BitOr) else l.value & r.value
            return Member(l.cls, f"{l.name}{'|' if isinstance(op, ast.BitOr) else '&'}{r.name}", v)
        if isinstance(l, (int, float, Member)) and isinstance(r, (int, float, Member)):
            import operator as o

            f = {
                ast.Add: o.add, ast.Sub: o.sub, ast.Mult: o.mul, ast.Mod: o.mod,
                ast.LShift: o.lshift, ast.RShift: o.rshift, ast.BitAnd: o.and_,
                ast.BitOr: o.or_, ast.BitXor: o.xor, ast.Div: o.truediv,
                ast.FloorDiv: o.floordiv, ast.Pow: o.pow,
            }.get(type(op))
            if f is None:
                raise AnalysisError(f"{mod}:{e.lineno} binop {type(op).__name__}")
            lv = l.value if isinstance(l, Member) else l
            rv = r.value if isinstance(r, Member) else r
            return f(lv, rv)
        if isinstance(op, ast.BitOr) and isinstance(l, dict) and isinstance(r, dict):
            return {**l, **r}
        if isinstance(l, (set, frozenset)) and isinstance(r, (set, frozenset)) and isinstance(op, (ast.BitOr, ast.BitAnd, ast.Sub, ast.BitXor)):
            return {ast.BitOr: lambda a, b: a | b, ast.BitAnd: lambda a, b: a & b, ast.Sub: lambda a, b: a - b, ast.BitXor: lambda a, b: a ^ b}[type(op)](l, r)
        if isinstance(op, ast.Mult) and isinstance(l, (list, tuple, str, bytes)) and isinstance(r, int):
            return l * r
        if isinstance(op, ast.BitOr) and isinstance(l, (TypeRef, ClassRef)):
            return TypeRef("typing.Union", (l, r))
        raise AnalysisError(f"{mod}:{e.lineno} binop {type(op).__name__} on {l!r},{r!r}")

    def e_BinOp(self, e, env, mod):
        return self.binop(e.op, self.ev(e.left, env, mod), self.ev(e.right, env, mod), mod, e)

    def e_UnaryOp(self, e, env, mod):
        v = self.ev(e.operand, env, mod)
        if isinstance(e.op, ast.Not):
            return not v
        if isinstance(v, (int, float)):
            if isinstance(e.op, ast.USub):
                return -v
            if isinstance(e.op, ast.Invert):
                return ~v
            if isinstance(e.op, ast.UAdd):
                return +v
        raise AnalysisError(f"{mod}:{e.lineno} unary")

    def e_BoolOp(self, e, env, mod):
        if isinstance(e.op, ast.And):
            v = True
            for x in e.values:
                v = self.ev(x, env, mod)
                if not v:
                    return v
            return v
        v = False
        for x in e.values:
            v = self.ev(x, env, mod)
            if v:
                return v
        return v

    def e_IfExp(self, e, env, mod):
        return self.ev(e.body if self.ev(e.test, env, mod) else e.orelse, env, mod)

    def e_Compare(self, e, env, mod):
        import operator as o

        l = self.ev(e.left, env, mod)
        for op, c in zip(e.ops, e.comparators):
            r = self.ev(c, env, mod)
            if isinstance(l, Unknown) or isinstance(r, Unknown):
                raise AnalysisError(f"{mod}:{e.lineno} compare on unknown")
            try:
                if isinstance(op, ast.In):
                    v = l in r
                elif isinstance(op, ast.NotIn):
                    v = l not in r
                elif isinstance(op, ast.Is):
                    v = l is r or (isinstance(l, Member) and isinstance(r, Member) and l.cls == r.cls and l.value == r.value)
                elif isinstance(op, ast.IsNot):
                    v = not (l is r or (isinstance(l, Member) and isinstance(r, Member) and l.cls == r.cls and l.value == r.value))
                else:
                    v = {ast.Eq: o.eq, ast.NotEq: o.ne, ast.Lt: o.lt, ast.LtE: o.le, ast.Gt: o.gt, ast.GtE: o.ge}[type(op)](l, r)
            except TypeError:
                raise AnalysisError(f"{mod}:{e.lineno} compare {l!r} {type(op).__name__} {r!r}")
            if not v:
                return False
            l = r
        return True

    def _comp(self, gens, env, mod, emit):
        def rec(i, loc):
            if i == len(gens):
                emit(loc)
                return
            g = gens[i]
            for x in list(self.iterate(self.ev(g.iter, loc, mod))):
                l2 = _ChainEnv({}, loc)
                self.assign(g.target, x, l2, mod)
                if all(self.ev(c, l2, mod) for c in g.ifs):
                    rec(i + 1, l2)

        rec(0, env)

    def e_DictComp(self, e, env, mod):
        out = {}
        self._comp(e.generators, env, mod, lambda loc: out.__setitem__(self.ev(e.key, loc, mod), self.ev(e.value, loc, mod)))
        return out

    def e_ListComp(self, e, env, mod):
        out = []
        self._comp(e.generators, env, mod, lambda loc: out.append(self.ev(e.elt, loc, mod)))
        return out

    def e_SetComp(self, e, env, mod):
        out = set()
        self._comp(e.generators, env, mod, lambda loc: out.add(self.ev(e.elt, loc, mod)))
        return out

    def e_GeneratorExp(self, e, env, mod):
        return self.e_ListComp(e, env, mod)

    def e_Lambda(self, e, env, mod):
        return Record(TypeRef("builtins.lambda"), (), {"node": e, "env": env, "mod": mod})

    def call_lambda(self, lam, args, kw):
        node, env, mod = lam.kwargs["node"], lam.kwargs.get("env"), lam.kwargs.get("mod")
        if env is None:
            raise AnalysisError("lambda without a captured environment")
        a = node.args
        names = [x.arg for x in a.posonlyargs + a.args]
        if a.vararg or a.kwarg or len(args) > len(names):
            raise AnalysisError(f"{mod}:{node.lineno} lambda signature not modelled")
        loc = {}
        for n, d in zip(names[len(names) - len(a.defaults):], a.defaults):
            loc[n] = self.ev(d, env, mod)
        loc.update(zip(names, args))
        loc.update(kw)
        return self.ev(node.body, _ChainEnv(loc, env), mod)

    def e_JoinedStr(self, e, env, mod):
        parts = []
        for v in e.values:
            if isinstance(v, ast.Constant):
                parts.append(str(v.value))
            elif isinstance(v, ast.FormattedValue) and v.format_spec is None and v.conversion == -1:
                x = self.ev(v.value, env, mod)
                if isinstance(x, bool) or not isinstance(x, (str, int)):
                    raise AnalysisError(f"{mod}:{e.lineno} f-string over {x!r:.40}")
                parts.append(str(x))
            else:
                raise AnalysisError(f"{mod}:{e.lineno} f-string")
        return "".join(parts)

    def e_Call(self, e, env, mod):
        f = self.ev(e.func, env, mod)
        args = []
        for a in e.args:
            if isinstance(a, ast.Starred):
                args.extend(self.iterate(self.ev(a.value, env, mod)))
            else:
                args.append(self.ev(a, env, mod))
        kw = {}
        for k in e.keywords:
            if k.arg is None:
                sp = self.ev(k.value, env, mod)
                if not isinstance(sp, dict):
                    raise AnalysisError(f"{mod}:{e.lineno} ** in call")
                kw.update(sp)
            else:
                kw[k.arg] = self.ev(k.value, env, mod)
        return self.call(f, args, kw, mod, e)

    def getattr(self, b, attr, mod, e):
        repo = self.repo
        if isinstance(b, ModuleRef):
            if b.name == "sys" and attr == "version_info":
                return PY_VERSION
            m = repo.module(b.name)
            if m is None:
                return TypeRef(f"{b.name}.{attr}")
            if attr in m:
                return m[attr]
            sub = b.name + "." + attr
            if repo.is_module(sub):
                return ModuleRef(sub)
            raise AnalysisError(f"{mod}:{e.lineno} module {b.name} has no {attr}")
        if isinstance(b, dict):
            if attr in ("items", "keys", "values", "get", "pop", "copy", "update", "setdefault", "clear", "popitem"):
                return _Bound(b, attr)
        if isinstance(b, (list, set)):
            if attr in ("append", "extend", "add", "copy", "remove", "discard", "pop", "clear", "insert", "update", "index", "count"):
                return _Bound(b, attr)
        if isinstance(b, (str, bytes, tuple, frozenset, int, float)) and not isinstance(b, bool) and not attr.startswith("__") and hasattr(b, attr):
            return _Bound(b, attr)  # pure methods of immutable constants (join, format, upper, to_bytes, index, ...)
        if isinstance(b, ClassRef):
            if attr == "__members__":
                return b.members()
            if attr in ("__name__", "__qualname__"):
                return b.name
            try:
                v = b.lookup(attr)
            except KeyError:
                if attr in ("max_value", "min_value"):
                    # zigpy's fixed-width integers, enums and bitmaps (trusted base): the inclusive range of the declared width
                    import re as _re

                    for nm in b.base_names():
                        m_ = _re.fullmatch(r"(?:.*\.)?(u?)(?:int|enum|bitmap)(\d+)(?:_t)?", nm)
                        if m_:
                            bits = int(m_.group(2))
                            signed = nm.rsplit(".", 1)[-1].startswith("int")
                            lo, hi = (-(1 << (bits - 1)), (1 << (bits - 1)) - 1) if signed else (0, (1 << bits) - 1)
                            return hi if attr == "max_value" else lo
                if any(isinstance(c, (TypeRef, Unknown)) for c in b.mro()):
                    return TypeRef(f"{b.qual}.{attr}")
                raise AnalysisError(f"{mod}:{e.lineno} class {b.name} has no attribute {attr}")
            if b.is_enum and not attr.startswith("_") and isinstance(v, (int, str)) and not isinstance(v, bool):
                return Member(b, attr, v)
            return v
        if isinstance(b, TypeRef):
            return TypeRef(b.name + "." + attr)
        if isinstance(b, Member):
            if attr == "name":
                return b.name
            if attr == "value":
                return b.value
        if isinstance(b, FuncRef):
            if attr == "__func__":
                return b
            if attr == "__name__":
                return b.name
        if isinstance(b, Record):
            if attr in b.kwargs:
                return b.kwargs[attr]
            c = b.ctor
            if isinstance(c, ClassRef):
                names = [f[0] for f in c.struct_fields()] or _dataclass_fields(c)
                if attr in names and names.index(attr) < len(b.args):
                    return b.args[names.index(attr)]
                try:
                    d = c.lookup(attr)
                    if not isinstance(d, FuncRef):
                        return d
                except KeyError:
                    pass
        raise AnalysisError(f"{mod}:{e.lineno} getattr {attr} on {b!r}")

    def call(self, f, args, kw, mod, e):
        if isinstance(f, _Bound):
            return f(*args, **kw)
        if isinstance(f, TypeRef) and f.name in ("builtins.filter", "builtins.map") and not kw:
            return self.lib_call(f.name, args, mod, e)
        if isinstance(f, TypeRef) and f.name == "builtins.getattr" and len(args) in (2, 3) and isinstance(args[1], str) and not kw:
            try:
                return self.getattr(args[0], args[1], mod, e)
            except AnalysisError:
                if len(args) == 3:
                    return args[2]
                raise
        if isinstance(f, TypeRef) and f.name == "builtins.next" and 1 <= len(args) <= 2 and isinstance(args[0], (list, tuple)) and not kw:
            if args[0]:
                return args[0][0]  # (iterators are lists here: the first element of a fresh one)
            if len(args) == 2:
                return args[1]
            raise AnalysisError(f"{mod}:{e.lineno} next() of an empty iterator")
        if isinstance(f, TypeRef) and f.name.startswith("builtins."):
            n = f.short
            if n == "isinstance":
                return self._isinstance(args[0], args[1], mod, e)
            if n == "type":
                a = args[0]
                if isinstance(a, Member):
                    return a.cls
                if isinstance(a, Record):
                    return a.ctor
                raise AnalysisError(f"{mod}:{e.lineno} type() of {a!r}")
            if n in ("classmethod", "staticmethod", "property"):
                return args[0]
            if kw and n not in ("dict", "int", "max", "min", "sum", "str", "bytes") and not (n == "sorted" and set(kw) <= {"reverse"}) \
                    and not (n == "enumerate" and set(kw) <= {"start"}):
                # keyword arguments this evaluator does not model (sorted(key=...)): never evaluate to a wrong constant
                raise AnalysisError(f"{mod}:{e.lineno} {n}() with keyword arguments {sorted(kw)} is not evaluated at module level")
            if n in ("frozenset", "set", "list", "tuple", "sorted", "enumerate", "reversed"):
                it = list(self.iterate(args[0])) if args else []
                if n == "enumerate":
                    return list(enumerate(it, *args[1:], **kw))
                if n == "reversed":
                    return list(reversed(it))
                if n == "sorted":
                    return sorted(it, **kw)
                return {"frozenset": frozenset, "set": set, "list": list, "tuple": tuple}[n](it)
            if n == "zip":
                return list(zip(*[self.iterate(a) for a in args]))
            if n == "dict":
                d = dict(self.iterate(args[0])) if args and not isinstance(args[0], dict) else dict(*args)
                d.update(kw)
                return d
            if n in ("len", "range", "max", "min", "int", "bytes", "str", "bool", "abs", "float", "sum", "any", "all"):
                try:
                    return {"len": len, "range": range, "max": max, "min": min, "int": int, "bytes": bytes,
                            "str": str, "bool": bool, "abs": abs, "float": float, "sum": sum, "any": any, "all": all}[n](*args, **kw)
                except Exception as ex:
                    raise AnalysisError(f"{mod}:{e.lineno} {n}(): {ex}")
            if f.name in ("builtins.dict.fromkeys",):
                return dict.fromkeys(list(self.iterate(args[0])), *args[1:])
            if f.name in ("builtins.bytes.maketrans", "builtins.bytearray.maketrans", "builtins.str.maketrans"):
                try:
                    return (str if ".str." in f.name else bytes).maketrans(*[bytes(a) if isinstance(a, bytearray) else a for a in args])
                except Exception as ex:
                    raise AnalysisError(f"{mod}:{e.lineno} {f.name}(): {ex}")
            if f.name in ("builtins.int.from_bytes", "builtins.bytes.fromhex", "builtins.str.join", "builtins.bytes.join", "builtins.str.format",
                          "builtins.divmod", "builtins.round", "builtins.pow", "builtins.ord", "builtins.chr", "builtins.hex", "builtins.repr"):
                import builtins as _b

                try:
                    obj = _b
                    for part in f.name.split(".")[1:]:
                        obj = getattr(obj, part)
                    return obj(*args, **kw)
                except Exception as ex:
                    raise AnalysisError(f"{mod}:{e.lineno} {f.name}(): {ex}")
            raise AnalysisError(f"{mod}:{e.lineno} builtin {n} not modelled")
        if isinstance(f, TypeRef) and f.name == "pkgutil.iter_modules" and len(args) == 1 and isinstance(args[0], Record) \
                and args[0].ctor == TypeRef("builtins.__path__"):
            # the sub-modules of a package of the repository, in the order the file finder lists them (sorted by name)
            pkg = args[0].args[0]
            found = {}
            for rel in self.repo.files():
                m_ = self.repo.modname(rel)
                if m_.startswith(pkg + ".") and "." not in m_[len(pkg) + 1:]:
                    found[m_[len(pkg) + 1:]] = self.repo.is_package(m_)
            return [Record(TypeRef("pkgutil.ModuleInfo"), (), {"name": n_, "ispkg": found[n_]}) for n_ in sorted(found)]
        if isinstance(f, TypeRef) and f.name in ("re.fullmatch", "re.match", "re.search") and len(args) == 2 and all(isinstance(a, str) for a in args) and not kw:
            import re as _re

            return getattr(_re, f.name[3:])(*args)
        if isinstance(f, TypeRef) and f.name == "importlib.import_module" and len(args) == 1 and isinstance(args[0], str) and not kw:
            return ModuleRef(args[0]) if self.repo.is_module(args[0]) else TypeRef(args[0])
        if isinstance(f, TypeRef) and f.name in ("struct.Struct", "struct.calcsize") and all(isinstance(a, (str, bytes)) for a in args) and not kw:
            import struct as _struct  # trusted base, modelled by itself: a precompiled format is a constant of the module

            try:
                return getattr(_struct, f.name[7:])(*args)
            except _struct.error as ex:
                raise AnalysisError(f"{mod}:{e.lineno} {f.name}{args!r}: {ex}")
        if isinstance(f, FuncRef) and f.cls is None:
            return self.inline(f, args, kw, mod, e)
        if isinstance(f, Record) and f.ctor == TypeRef("builtins.lambda"):
            return self.call_lambda(f, args, kw)
        if isinstance(f, Record) and isinstance(f.ctor, TypeRef) and f.ctor.name == "functools.partial" and f.args:
            return self.call(f.args[0], list(f.args[1:]) + list(args), {**f.kwargs, **kw}, mod, e)  # a pre-bound constructor
        if isinstance(f, TypeRef) and f.name in _LIB_FUNCS and not kw:
            return self.lib_call(f.name, args, mod, e)
        if isinstance(f, ClassRef) and f.is_enum and len(args) == 1 and not kw and (isinstance(args[0], int) or isinstance(args[0], Member)):
            # EnumClass(value): the member with that value; zigpy's enums (trusted base) make up a member for an undefined value
            val = args[0].value if isinstance(args[0], Member) else int(args[0])
            for nm, mv in f.members().items():
                if mv.value == val:
                    return mv
            return Member(f, f"undefined_0x{val:02x}", val)
        if isinstance(f, (TypeRef, ClassRef)):
            return Record(f, args, kw)
        raise AnalysisError(f"{mod}:{e.lineno} call of {f!r}")

    def lib_call(self, name, args, mod, e):
        """A few pure standard-library functions that table-building code uses (functools.reduce, operator.*, itertools.*)."""
        ops = {"operator.or_": ast.BitOr, "operator.and_": ast.BitAnd, "operator.xor": ast.BitXor, "operator.add": ast.Add, "operator.sub": ast.Sub,
               "operator.mul": ast.Mult, "operator.lshift": ast.LShift, "operator.rshift": ast.RShift, "operator.mod": ast.Mod, "operator.floordiv": ast.FloorDiv}
        if name in ops:
            return self.binop(ops[name](), args[0], args[1], mod, e)
        if name == "operator.getitem":
            b, k = args
            try:
                return b[k]
            except Exception as ex:
                raise AnalysisError(f"{mod}:{e.lineno} operator.getitem: {ex!r}")
        if name == "operator.not_":
            return not args[0]
        if name == "functools.reduce":
            fn, seq = args[0], list(self.iterate(args[1]))
            if len(args) > 2:
                acc = args[2]
            elif seq:
                acc, seq = seq[0], seq[1:]
            else:
                raise AnalysisError(f"{mod}:{e.lineno} reduce() of an empty sequence")
            for x in seq:
                acc = self.call(fn, [acc, x], {}, mod, e)
            return acc
        if name == "itertools.chain":
            out = []
            for a in args:
                out.extend(self.iterate(a))
            return out
        if name == "itertools.chain.from_iterable":
            out = []
            for a in self.iterate(args[0]):
                out.extend(self.iterate(a))
            return out
        if name in ("itertools.filterfalse", "builtins.filter"):
            pred, seq = args[0], self.iterate(args[1])
            keep = []
            for x in seq:
                t_ = bool(x) if pred is None else bool(self.call(pred, [x], {}, mod, e))
                if t_ != (name == "itertools.filterfalse"):
                    keep.append(x)
            return keep
        if name == "builtins.map":
            return [self.call(args[0], list(xs), {}, mod, e) for xs in zip(*[self.iterate(a) for a in args[1:]])]
        if name == "itertools.starmap":
            return [self.call(args[0], list(self.iterate(xs)), {}, mod, e) for xs in self.iterate(args[1])]
        if name == "itertools.repeat" and len(args) == 2:
            return [args[0]] * args[1]
        raise AnalysisError(f"{mod}:{e.lineno} {name} not modelled")

    def _isinstance(self, v, cls, mod, e):
        classes = cls if isinstance(cls, tuple) else (cls,)
        for c in classes:
            if c == TypeRef("builtins.dict"):
                if isinstance(v, dict):
                    return True
            elif c == TypeRef("builtins.int"):
                if isinstance(v, (int, Member)):
                    return True
            elif isinstance(c, ClassRef):
                if isinstance(v, Record) and isinstance(v.ctor, ClassRef) and c in v.ctor.mro():
                    return True
                if isinstance(v, Member) and c in v.cls.mro():
                    return True
            elif isinstance(c, TypeRef):
                if isinstance(v, Record) and v.ctor == c:
                    return True
            else:
                raise AnalysisError(f"{mod}:{e.lineno} isinstance(…, {c!r})")
        return False

    def inline(self, f: FuncRef, args, kw, mod, e):
        """Inline a tiny pure helper: optional docstring + single return expression."""
        node = f.node
        loc = {}
        a = node.args
        names = [x.arg for x in a.posonlyargs + a.args]
        if len(args) > len(names):
            if a.vararg is None:
                raise AnalysisError(f"{mod}:{e.lineno} too many args for {f.name}")
            loc[a.vararg.arg] = tuple(args[len(names):])
            args = args[:len(names)]
        elif a.vararg is not None:
            loc[a.vararg.arg] = ()
        if a.kwarg is not None:
            known = set(names) | {x.arg for x in a.kwonlyargs}
            loc[a.kwarg.arg] = {k_: v_ for k_, v_ in kw.items() if k_ not in known}
            kw = {k_: v_ for k_, v_ in kw.items() if k_ in known}
        menv = self.repo.module(f.mod)
        for n, d in zip(names[len(names) - len(a.defaults):], a.defaults):
            loc[n] = self.ev(d, menv, f.mod)
        for n, d in zip([x.arg for x in a.kwonlyargs], a.kw_defaults):
            if d is not None:
                loc[n] = self.ev(d, menv, f.mod)
        for n, v in zip(names, args):
            loc[n] = v
        loc.update(kw)
        env = _ChainEnv(loc, menv)
        if getattr(self, "_inline_depth", 0) > 6:
            raise AnalysisError(f"{mod}:{e.lineno} helper {f.name}: inlining too deep")
        self._inline_depth = getattr(self, "_inline_depth", 0) + 1
        try:
            # module-level table builders: straight-line code, loops over tables, guards, a return
            self.exec_block(node.body, env, f.mod)
        except _TEReturn as r:
            return r.value
        finally:
            self._inline_depth -= 1
        for k_, v_ in loc.items():
            if isinstance(v_, Unknown) and k_ in names:
                raise AnalysisError(f"{mod}:{e.lineno} helper {f.name} could not be evaluated: {v_.why}")
        return None


class _Bound:
    def __init__(self, obj, attr):
        self.obj, self.attr = obj, attr

    def __call__(self, *a, **k):
        if isinstance(self.obj, dict) and self.attr in ("items", "keys", "values"):
            return _DictView(self.obj, self.attr)
        try:
            return getattr(self.obj, self.attr)(*a, **k)
        except Exception as ex:
            raise AnalysisError(f"table method {self.attr}: {ex!r}")


class _DictView:
    def __init__(self, d, kind):
        self.d, self.kind = d, kind

    def materialise(self):
        return list(getattr(self.d, self.kind)())

    def __iter__(self):
        return iter(self.materialise())

    def __contains__(self, x):
        return x in self.materialise()


class _ChainEnv(dict):
    """dict with a read-through parent (class body over module, comprehension scope)."""

    def __init__(self, own, parent):
        super().__init__()
        self.own = own
        self.parent = parent

    def __contains__(self, k):
        return k in self.own or k in self.parent

    def __getitem__(self, k):
        if k in self.own:
            return self.own[k]
        return self.parent[k]

    def __setitem__(self, k, v):
        self.own[k] = v

    def get(self, k, d=None):
        return self[k] if k in self else d

    def pop(self, k, *d):
        return self.own.pop(k, *d)


_NO_DEFAULT = object()


def _namedtuple_fields(c):
    out = []
    for st in c.node.body:
        if isinstance(st, ast.AnnAssign) and isinstance(st.target, ast.Name):
            out.append((st.target.id, st.value if st.value is not None else _NO_DEFAULT))
    return out


def _as_load(t):
    import copy

    t2 = copy.deepcopy(t)
    for n in ast.walk(t2):
        if hasattr(n, "ctx"):
            n.ctx = ast.Load()
    return t2


def _is_type_checking(test):
    return (isinstance(test, ast.Name) and test.id == "TYPE_CHECKING") or (
        isinstance(test, ast.Attribute) and test.attr == "TYPE_CHECKING"
    )


def _dataclass_fields(c: ClassRef):
    out = []
    for k in reversed([k for k in c.mro() if isinstance(k, ClassRef)]):
        k.attrs
        out.extend(f[0] for f in k.fields)
    return out
