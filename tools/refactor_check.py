#!/venv/bin/python
"""Replay behaviour-preserving refactorings against ALL checks: any VIOLATION is a false alarm, any ANALYSIS-ERROR a
robustness gap.  Usage: refactor_check.py <dir with patch.diff + meta.json> ...   (or no args: everything in /verif/refactors)"""
import json, os, shutil, subprocess, sys, tempfile
from concurrent.futures import ProcessPoolExecutor
sys.path.insert(0, "/verif")


def one(sd):
    from bsa import props, rules  # noqa
    from bsa.core import Run, match_known, load_known
    from bsa.te import Repo
    sd = os.path.abspath(sd)
    td = tempfile.mkdtemp(prefix="rfchk")
    try:
        shutil.copytree("/repo/bellows", os.path.join(td, "bellows"))
        p = subprocess.run(["patch", "-p1", "-s", "-f", "-i", os.path.join(sd, "patch.diff")], cwd=td, capture_output=True, text=True)
        if p.returncode != 0:
            return sd, "patch does not apply", {}, {}
        known = load_known()
        alarms, errors = {}, {}
        want = [x for x in os.environ.get('RF_PROPS', '').split(',') if x]
        for pr in sorted(props.PROPS):
            if want and pr not in want:
                continue
            run = Run(Repo(td), pr).execute()
            vs = [v for v in run.all_violations() if not match_known(v, pr, known)]
            if vs:
                alarms[pr] = sorted({v.key for v in vs})[:4] + [vs[0].message[:int(os.environ.get('RF_MSG', '200'))]]
            if run.errors():
                errors[pr] = [f"{r}: {e[:int(os.environ.get('RF_MSG', '200'))]}" for r, e in run.errors()][:3]
        return sd, "clean" if not alarms and not errors else ("FALSE-ALARM" if alarms else "analysis-error"), alarms, errors
    finally:
        shutil.rmtree(td, ignore_errors=True)


if __name__ == "__main__":
    args = sys.argv[1:] or [os.path.join("/verif/refactors", d) for d in sorted(os.listdir("/verif/refactors")) if os.path.exists(f"/verif/refactors/{d}/patch.diff")]
    with ProcessPoolExecutor(14) as ex:
        rows = list(ex.map(one, args))
    for sd, verdict, alarms, errors in rows:
        print(f"{'/'.join(sd.split('/')[-3:]):28s} {verdict}")
        for pr, a in alarms.items():
            print(f"      ALARM {pr}: {a}")
        for pr, e in errors.items():
            print(f"      ERROR {pr}: {e}")
    if "--write" in os.environ.get("RFCHK", ""):
        pass
