#!/venv/bin/python
"""Copy the behaviour-preserving patches of the maintainer sub-agents (/tmp/rf/<ID>/out/<n>/) into /verif/refactors/<ID>-<n>/ after checking
that each applies to a fresh worktree of /repo, compiles and keeps the pinned baseline (254 tests) passing.  Usage: collect_refactors.py <ID> ..."""
import json, os, shutil, subprocess, sys
from concurrent.futures import ThreadPoolExecutor


def one(job):
    rid, n = job
    src = f"/tmp/rf/{rid}/out/{n}"
    if not os.path.exists(f"{src}/patch.diff"):
        return rid, n, "missing"
    wt = f"/tmp/rfc/{rid}-{n}"
    subprocess.run(["git", "-C", "/repo", "worktree", "remove", "--force", wt], capture_output=True)
    subprocess.run(["git", "-C", "/repo", "worktree", "add", "-q", "--detach", wt, "HEAD"], check=True)
    try:
        p = subprocess.run(["git", "-C", wt, "apply", f"{src}/patch.diff"], capture_output=True, text=True)
        if p.returncode:
            return rid, n, "patch does not apply"
        if subprocess.run(["/venv/bin/python", "-m", "compileall", "-q", "bellows"], cwd=wt, capture_output=True).returncode:
            return rid, n, "does not compile"
        ok = False
        for _ in range(2):
            if subprocess.run(["/verif/tools/run_baseline.py", wt], capture_output=True, text=True).returncode == 0:
                ok = True
                break
        if not ok:
            return rid, n, "baseline broken"
        dst = f"/verif/refactors/{rid}-{n}"
        os.makedirs(dst, exist_ok=True)
        shutil.copy(f"{src}/patch.diff", f"{dst}/patch.diff")
        meta = json.load(open(f"{src}/meta.json"))
        meta["checked_by_me"] = "applies to HEAD, compiles, pinned baseline 254/254 (tools/collect_refactors.py, scratch worktree removed)"
        json.dump(meta, open(f"{dst}/meta.json", "w"), indent=1)
        if os.path.exists(f"{src}/diffcheck.py"):
            shutil.copy(f"{src}/diffcheck.py", f"{dst}/diffcheck.py")
        return rid, n, "collected"
    finally:
        subprocess.run(["git", "-C", "/repo", "worktree", "remove", "--force", wt], capture_output=True)


if __name__ == "__main__":
    os.makedirs("/tmp/rfc", exist_ok=True)
    jobs = [(rid, n) for rid in sys.argv[1:] for n in range(1, 7)]
    with ThreadPoolExecutor(6) as ex:
        for r in ex.map(one, jobs):
            print(*r)
