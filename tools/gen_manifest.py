#!/venv/bin/python
"""Regenerate MANIFEST.json from bsa/props.py and the rule registry (claimed = properties with >= 1 rule)."""
import json, sys
sys.path.insert(0, "/verif")
from bsa import props, rules  # noqa
from bsa.core import RULES

NOT_CLAIMED = {}  # property -> reason (filled when a property is deliberately not claimed)
claimed = sorted(p for p in {p for r in RULES.values() for p in r.props} if p in props.READY)
titles = {json.loads(l)["id"]: json.loads(l)["title"] for l in open("/verif/properties.jsonl")}
checks = []
for p in sorted(props.PROPS):
    if p not in claimed or p in NOT_CLAIMED:
        continue
    meta = props.PROPS[p]
    rids = sorted(r.id for r in RULES.values() if p in r.props)
    checks.append({
        "property_id": p,
        "quick_cmd": f"./check {p}",
        "thorough_cmd": f"./check {p} --tier thorough",
        "evidence_file": f"/verif/evidence/{p}.json",
        "replay_cmd_template": f"./check {p} --replay {{path}}",
        "engine": "bsa",
        "level_claimed": {
            "category": "other",
            "text": meta["level"] + " Rules: " + ", ".join(rids) + ". NOT decided: " + ("; ".join(meta["undecided"]) or "nothing further") + ".",
            "design_ref": f"DESIGN.md section 4, {p}",
        },
        "level_note": "Trusted base: " + "; ".join(props.ASSUMPTIONS + meta.get("assumptions", [])),
        "technique": meta.get("technique", "static analysis: ast-based abstract path enumeration, finite-domain table evaluation and who-may-write/call rules"),
    })
m = {
    "version": 1,
    "setup_cmd": "/venv/bin/python -m compileall -q bsa",
    "hooks": {"guard": "BELLOWS_VERIF", "enable": "no hooks are needed: the checks read /repo's source text only (the guard is unused)",
              "baseline_off_cmd": "cd /repo && /venv/bin/python -m pytest -ra -q -p no:cacheprovider --timeout=900 --continue-on-collection-errors",
              "source_commits": [], "add_only": True},
    "engines": [{"name": "bsa", "path": "bsa", "serves_properties": [c["property_id"] for c in checks],
                 "kind_free_text": "pure-stdlib static analyser over the ast of /repo/bellows: table evaluator (TE), path explorer (PX), access/call index (IDX), rule modules"}],
    "checks": checks,
    "notes": "Static analysis only (no bellows module is imported or executed by a deciding step). Exit codes: 0 held, 1 VIOLATION, 2 ANALYSIS-ERROR. See DESIGN.md.",
    "not_applicable": [{"property_id": p, "reason": NOT_CLAIMED.get(p, "check under construction (rules planned in DESIGN.md section 4); not claimed yet")}
                       for p in sorted(props.PROPS) if p not in [c["property_id"] for c in checks]],
}
json.dump(m, open("/verif/MANIFEST.json", "w"), indent=1)
print("claimed:", [c["property_id"] for c in checks])
