#!/venv/bin/python
"""Run the checks against seeded changes without touching /repo: copy /repo/bellows to a scratch dir, apply the
patch there, run the rules of the seed's property (and optionally all) through the API.
Usage: detect.py [--all-props] <seed dir> [<seed dir> ...]   (a seed dir holds patch.diff and meta.json)"""
import json, os, shutil, subprocess, sys, tempfile
sys.path.insert(0, "/verif")
from bsa import props, rules  # noqa
from bsa.core import Run, match_known, load_known
from bsa.te import Repo

args = sys.argv[1:]
allp = "--all-props" in args
args = [a for a in args if not a.startswith("--")]
known = load_known()
rows = []
for sd in args:
    sd = os.path.abspath(sd)
    meta = json.load(open(os.path.join(sd, "meta.json")))
    prop = meta.get("property") or meta.get("breaks")
    td = tempfile.mkdtemp(prefix="det", dir="/tmp")
    try:
        shutil.copytree("/repo/bellows", os.path.join(td, "bellows"))
        p = subprocess.run(["patch", "-p1", "-s", "-i", os.path.join(sd, "patch.diff")], cwd=td, capture_output=True, text=True)
        if p.returncode != 0:
            rows.append((sd, prop, "PATCH-FAILED", p.stdout[-200:]))
            continue
        plist = sorted(props.PROPS) if allp else [prop]
        hits, errs = {}, {}
        for pr in plist:
            run = Run(Repo(td), pr).execute()
            vs = [v for v in run.all_violations() if not match_known(v, pr, known)]
            if vs:
                hits[pr] = sorted({v.key for v in vs})
            if run.errors():
                errs[pr] = [f"{r}: {e[:160]}" for r, e in run.errors()]
        rows.append((sd, prop, "DETECTED" if prop in hits else ("ERROR" if prop in errs else "MISSED"), {"hits": hits, "errors": errs}))
    finally:
        shutil.rmtree(td, ignore_errors=True)
for sd, prop, verdict, info in rows:
    name = "/".join(sd.split("/")[-3:]) if "/seed/" in sd else os.path.basename(sd)
    print(f"{name:22s} {prop} {verdict}")
    if isinstance(info, dict):
        for pr, ks in info["hits"].items():
            print(f"      {pr}: {ks[:4]}{' ...' if len(ks) > 4 else ''}")
        for pr, es in info["errors"].items():
            print(f"      {pr} ANALYSIS-ERROR: {es[:2]}")
    else:
        print("     ", info)
