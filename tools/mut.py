#!/venv/bin/python
"""Quick probe: apply one textual edit in memory (overlay) and run checks.
Usage: mut.py <rel file> <old> <new> [Cxx ...]   (no props = all 20).  Never touches /repo."""
import sys, os
sys.path.insert(0, "/verif")
from concurrent.futures import ProcessPoolExecutor


def one(a):
    rel, src, pr = a
    from bsa import props, rules  # noqa
    from bsa.core import Run, match_known, load_known
    from bsa.te import Repo
    known = load_known()
    run = Run(Repo("/repo", overlay={rel: src}), pr).execute()
    vs = sorted({v.key for v in run.all_violations() if not match_known(v, pr, known)})
    es = [f"{r}: {e[:200]}" for r, e in run.errors()]
    return pr, vs, es


if __name__ == "__main__":
    rel, old, new = sys.argv[1:4]
    from bsa import props
    plist = sys.argv[4:] or sorted(props.PROPS)
    src = open(os.path.join("/repo", rel)).read()
    if src.count(old) != 1:
        sys.exit(f"old text occurs {src.count(old)} times")
    src = src.replace(old, new)
    compile(src, rel, "exec")
    with ProcessPoolExecutor(min(16, len(plist))) as ex:
        for pr, vs, es in ex.map(one, [(rel, src, p) for p in plist]):
            if vs or es:
                print(pr, "HIT" if vs else "ERR", vs[:5], es[:2])
    print("done")
