#!/venv/bin/python
"""Copy confirmed seeded changes from the sub-agents' scratch worktrees into /verif/seeded/<id>/."""
import glob, json, os, shutil
for sd in sorted(glob.glob("/tmp/wt/C*/seed/*")):
    cf = os.path.join(sd, "confirm.json")
    if not os.path.exists(cf):
        continue
    c = json.load(open(cf))
    if not c.get("confirmed"):
        print("skip (not confirmed)", sd)
        continue
    sid = c["id"]
    dst = f"/verif/seeded/{sid}"
    os.makedirs(dst, exist_ok=True)
    for f in ("patch.diff", "demo.py"):
        shutil.copy(os.path.join(sd, f), os.path.join(dst, f))
    m = json.load(open(os.path.join(sd, "meta.json")))
    meta = {"id": sid, "breaks": m.get("property"), "summary": m.get("summary"), "needs": m.get("needs"), "files": m.get("files"),
            "author": "independent sub-agent given only the property text and a scratch worktree",
            "confirmed_by_me": {
                "how": "tools/confirm_seed.py in a fresh scratch worktree of /repo (removed afterwards)",
                "demo_passes_on_pristine": c["pristine_pass"], "patch_applies": c["applies"], "demo_fails_with_patch": c["mutant_fail"],
                "compiles": c["compiles"], "pinned_baseline_254_passes_with_patch": c["baseline_pass"],
                "demo_runs": [(k, rc) for k, rc, _ in c.get("mutant", [])]},
            "how_to_run_demo": "from a worktree of /repo with the patch applied: /venv/bin/python <demo.py> (scripts) or /venv/bin/python -m pytest -q -p no:cacheprovider <demo.py> (pytest style); cwd must be the worktree"}
    json.dump(meta, open(os.path.join(dst, "meta.json"), "w"), indent=1)
print(len(glob.glob("/verif/seeded/*")), "seeds collected")
