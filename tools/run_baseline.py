#!/venv/bin/python
"""Usage: run_baseline.py <worktree>  -- runs the pinned suite in <worktree> and checks that every
test of the stable baseline (254 tests) still passes.  Exit 0 = baseline intact."""
import json, subprocess, sys, tempfile, os, xml.etree.ElementTree as ET
wt = os.path.abspath(sys.argv[1])
base = json.load(open("/root/.vp/BASELINE.json"))
stable = set(base["stable_pass"])
with tempfile.TemporaryDirectory() as td:
    xmlp = os.path.join(td, "r.xml")
    p = subprocess.run(["/venv/bin/python", "-m", "pytest", "-q", "-p", "no:cacheprovider", "--timeout=900",
                        "--continue-on-collection-errors", "-x" if False else "-q", f"--junitxml={xmlp}"],
                       cwd=wt, capture_output=True, text=True)
    passed = set()
    for tc in ET.parse(xmlp).getroot().iter("testcase"):
        if not any(ch.tag in ("failure", "error", "skipped") for ch in tc):
            passed.add(f"{tc.get('classname')}::{tc.get('name')}")
missing = sorted(stable - passed)
print(f"baseline stable tests: {len(stable)}; passing now: {len(stable & passed)}; broken: {len(missing)}")
for m in missing[:40]:
    print("  BROKEN:", m)
sys.exit(1 if missing else 0)
