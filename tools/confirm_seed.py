#!/venv/bin/python
"""Confirm a candidate seeded change: demo passes on the pristine tree, fails with the patch, and the pinned
baseline still passes with the patch.  Usage: confirm_seed.py <seed dir> <id>  -> writes <seed dir>/confirm.json"""
import json, os, shutil, subprocess, sys, tempfile, xml.etree.ElementTree as ET

seed, sid = os.path.abspath(sys.argv[1]), sys.argv[2]
wt = f"/tmp/cf/{sid}"
os.makedirs("/tmp/cf", exist_ok=True)
subprocess.run(["git", "-C", "/repo", "worktree", "remove", "--force", wt], capture_output=True)
subprocess.run(["git", "-C", "/repo", "worktree", "add", "-q", "--detach", wt, "HEAD"], check=True)
res = {"id": sid}
try:
    os.makedirs(f"{wt}/seed/x", exist_ok=True)
    demo = f"{wt}/seed/x/demo.py"
    shutil.copy(f"{seed}/demo.py", demo)
    src = open(demo).read()

    def run_demo():
        outs = []
        if "def test_" in src:
            p = subprocess.run(["/venv/bin/python", "-m", "pytest", "-q", "-p", "no:cacheprovider", "-x", "seed/x/demo.py"],
                               cwd=wt, capture_output=True, text=True, timeout=900)
            outs.append(("pytest", p.returncode, (p.stdout + p.stderr)[-600:]))
        if "__main__" in src or "def test_" not in src:
            p = subprocess.run(["/venv/bin/python", "seed/x/demo.py"], cwd=wt, capture_output=True, text=True, timeout=900)
            outs.append(("script", p.returncode, (p.stdout + p.stderr)[-600:]))
        return outs

    a = run_demo()
    res["pristine"] = a
    res["pristine_pass"] = all(r == 0 for _, r, _ in a)
    p = subprocess.run(["git", "-C", wt, "apply", f"{seed}/patch.diff"], capture_output=True, text=True)
    res["applies"] = p.returncode == 0
    b = run_demo()
    res["mutant"] = b
    res["mutant_fail"] = any(r != 0 for _, r, _ in b)
    # compile check
    p = subprocess.run(["/venv/bin/python", "-m", "compileall", "-q", "bellows"], cwd=wt, capture_output=True, text=True)
    res["compiles"] = p.returncode == 0
    ok = False
    for attempt in range(2):  # the suite has timing-sensitive tests; one retry
        p = subprocess.run(["/verif/tools/run_baseline.py", wt], capture_output=True, text=True, timeout=1800)
        res[f"baseline_{attempt}"] = p.stdout[-400:]
        if p.returncode == 0:
            ok = True
            break
    res["baseline_pass"] = ok
    res["confirmed"] = bool(res["pristine_pass"] and res["applies"] and res["mutant_fail"] and res["compiles"] and ok)
finally:
    subprocess.run(["git", "-C", "/repo", "worktree", "remove", "--force", wt], capture_output=True)
json.dump(res, open(f"{seed}/confirm.json", "w"), indent=1)
print(sid, "CONFIRMED" if res.get("confirmed") else "REJECTED", {k: v for k, v in res.items() if k.endswith(("pass", "fail", "applies", "compiles"))})
