#!/bin/sh
# usage: scratch.sh <dir with patch.diff>  -> prints a scratch dir holding a patched copy of /repo/bellows
src=$(realpath $1); d=/tmp/sc/$(basename $src); rm -rf $d; mkdir -p $d; cp -r /repo/bellows $d/bellows; (cd $d && patch -p1 -s -f -i $src/patch.diff) || echo PATCH-FAILED >&2; echo $d
