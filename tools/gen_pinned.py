#!/venv/bin/python
"""Freeze the attribute names each class of the pinned tree assigns on ``self`` (bsa/pinned_attrs.json).  The rules
build their abstract receiver objects from the attributes they know about; an attribute that is *not* in this list was
added by a later change, and gets its concrete initial value from ``__init__`` (see rules/util.self_obj) instead of an
unconstrained symbol - so a new counter or cursor is analysed with its real start value.  Run once on the pinned tree."""
import ast, json, sys
sys.path.insert(0, "/verif")
from bsa.te import Repo
repo = Repo("/repo")
out = {}
for f in repo.all_functions():
    if f.cls is None:
        continue
    key = f"{f.mod}:{f.cls.name}"
    for n in ast.walk(f.node):
        if isinstance(n, ast.Attribute) and isinstance(n.ctx, ast.Store) and isinstance(n.value, ast.Name) and n.value.id == "self":
            out.setdefault(key, set()).add(n.attr)
json.dump({k: sorted(v) for k, v in sorted(out.items())}, open("/verif/bsa/pinned_attrs.json", "w"), indent=0)
print(sum(len(v) for v in out.values()), "attributes in", len(out), "classes")

# shape fingerprints for rename recovery (bsa/canon.py)
import os
os.environ["BSA_NO_CANON"] = "1"
from bsa.canon import fingerprints, SHAPES_FILE
repo2 = Repo("/repo")
repo2._load_all()
fps = fingerprints({m: t for m, t in repo2._trees.items() if not m.startswith("bellows.cli")})
json.dump(fps, open(SHAPES_FILE, "w"), indent=0, sort_keys=True)
print(len(fps), "scopes fingerprinted;", os.path.getsize(SHAPES_FILE) // 1024, "KiB")
