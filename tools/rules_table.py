#!/venv/bin/python
"""Regenerate the 'Rules as built' table of DESIGN.md (section 0.5) from the rule registry."""
import os
import re
import sys

sys.path.insert(0, os.path.dirname(os.path.dirname(os.path.abspath(__file__))))
from bsa import rules  # noqa: F401,E402
from bsa.core import RULES, _rid_key  # noqa: E402

D = os.path.join(os.path.dirname(os.path.dirname(os.path.abspath(__file__))), "DESIGN.md")
s = open(D).read()
head = "| rule | template | properties | statement (first paragraph of the rule's docstring) |\n|---|---|---|---|\n"
rows = []
for rid in sorted(RULES, key=_rid_key):
    r = RULES[rid]
    doc = " ".join(r.doc.split("\n\n")[0].split()).replace("|", "/")
    tier = " (thorough tier)" if r.tier == "thorough" else ""
    rows.append(f"| {rid} | {r.template} | {', '.join(r.props)} | {doc[:420]}{tier} |")
a = s.index(head)
b = s.index("\n### 0.6 ")
s = s[:a] + head + "\n".join(rows) + "\n" + s[b:]
open(D, "w").write(s)
print(len(rows), "rules")
