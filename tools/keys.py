#!/venv/bin/python
"""keys.py <patch dir> <prop> [rule ...]: all violation keys / errors of the property's rules on the patched scratch copy."""
import sys, os, subprocess
sys.path.insert(0, "/verif")
from bsa import props, rules  # noqa
from bsa.core import Run
from bsa.te import Repo
d = subprocess.run(["/verif/tools/scratch.sh", sys.argv[1]], capture_output=True, text=True).stdout.strip().splitlines()[-1]
run = Run(Repo(d), sys.argv[2], rules=sys.argv[3:] or None, tier=os.environ.get("TIER", "quick")).execute()
for v in run.all_violations():
    print("V", v.key, "|", v.message[:int(os.environ.get("MSG", "160"))])
for r, e in run.errors():
    print("E", r, e[:int(os.environ.get("MSG", "300"))])
print("rules run:", [r.id for r, _, _ in run.results])
